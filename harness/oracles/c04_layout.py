"""Independent reference for C04, written from the PROPERTY TEXT (not from synthdef.py and
not from coq/model/Controls.v).  Used only by search() to exhibit a concrete failing input.

expected(case) -> what the property demands of a definition built from `case`:
  - every parameter after the prepended ones of every function (outer first, wrapped
    functions after, in the order they are wrapped) is a named control;
  - rate of a parameter = rates entry if it is a rate name, else the annotation, else kr;
  - inside one function slots are laid out ir, tr, ar, kr, declaration order inside a group,
    a wrapped function's controls come after everything built before it;
  - index = first slot, defaults contiguous, array = defaults in slot order;
  - kr parameters carry their lag (a list is used cyclically over the parameter's slots);
  - the body receives, for channel j of parameter p, the control output at slot index(p)+j;
  - positional call arguments map to the outermost function's control parameters in order;
  - a variant = the control array with the named parameter's first len(values) slots replaced.
check(case, out) -> list of (signature, text) for everything `out` (c04_build.py's record of
the real library) violates.
"""
from fractions import Fraction

GROUPS = ['ir', 'tr', 'ar', 'kr']


def F(x):
    return Fraction(x)


def preorder(tree):
    yield tree
    for w in tree['wraps']:
        yield from preorder(w)


def well_formed(tree):
    """the guards of the theorems: a build that must not raise"""
    for f in preorder(tree):
        if f['prepend'] > len(f['params']):
            return False
        for p in f['params']:
            if p['kind'] != 'pok':
                return False
        for p in f['params'][f['prepend']:]:
            if p['annot'] not in (None, 'ir', 'tr', 'ar', 'kr'):
                return False
            if p['default'][0] == 'nested':
                return False
    return True


def expected(case):
    specs = {e[0]: F(e[1][0]) for e in (case.get('specs') or [])}    # e[1] = the declared default (or minval when None)
    entries = []          # name table, declaration order, functions in wrap order
    base = 0
    for f in preorder(case['tree']):
        rates = f['rates'] or []
        ps = f['params'][f['prepend']:]
        mine = []
        for i, p in enumerate(ps):
            r = rates[i] if i < len(rates) else None
            d = p['default']
            if d[0] == 's':
                vals, scalar = [F(d[1])], True
            elif d[0] == 't':
                vals, scalar = [F(x) for x, _ in d[1]], False
            else:
                vals, scalar = [specs.get(p['name'], F(0))], True
            if isinstance(r, str):
                rate = r
            elif p['annot'] in GROUPS:
                rate = p['annot']
            else:
                rate = 'kr'
            lags = [F(0)] * len(vals)
            if rate == 'kr' and r is not None and not isinstance(r, str):
                src = [F(r[1])] if r[0] == 'lag' else [F(x) for x, _ in r[1]]
                if src:
                    lags = [src[j % len(src)] for j in range(len(vals))]
            mine.append({'name': p['name'], 'rate': rate, 'vals': vals, 'scalar': scalar, 'lags': lags})
        idx = base
        for g in GROUPS:
            for e in mine:
                if e['rate'] == g:
                    e['index'] = idx
                    idx += len(e['vals'])
        base = idx
        entries.append(mine)
    flat = [e for m in entries for e in m]
    array = [None] * base
    lagarr = [F(0)] * base
    for e in flat:
        for j, v in enumerate(e['vals']):
            array[e['index'] + j] = v
            lagarr[e['index'] + j] = e['lags'][j]
    outer = case['tree']
    callnames = [p['name'] for p in outer['params'][outer['prepend']:]]
    return {'funcs': entries, 'flat': flat, 'array': array, 'lagarr': lagarr, 'callnames': callnames}


def has_empty_tuple(tree):
    return any(p['default'][0] == 't' and len(p['default'][1]) == 0 for f in preorder(tree) for p in f['params'])


def check(case, out):
    bad = []
    if has_empty_tuple(case['tree']):
        return bad      # zero-width controls: outside the property's quantifier, judged by the model only
    if not well_formed(case['tree']):
        if out.get('err', 0) == 0:
            bad.append(('C04:invalid-signature-accepted', 'an invalid signature was built without an exception'))
        return bad
    if out.get('err', 0) != 0:
        bad.append(('C04:valid-signature-raises', 'a valid signature raises: %s' % out.get('errtext')))
        return bad
    exp = expected(case)
    flat = exp['flat']
    got = out['all']
    has_laglist_1 = any(len(e['vals']) == 1 for f, m in zip(preorder(case['tree']), exp['funcs'])
                        for e, r in zip(m, (f['rates'] or []) + [None] * len(m))
                        if e['rate'] == 'kr' and isinstance(r, list) and r[0] == 'lags' and len(r[1]) > 1)
    sig_layout = 'C04:lag-list-on-one-slot-control' if has_laglist_1 else 'C04:layout'
    if [g[0] for g in got] != [e['name'] for e in flat]:
        bad.append(('C04:name-table', 'name table %s, expected %s' % ([g[0] for g in got], [e['name'] for e in flat])))
        return bad
    controls = [F(x) for x in out['controls']]
    if controls != exp['array']:
        bad.append((sig_layout, 'control array has %d slots %s; the defaults laid out by rate group need %d: %s' % (
            len(controls), [str(x) for x in controls], len(exp['array']), [str(x) for x in exp['array']])))
    for g, e in zip(got, flat):
        if g[1] != e['index'] or g[2] != e['rate']:
            bad.append((sig_layout, 'parameter %s: index %s rate %s, expected index %s rate %s' % (e['name'], g[1], g[2], e['index'], e['rate'])))
            break
        if controls[g[1]:g[1] + len(e['vals'])] != e['vals']:
            bad.append((sig_layout, 'parameter %s: array[%d:%d] is not its defaults' % (e['name'], g[1], g[1] + len(e['vals']))))
            break
    # units cover the array exactly once, in order; lags
    slot_unit = {}
    pos = 0
    for ui, u in enumerate(out['units']):
        cls, rate, special, nouts, vals, lags = u
        if special != pos or nouts != len(vals):
            bad.append((sig_layout, 'control unit %d (%s) has special index %d and %d outputs but the next free slot is %d' % (ui, cls, special, nouts, pos)))
            break
        for k in range(nouts):
            slot_unit[special + k] = (ui, k, cls, F(lags[k]) if lags else F(0))
        pos += nouts
    else:
        want_cls = {'ir': ('Control',), 'tr': ('TrigControl',), 'ar': ('AudioControl',), 'kr': ('Control', 'LagControl')}
        for e in flat:
            for j in range(len(e['vals'])):
                s = e['index'] + j
                if s not in slot_unit:
                    bad.append((sig_layout, 'slot %d of %s is covered by no control unit' % (s, e['name'])))
                    break
                ui, k, cls, lag = slot_unit[s]
                if cls not in want_cls[e['rate']]:
                    bad.append((sig_layout, 'slot %d of %s (%s) is produced by a %s' % (s, e['name'], e['rate'], cls)))
                    break
                if lag != e['lags'][j]:
                    bad.append((sig_layout if has_laglist_1 else 'C04:lags', 'slot %d of %s has lag %s, expected %s' % (s, e['name'], lag, e['lags'][j])))
                    break
        # what the body received
        fi = 0
        for m, rf in zip(exp['funcs'], out['recv']):
            for e, r in zip(m, rf):
                chans = r[2]
                ok = r[0] == e['name'] and r[1] == e['scalar'] and len(chans) == len(e['vals'])
                if ok:
                    for j, (ui, k) in enumerate(chans):
                        if ui < 0 or ui >= len(out['units']) or out['units'][ui][2] + k != e['index'] + j:
                            ok = False
                if not ok:
                    bad.append((sig_layout, 'the body received for %s the outputs %s, which are not slots %d..%d' % (
                        e['name'], chans, e['index'], e['index'] + len(e['vals']) - 1)))
                    break
    # bytes
    v = out.get('variants') or {}
    if not v.get('raised'):
        if v.get('table') != [[g[0], g[1]] for g in got] or [F(x) for x in v.get('controls', [])] != controls:
            bad.append((sig_layout if has_laglist_1 else 'C04:bytes-name-table', 'the name table / control array in the bytes differ from the definition'))
    # calls
    for c, sent in zip(case.get('calls', []), out.get('calls', [])):
        want = [[n, F(a[0])] for n, a in zip(exp['callnames'], c['args'])] + [[k, F(x[0])] for k, x in c['kwargs']]
        if isinstance(sent, dict):
            bad.append(('C04:call', 'calling the definition raised %s' % sent['error']))
            continue
        gotp = [[n, F(x)] for n, x in sent]
        if gotp != want:
            pre = case['tree']['prepend'] > 0
            wr = len(case['tree']['wraps']) > 0
            sig = 'C04:call-positional-' + ('prepend' if pre and gotp[:1] and gotp[0][0] in [p['name'] for p in case['tree']['params'][:case['tree']['prepend']]] else 'wrap' if wr else 'other')
            bad.append((sig, 'call args=%s kwargs=%s sent %s, expected %s' % (
                [str(F(a[0])) for a in c['args']], [[k, str(F(x[0]))] for k, x in c['kwargs']],
                [[n, str(x)] for n, x in gotp], [[n, str(x)] for n, x in want])))
            break
    # variants
    if True:        # no variants given = none may be written (a foreign variant is a violation too)
        byname = {}
        for e in flat:
            byname[e['name']] = e
        want = []
        valid = True
        for vn, pairs in (case.get('variants') or []):
            full = case['name'] + '.' + vn
            arr = list(exp['array'])
            if len(full) > 32:
                valid = False
            for cn, vals in pairs:
                vs = [F(vals[1])] if vals[0] == 's' else [F(x) for x, _ in vals[1]]
                if cn not in byname or len(vs) > len(byname[cn]['vals']):
                    valid = False
                    break
                for j, x in enumerate(vs):
                    arr[byname[cn]['index'] + j] = x
            want.append([full, arr])
        if valid:
            gotv = [[n, [F(x) for x in a]] for n, a in v.get('written', [])]
            if v.get('raised') or v.get('count') != len(want) or gotv != want:
                bad.append((sig_layout if has_laglist_1 else 'C04:variants-layout', 'variants section %s, expected %d entries %s' % (
                    {k: v.get(k) for k in ('count', 'raised')}, len(want), [[n, [str(x) for x in a]] for n, a in want])))
        else:
            if not v.get('raised') and v.get('count') != len(v.get('written', [])):
                bad.append(('C04:variants-invalid-truncated',
                            'invalid variant: the bytes announce %d variants and contain %d' % (v.get('count'), len(v.get('written', [])))))
    return bad
