"""Independent reference for C19 (used only by the law probes of search()).

Written from the SuperCollider documentation, not from sc3's code and not from the Coq model:
  * EnvGen help, "the envelope array": [initial level, number of segments, release node
    (-99 = none), loop node (-99 = none), then per segment: target level, duration, shape
    number, curvature];
  * IEnvGen: [offset, initial level, number of segments, total duration, then per segment:
    duration, shape number, curvature, target level];
  * Env.shapeNames: step 0, lin 1, exp 2, sin 3, wel 4, (number -> 5), sqr 6, cub 7, hold 8;
  * the constructors' docstrings.
"""
from fractions import Fraction as Fr

SERVER_SHAPES = {'step': 0, 'lin': 1, 'linear': 1, 'exp': 2, 'exponential': 2, 'sin': 3, 'sine': 3,
                 'wel': 4, 'welch': 4, 'sqr': 6, 'squared': 6, 'cub': 7, 'cubed': 7, 'hold': 8}
NUMERIC_SHAPE = 5
ABSENT = -99


def _aslist(x, default):
    if x is None or x == [] or (not isinstance(x, (list, str)) and x == 0):
        return list(default)
    return list(x) if isinstance(x, list) else [x]


def _shape(c):
    return (SERVER_SHAPES[c], 0) if isinstance(c, str) else (NUMERIC_SHAPE, c)


def expected_envgen(levels, times, curves, rel, loop):
    T = _aslist(times, [1, 1])
    C = list(curves) if isinstance(curves, list) else [curves]
    n = len(levels) - 1
    return {'init': levels[0], 'n': n, 'rel': ABSENT if rel is None else rel, 'loop': ABSENT if loop is None else loop,
            'segs': [(levels[i + 1], T[i % len(T)]) + _shape(C[i % len(C)]) for i in range(n)]}


def decode_envgen(flat):
    if len(flat) < 4 or not isinstance(flat[1], int) or len(flat) != 4 + 4 * flat[1]:
        return {'malformed': flat}
    return {'init': flat[0], 'n': flat[1], 'rel': flat[2], 'loop': flat[3],
            'segs': [tuple(flat[4 + 4 * i: 8 + 4 * i]) for i in range(flat[1])]}


def expected_ienvgen(levels, times, curves, offset):
    T = _aslist(times, [1, 1])
    C = list(curves) if isinstance(curves, list) else [curves]
    n = len(levels) - 1
    durs = [T[i % len(T)] for i in range(n)]
    return {'offset': offset, 'init': levels[0], 'n': n, 'total': sum(durs),
            'segs': [(durs[i],) + _shape(C[i % len(C)]) + (levels[i + 1],) for i in range(n)]}


def decode_ienvgen(flat):
    if len(flat) < 4 or not isinstance(flat[2], int) or len(flat) != 4 + 4 * flat[2]:
        return {'malformed': flat}
    return {'offset': flat[0], 'init': flat[1], 'n': flat[2], 'total': flat[3],
            'segs': [tuple(flat[4 + 4 * i: 8 + 4 * i]) for i in range(flat[2])]}


def first_difference(got, want):
    if not isinstance(got, dict) or not isinstance(want, dict):
        return 'got %r' % (got,)
    for k in want:
        if got.get(k) != want[k]:
            if isinstance(want[k], list) and isinstance(got.get(k), list):
                for i, (a, b) in enumerate(zip(got[k], want[k])):
                    if a != b:
                        return '%s[%d]: got %r, expected %r' % (k, i, a, b)
            return '%s: got %r, expected %r' % (k, got.get(k), want[k])
    return 'extra fields'


# --------------------------------------------------------------------------- constructors
def observed_breakpoints(env):
    fmt = env._envgen_format()
    d = decode_envgen(list(fmt[0]))
    t, pts = Fr(0), [(Fr(0), Fr(d['init']))]
    for (lv, du, sh, cv) in d['segs']:
        t += Fr(du)
        pts.append((t, Fr(lv)))
    return {'points': pts, 'shapes': [(s[2], s[3]) for s in d['segs']], 'rel': d['rel'], 'loop': d['loop'],
            'offset': Fr(env.offset)}


def _bp(points, shapes, rel=ABSENT, loop=ABSENT, offset=0):
    return {'points': [(Fr(a), Fr(b)) for a, b in points], 'shapes': shapes, 'rel': rel, 'loop': loop, 'offset': Fr(offset)}


def _wrapshapes(curve, n):
    C = list(curve) if isinstance(curve, list) else [curve]
    return [_shape(C[i % len(C)]) for i in range(n)]


def _cutoff_is_exp(curve):
    """the release segment is exponential, however the curve is spelt: any alias of shape 2, bare or as the
    only element of a list (a NUMBER is never shape 2)"""
    c = curve[0] if isinstance(curve, list) and len(curve) == 1 else curve
    if isinstance(c, list):
        for x in c:
            _shape(x)                      # unknown names raise
        return False
    return _shape(c)[0] == 2


def documented(name, a):
    """breakpoints documented for Env.<name>(**a) (a = complete keyword arguments)"""
    F = Fr
    if name in ('triangle', 'sine'):
        d, l = F(a['dur']), F(a['level'])
        return _bp([(0, 0), (d / 2, l), (d, 0)], [_shape('lin' if name == 'triangle' else 'sine')] * 2)
    if name == 'perc':
        at, rt, l = F(a['attack_time']), F(a['release_time']), F(a['level'])
        return _bp([(0, 0), (at, l), (at + rt, 0)], _wrapshapes(a['curve'], 2))
    if name == 'linen':
        at, st, rt, l = F(a['attack_time']), F(a['sustain_time']), F(a['release_time']), F(a['level'])
        return _bp([(0, 0), (at, l), (at + st, l), (at + st + rt, 0)], _wrapshapes(a['curve'], 3))
    if name == 'cutoff':
        rt, l = F(a['release_time']), F(a['level'])
        end = F(1e-5) if _cutoff_is_exp(a['curve']) else 0       # -100 dB for exponential segments
        return _bp([(0, l), (rt, end)], _wrapshapes(a['curve'], 1), rel=0)
    if name == 'asr':
        at, sl, rt = F(a['attack_time']), F(a['sustain_level']), F(a['release_time'])
        return _bp([(0, 0), (at, sl), (at + rt, 0)], _wrapshapes(a['curve'], 2), rel=1)
    if name == 'adsr':
        at, dt, sl, rt, pk, b = (F(a[k]) for k in ('attack_time', 'decay_time', 'sustain_level', 'release_time', 'peak_level', 'bias'))
        return _bp([(0, b), (at, pk + b), (at + dt, pk * sl + b), (at + dt + rt, b)], _wrapshapes(a['curve'], 3), rel=2)
    if name == 'dadsr':
        dl, at, dt, sl, rt, pk, b = (F(a[k]) for k in ('delay_time', 'attack_time', 'decay_time', 'sustain_level', 'release_time', 'peak_level', 'bias'))
        return _bp([(0, b), (dl, b), (dl + at, pk + b), (dl + at + dt, pk * sl + b), (dl + at + dt + rt, b)],
                   _wrapshapes(a['curve'], 4), rel=3)
    if name == 'step':
        lv, tm = a['levels'], a['times']
        pts, t = [(0, lv[0])], F(0)
        for l, d in zip(lv, tm):
            t += F(d)
            pts.append((t, l))
        # sc3's convention: release_level is the index of the level to sustain at, stored as node index - 1
        rel = ABSENT if a['release_level'] is None else a['release_level'] - 1
        return _bp(pts, [_shape('step')] * len(tm), rel=rel, loop=ABSENT if a['loop_level'] is None else a['loop_level'],
                   offset=a['offset'])
    if name in ('xyc', 'pairs'):
        if name == 'xyc':
            pts = [tuple(p) for p in a['xyc']]
        else:
            c = a['curves']
            cs = ['lin'] * len(a['pairs']) if c is None else (list(c) if isinstance(c, list) else [c] * len(a['pairs']))
            pts = [(p[0], p[1], k) for p, k in zip(a['pairs'], cs)]
        pts = sorted(pts, key=lambda p: p[0])           # Python's sort is stable, like the documented behaviour
        x0 = pts[0][0]
        return _bp([(F(p[0]) - F(x0), p[1]) for p in pts], [_shape(p[2]) for p in pts[:-1]], offset=x0)
    raise KeyError(name)


DEFAULTS = {   # the documented default parameters
    'triangle': {'dur': 1.0, 'level': 1.0}, 'sine': {'dur': 1.0, 'level': 1.0},
    'perc': {'attack_time': 0.01, 'release_time': 1.0, 'level': 1.0, 'curve': -4.0},
    'linen': {'attack_time': 0.01, 'sustain_time': 1.0, 'release_time': 1.0, 'level': 1.0, 'curve': 'lin'},
    'cutoff': {'release_time': 0.1, 'level': 1.0, 'curve': 'lin'},
    'dadsr': {'delay_time': 0.1, 'attack_time': 0.01, 'decay_time': 0.3, 'sustain_level': 0.5, 'release_time': 1.0,
              'peak_level': 1.0, 'curve': -4.0, 'bias': 0.0},
    'adsr': {'attack_time': 0.01, 'decay_time': 0.3, 'sustain_level': 0.5, 'release_time': 1.0, 'peak_level': 1.0,
             'curve': -4.0, 'bias': 0.0},
    'asr': {'attack_time': 0.01, 'sustain_level': 1.0, 'release_time': 1.0, 'curve': -4.0},
    'step': {'levels': [0, 1], 'times': [1, 1], 'release_level': None, 'loop_level': None, 'offset': 0},
}


def constructor_cases(rng, n):
    """(name, kwargs actually passed, documented breakpoints)"""
    dy = lambda lo, hi: rng.randint(lo * 8, hi * 8) / 8
    dur = lambda: rng.choice([0.125, 0.25, 0.5, 1, 2, 1.5, 3])
    curve = lambda: rng.choice(['lin', 'sine', 'exp', 'welch', 'step', 'hold', 'cubed', -4, 2.5, 0, ['lin', -2], 'squared'])
    out = []
    for name, d in DEFAULTS.items():
        out.append((name, {}, documented(name, d)))                   # every documented default
        for k in d:                                                   # one parameter given, the others default
            if name == 'step' and k in ('levels', 'times'):
                continue
            v = {'curve': 'sine', 'release_level': 1, 'loop_level': 0}.get(k, 0.75 if k != 'levels' else None)
            out.append((name, {k: v}, documented(name, dict(d, **{k: v}))))
    spell = sorted(SERVER_SHAPES) + [2, 2.0, -4, 0]
    for name, d in DEFAULTS.items():
        if 'curve' in d:
            for sp in spell + [[x] for x in spell]:
                out.append((name, {'curve': sp}, documented(name, dict(d, curve=sp))))
    for _ in range(n):
        for name, d in DEFAULTS.items():
            a = {}
            for k in d:
                if k == 'curve':
                    a[k] = curve() if name != 'cutoff' else rng.choice(['lin', 'exp', 'sine', -4, 'exponential'])
                elif k in ('levels', 'times', 'release_level', 'loop_level', 'offset'):
                    continue
                elif k.endswith('time') or k == 'dur':
                    a[k] = dur()
                else:
                    a[k] = dy(-4, 4)
            if name == 'step':
                m = rng.randint(1, 5)
                a = {'levels': [dy(-4, 4) for _ in range(m)], 'times': [dur() for _ in range(m)],
                     'release_level': rng.choice([None, rng.randint(1, m)]), 'loop_level': rng.choice([None, 0]),
                     'offset': rng.choice([0, 0.5])}
            out.append((name, a, documented(name, dict(d, **a))))
        m = rng.randint(1, 5)
        xs = [rng.choice([0, 0.5, 1, 2, 2.5, 4, -1]) for _ in range(m)]
        pts = [[x, dy(-4, 4), curve() if not isinstance(curve(), list) else 'lin'] for x in xs]
        pts = [[p[0], p[1], p[2] if not isinstance(p[2], list) else 'lin'] for p in pts]
        out.append(('xyc', {'xyc': pts}, documented('xyc', {'xyc': pts})))
        pr = [[p[0], p[1]] for p in pts]
        cs = rng.choice([None, 'sine', -2, [p[2] for p in pts]])
        out.append(('pairs', {'pairs': pr, 'curves': cs}, documented('pairs', {'pairs': pr, 'curves': cs})))
    return out


# --------------------------------------------------------------------------- type-exact reference
# (used by the falsy-value sweep of the correspondence: explicit 0, 0.0, -0.0, False, '', [] must be
#  taken as given; only None -- and, for levels / times, an empty or zero value, as documented by the
#  constructor's comment "can't be empty or zero either" -- selects a default)
import math

ENV_DEFAULTS = [('levels', None), ('times', None), ('curves', 'lin'), ('release_node', None), ('loop_node', None), ('offset', 0)]


def typed(x):
    if isinstance(x, (list, tuple)):
        return [typed(i) for i in x]
    return [type(x).__name__, repr(x)]


def reference_args(name, a):
    """(levels, times, curves, release_node, loop_node, offset) documented for Env.<name>(**a); a is complete"""
    if name is None:
        return a['levels'], a['times'], a['curves'], a['release_node'], a['loop_node'], a['offset']
    if name in ('triangle', 'sine'):
        d = a['dur'] * 0.5
        return [0, a['level'], 0], [d, d], ('lin' if name == 'triangle' else 'sine'), None, None, 0
    if name == 'perc':
        return [0, a['level'], 0], [a['attack_time'], a['release_time']], a['curve'], None, None, 0
    if name == 'linen':
        return [0, a['level'], a['level'], 0], [a['attack_time'], a['sustain_time'], a['release_time']], a['curve'], None, None, 0
    if name == 'cutoff':
        return [a['level'], math.pow(10., -100 * .05) if _cutoff_is_exp(a['curve']) else 0], [a['release_time']], a['curve'], 0, None, 0
    if name == 'asr':
        return [0, a['sustain_level'], 0], [a['attack_time'], a['release_time']], a['curve'], 1, None, 0
    if name == 'adsr':
        p, s, b = a['peak_level'], a['sustain_level'], a['bias']
        return [0 + b, p + b, p * s + b, 0 + b], [a['attack_time'], a['decay_time'], a['release_time']], a['curve'], 2, None, 0
    if name == 'dadsr':
        p, s, b = a['peak_level'], a['sustain_level'], a['bias']
        return ([0 + b, 0 + b, p + b, p * s + b, 0 + b],
                [a['delay_time'], a['attack_time'], a['decay_time'], a['release_time']], a['curve'], 3, None, 0)
    if name == 'step':
        lv = a['levels'] if a['levels'] else [0, 1]
        tm = a['times'] if a['times'] else [1, 1]
        if len(lv) != len(tm):
            raise ValueError('lengths')
        r = a['release_level']
        return [lv[0]] + list(lv), tm, 'step', (None if r is None else r - 1), a['loop_level'], a['offset']
    if name in ('xyc', 'pairs'):
        if name == 'pairs':
            ps, c = a['pairs'], a['curves']
            if any(len(p) != 2 for p in ps):
                raise ValueError('pairs')
            if c is None:
                cs = ['lin'] * len(ps)
            elif isinstance(c, (str, float, int)):
                cs = [c] * len(ps)
            else:
                if len(c) != len(ps):
                    raise ValueError('lengths')
                cs = list(c)
            pts = [(p[0], p[1], k) for p, k in zip(ps, cs)]
        else:
            if any(len(p) != 3 for p in a['xyc']):
                raise ValueError('xyc')
            pts = [tuple(p) for p in a['xyc']]
        if not pts:
            raise ValueError('empty')
        pts = sorted(pts, key=lambda p: p[0])
        xs = [p[0] for p in pts]
        return [p[1] for p in pts], [q - p for p, q in zip(xs, xs[1:])], [p[2] for p in pts][:-1], None, None, xs[0]
    raise KeyError(name)


def reference_formats(name, pos, kw):
    """type-tagged expected EnvGen / IEnvGen arrays (or {'err': ...}) of Env(*pos, **kw) / Env.<name>(**kw)"""
    defaults = ENV_DEFAULTS if name is None else list(DEFAULTS.get(name, {}).items()) or \
        ([('xyc', None)] if name == 'xyc' else [('pairs', None), ('curves', None)])
    a = dict(defaults)
    for (k, _), v in zip(defaults, pos):
        a[k] = v
    a.update(kw)
    try:
        levels, times, curves, rel, loop, offset = reference_args(name, a)
        levels = levels if levels else [0, 1, 0]
    except ValueError:
        return {'env': {'err': 'ValueError'}, 'ienv': {'err': 'ValueError'}}
    except TypeError:
        return {'env': {'err': 'TypeError'}, 'ienv': {'err': 'TypeError'}}
    out = {}
    for key, fn, flat in (('env', lambda: expected_envgen(levels, times, curves, rel, loop),
                           lambda d: [d['init'], d['n'], d['rel'], d['loop']] + [x for s in d['segs'] for x in s]),
                          ('ienv', lambda: expected_ienvgen(levels, times, curves, 0 if offset is None else offset),
                           lambda d: [d['offset'], d['init'], d['n'], d['total']] + [x for s in d['segs'] for x in s])):
        try:
            out[key] = typed(flat(fn()))
        except KeyError:
            out[key] = {'err': 'ValueError'}
        except ZeroDivisionError:
            out[key] = {'err': 'ZeroDivisionError'}
        except TypeError:
            out[key] = {'err': 'TypeError'}
    return out


# --------------------------------------------------------------------------- float reference of the evaluation
# Written from the SuperCollider Env help ("Segment shapes") and the EnvGen semantics, in forms that do
# not copy sc3's expressions (e.g. the falling Welch side through cos).  Used with a tolerance.
def _ssqrt(x):
    return math.copysign(math.sqrt(abs(x)), x)


def _scbrt(x):
    return math.copysign(abs(x) ** (1.0 / 3.0), x)


def shape_value(curve, s, t, pos):
    """value at relative position pos in [0, 1) of a segment from level s to level t"""
    s, t = float(s), float(t)
    if not isinstance(curve, str):
        c = float(curve)
        if abs(c) < 0.0001:
            return s + (t - s) * pos
        return s + (t - s) * math.expm1(pos * c) / math.expm1(c)
    k = SERVER_SHAPES[curve]
    if k == 0:
        return t
    if k == 8:
        return s
    if k == 1:
        return s + (t - s) * pos
    if k == 2:
        return 0.0 if s == 0 else s * math.exp(pos * math.log(t / s))
    if k == 3:
        return s + (t - s) * math.sin(math.pi * pos / 2) ** 2
    if k == 4:
        return s + (t - s) * math.sin(math.pi * pos / 2) if s < t else t + (s - t) * math.cos(math.pi * pos / 2)
    if k == 6:
        r = _ssqrt(s) + pos * (_ssqrt(t) - _ssqrt(s))
        return r * abs(r)
    if k == 7:
        r = _scbrt(s) + pos * (_scbrt(t) - _scbrt(s))
        return r ** 3
    raise KeyError(curve)


def reference_at(levels, times, curves, offset, t):
    T = _aslist(times, [1, 1])
    C = list(curves) if isinstance(curves, list) else [curves]
    rel = max(0.0, t - offset)
    start, begin = float(levels[0]), 0.0
    for i in range(len(levels) - 1):
        d = T[i % len(T)]
        if rel < begin + d:
            return shape_value(C[i % len(C)], start, levels[i + 1], (rel - begin) / d)
        start, begin = float(levels[i + 1]), begin + d
    return start


def shape_tolerance(curve, scale):
    """cubed: sc3 uses the literal exponent 0.3333333 (relative error about 1e-7 * |ln|level||)"""
    rel = 2e-5 if (isinstance(curve, str) and SERVER_SHAPES.get(curve) == 7) else 1e-9
    return rel * max(1.0, scale)
