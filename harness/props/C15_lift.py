"""C15, lifting half: operators lift uniformly over functions, streams, patterns, lists, operands.

Exposes correspond_lift(ctx) -> fw.Corr and search_lift(ctx, failures) -> [fw.Failure];
harness/props/C15.py calls them and merges the results.

Model: coq/model/ListAlg.v (utils.list_*), coq/model/Lift.v (composition objects, dispatch,
evaluation).  Implementation runner: harness/impl/c15_lift_run.py (real sc3 objects).
"""
import json, os
from fractions import Fraction
import fw
from fw import Corr, Failure, cz, cq

MODEL_TARGETS = ['model/ListAlg.vo', 'model/Lift.vo', 'gen/Gen_maps.vo', 'proofs/C15_lift_maps.vo',
                 'proofs/C15_lift_bigstep.vo']
TRANSLATED = ['Gen_maps']
SIG_F8 = 'C15:narop_function_composed_args'
SIG_RAW = 'C15:scbuiltin_raw_selector'

# ---------------------------------------------------------------------------
# operator tables: name -> Coq term of the numeric operator

PY1 = {'neg': 'nneg', 'abs': 'nabs'}
CHAN_DEFAULTS = {'clip': [Fraction(0), Fraction(1)], 'fold': [Fraction(0), Fraction(1)], 'wrap': [Fraction(0), Fraction(1)],
                 'blend': [None, Fraction(1, 2)]}      # ChannelList.clip(lo=0.0, hi=1.0) ..., blend(other, frac=0.5)
DEFAULT2 = {'round': 1, 'roundup': 1, 'trunc': 1, 'max': 0}     # bi.round(x, quant=1) / .round(other=1) / .max(other=0)
PY2 = {'pow': 'npow', 'lshift': 'nshl', 'rshift': 'nshr', 'and_': 'nbitand', 'or_': 'nbitor',
       'add': 'nadd', 'sub': 'nsub', 'mul': 'nmul', 'truediv': 'ntruediv', 'floordiv': 'nfloordiv',
       'pymod': 'py_mod',            # AbstractObject.__mod__/__rmod__ compose bi.mod
       'lt': '(cmp nlt)', 'le': '(cmp nle)', 'gt': '(cmp ngt)', 'ge': '(cmp nge)',
       'eq': '(cmp neqb)', 'ne': '(cmp nneqb)'}
PYSYM = {'pow': '**', 'lshift': '<<', 'rshift': '>>', 'and_': '&', 'or_': '|',
         'add': '+', 'sub': '-', 'mul': '*', 'truediv': '/', 'floordiv': '//', 'pymod': '%',
         'lt': '<', 'le': '<=', 'gt': '>', 'ge': '>=', 'eq': '==', 'ne': '!='}
def no_method():
    """builtins that are not AbstractObject methods (div, mod: only the % operator)"""
    import re
    src = open(os.path.join(fw.REPO, 'sc3', 'base', 'absobject.py')).read()
    have = set(re.findall(r'^    def (\w+)\(self', src, re.M))
    return {k for k in arities() if k not in have}
INEXACT1 = {'distort', 'softclip'}   # contain a true division: only applied to safe leaf values
SAFE = {'distort': [0, 1, -1, 3, -3, 7, Fraction(1), Fraction(-3)],
        'softclip': [1, 2, -1, -2, 4, Fraction(1, 4), Fraction(1, 2), Fraction(-1, 2), Fraction(2)],
        'truediv': [1, 2, -2, 4, -1, Fraction(1, 2), Fraction(-1, 4), Fraction(2), 8],
        'pow': [0, 1, 2, 3], 'lshift': [0, 1, 2, 5], 'rshift': [0, 1, 2, 5]}
INTONLY = {'lshift', 'rshift', 'and_', 'or_'}

HEADER = '''From Coq Require Import ZArith QArith List Bool. Import ListNotations.
Require Import SC3.lib.PyNum SC3.gen.Gen_builtins SC3.model.ListAlg SC3.model.Lift.
Definition cmp (f : num -> num -> bool) : num -> num -> num :=
  fun a b => match a, b with NErr, _ | _, NErr => NErr | _, _ => I (if f a b then 1 else 0) end.
Definition o3 (f : num -> num -> num -> num) : num -> list num -> num :=
  fun x l => match l with [a; b] => f x a b | _ => NErr end.
(* int ** small non-negative int, dyadic float ** small non-negative int (the generator uses only these) *)
Definition npow (a b : num) : num :=
  match a, b with
  | I x, I y => if (y <? 0)%Z then NErr else I (Z.pow x y)
  | F q, I y => if (y <? 0)%Z then NErr else F (Qpower q y)
  | _, _ => NErr
  end.
(* blend(a, b, frac=0.5) called with one extra argument *)
Definition o3d (f : num -> num -> num -> num) (d : num) : num -> list num -> num :=
  fun x l => match l with [a; b] => f x a b | [a] => f x a d | _ => NErr end.
Definition mkp (ps : list (nat * option num)) (ks : list num) (c : num) : prim :=
  {| p_params := ps; p_coef := ks; p_const := c |}.
Definition FUEL := 60%nat.
(* 0: implementation = model of the repaired NaropFunction;  1: implementation = model of the code
   as it is (evaluates only Function instances among narop arguments) where the two differ;
   2: neither *)
(* an argument that raised (NErr) never reaches the operator: the exception propagates *)
Definition s1 (f : num -> num) : num -> num := fun x => match x with NErr => NErr | _ => f x end.
Definition s2 (f : num -> num -> num) : num -> num -> num :=
  fun x y => match x, y with NErr, _ | _, NErr => NErr | _, _ => f x y end.
Definition s3 (f : num -> list num -> num) : num -> list num -> num :=
  fun x l => if is_ok x && forallb is_ok l then f x l else NErr.
Definition P1 (f : num -> num) : op1 := (SPy, s1 f).
Definition D1 (f : num -> num) : op1 := (SDec, s1 f).
Definition R1 (f : num -> num) : op1 := (SRaw, s1 f).
Definition P2 (f : num -> num -> num) : op2 := (SPy, s2 f).
Definition D2 (f : num -> num -> num) : op2 := (SDec, s2 f).
Definition R2 (f : num -> num -> num) : op2 := (SRaw, s2 f).
Definition P3 (f : num -> list num -> num) : op3 := (SPy, s3 f).
Definition D3 (f : num -> list num -> num) : op3 := (SDec, s3 f).
Definition R3 (f : num -> list num -> num) : op3 := (SRaw, s3 f).
(* the implementation agrees with a model variant: same value, or the variant says that a numeric
   kernel ran on unevaluated objects (then anything may come out: an exception or a wrong value) *)
Definition agrees (m i : den) : bool := den_eqb (den_norm m) i || den_has_objarg m.
(* x = the expression as the code builds it (builtin FUNCTION forms pass the undecorated kernel),
   y = the same with every selector dispatching (repaired scbuiltin).
   0: implementation = model with both repairs (= the lifting law);
   1: = model of NaropFunction as it is (evaluates only Function instances among the extra arguments);
   4: = model of scbuiltin as it is (undecorated kernel as selector);  5: both;  2: none *)
Definition code (c : list prim * callargs * expr * expr * den) : nat :=
  let '(ps, ca, x, y, i) := c in
  let ev fx t := eval_f (env_of ps ca) fx FUEL (build t) in
  if den_eqb (den_norm (ev true y)) i then 0%nat
  else if agrees (ev false y) i then 1%nat
  else if agrees (ev true x) i then 4%nat
  else if agrees (ev false x) i then 5%nat
  else 2%nat.
(* cases observed through next(inval): ifn = (c, k) of the Pfunc primitives, ins = the inputs *)
Definition ienv_of (ifn : list (num * num)) (ins : list num) : nat -> nat -> num :=
  fun id idx => match nth_error ifn id, nth_error ins idx with
                | Some (c, k), Some v => nadd c (nmul k v)
                | _, _ => NErr
                end.
Definition icode (c : list prim * callargs * list (num * num) * list num * expr * den) : nat :=
  let '(ps, ca, ifn, ins, y, i) := c in
  let m := match observe (ienv_of ifn ins) (length ins) (build y) with
           | SFin l => DStr (map (eval_f (env_of ps ca) true FUEL) l)
           | SConst _ => DErr EFuel
           end in
  if den_eqb (den_norm m) i then 0%nat else 2%nat.
Definition vden (x : v) : den :=
  (fix go (x : v) : den := match x with N n => DNum n | L k l => DSeq k (map go l) | VErr e => DErr e end) x.
Definition ucode (c : v * den) : nat := if den_eqb (den_norm (vden (fst c))) (snd c) then 0%nat else 2%nat.
'''


# cases that use the regenerated range-mapping kernels (gen/Gen_maps.v) get their own shards, so that a refused
# translation of those kernels only affects them
HEADER_MAPS = HEADER.replace('Require Import SC3.lib.PyNum SC3.gen.Gen_builtins SC3.model.ListAlg SC3.model.Lift.',
                             'Require Import SC3.lib.PyNum SC3.gen.Gen_builtins SC3.model.ListAlg SC3.model.Lift SC3.gen.Gen_maps SC3.proofs.C15_lift_maps.')
assert HEADER_MAPS != HEADER


def arities():
    return json.load(open(os.path.join(fw.COQ, 'gen', 'Gen_builtins.json')))


# ---------------------------------------------------------------------------
# numbers

def nd(v):
    """python bool / int / Fraction -> numdesc"""
    if isinstance(v, bool):
        return ['B', str(int(v))]
    return ['I', str(v)] if isinstance(v, int) else ['F', str(v)]


def nval(d):
    if d[0] == 'B':
        return bool(int(d[1]))
    return int(d[1]) if d[0] == 'I' else Fraction(d[1])


def cnum(d):
    if d[0] == 'B':
        return '(I %s)' % cz(d[1])          # bool is an int for Python's own operators
    return '(I %s)' % cz(d[1]) if d[0] == 'I' else '(F %s)' % cq(Fraction(d[1]))


NUMMODE = {'mode': None}      # None | 'int' | 'falsy'  (set by the generator family)


def rnd_num(rng, nonzero=False):
    if NUMMODE['mode'] == 'int':
        return rng.randint(-6, 6)
    if NUMMODE['mode'] == 'falsy':
        return rng.choice([0, 0, Fraction(0), False, False, True, 1, -1, Fraction(1, 2)])
    while True:
        if rng.random() < 0.55:
            v = rng.randint(-6, 6)
        else:
            v = Fraction(rng.randint(-24, 24), rng.choice([1, 2, 4]))
        if not (nonzero and v == 0):
            return v


def pynum(v):
    return repr(v) if isinstance(v, (bool, int)) else repr(float(v))


# ---------------------------------------------------------------------------
# leaves: descriptors shared by the Coq printer, the impl runner and the text printer

NAMES = ['x', 'depth', 'rate', 'q']      # parameter names of the primitive functions (model: 0..3)


class Gen:
    def __init__(self, rng, kwmode=False):
        self.rng = rng
        self.fns = []          # [{'params': [[name_idx, default|None]], 'coef': [k], 'c': c}]
        self.kwmode = kwmode
        self.x = rnd_num(rng)
        if not kwmode:
            self.pos, self.kw = [self.x], []          # called as f(x)
        else:
            # keyword call: 0..2 positional values, keywords for a random subset of the names
            npos = rng.choice([0, 0, 1, 1, 2])
            self.pos = [rnd_num(rng) for _ in range(npos)]
            names = [i for i in range(len(NAMES)) if rng.random() < 0.6]
            if npos and rng.random() < 0.9:
                names = [i for i in names if i != 0]     # mostly avoid x given twice (TypeError)
            self.kw = [[i, rnd_num(rng)] for i in names]

    def num(self, pool=None):
        return ['num'] + nd(self.rng.choice(pool) if pool else rnd_num(self.rng))

    def fn(self, pool=None):
        rng = self.rng
        if self.fns and pool is None and rng.random() < 0.2:
            return ['fn', rng.randrange(len(self.fns))]      # the SAME Function object again (f + f, f.clip(f, f))
        if not self.kwmode:
            if pool:
                k, c = 0, rng.choice(pool)
            else:
                k, c = rng.choice([0, 1, 1, 2, -1, Fraction(1, 2)]), rnd_num(rng)
            self.fns.append({'params': [[0, None]], 'coef': [k], 'c': c})
        else:
            # several named parameters, some with defaults, in varying order; not every function
            # declares every keyword the call passes
            n = rng.choice([0, 1, 2, 2, 3])
            names = rng.sample(range(len(NAMES)), n)
            if 0 in names and rng.random() < 0.7:
                names.remove(0)
                names.insert(0, 0)                         # x usually first
            params, seen_default = [], False
            for nm in names:
                has_d = seen_default or rng.random() < 0.55   # python: defaults must be trailing
                seen_default = has_d
                params.append([nm, rnd_num(rng) if has_d else None])
            coef = [rng.choice([1, 1, 2, -1, Fraction(1, 2), 0]) for _ in names]
            self.fns.append({'params': params, 'coef': coef, 'c': rnd_num(rng)})
        return ['fn', len(self.fns) - 1]

    def nums(self, lo=0, hi=4, pool=None):
        n = self.rng.randint(lo, hi)
        return [nd(self.rng.choice(pool) if pool else rnd_num(self.rng)) for _ in range(n)]

    def strm(self, pool=None, lo=0):
        return ['str', self.nums(lo=lo, pool=pool)]

    def pat(self, pool=None, lo=1):
        return ['pat', self.nums(lo=max(lo, 1), pool=pool)]     # Pseq([]) raises ValueError

    def seq(self, kind='C', depth=None, pool=None, leafy=False, minlen=0):
        depth = self.rng.randint(1, 3) if depth is None else depth
        n = self.rng.randint(minlen, 4)
        items = []
        for _ in range(n):
            r = self.rng.random()
            if depth > 1 and r < 0.35:
                items.append(self.seq(self.rng.choice('LLTC'), depth - 1, pool, leafy))
            elif leafy and r < 0.5:
                items.append(self.rng.choice([self.fn, self.operand_num])(pool) if pool is None else self.num(pool))
            else:
                items.append(self.num(pool))
        return ['seq', kind, items]

    def operand_num(self, pool=None):
        return ['operand', self.rng.random() < 0.4, self.num(pool)]

    def operand(self, pool=None):
        r = self.rng.random()
        if r < 0.7:
            inner = self.num(pool)
        elif r < 0.85:
            inner = self.seq('C', 1, pool)
        else:
            inner = self.fn(pool)
        return ['operand', self.rng.random() < 0.4, inner]

    def leaf(self, kind, pool=None):
        return {'num': self.num, 'fn': self.fn, 'str': self.strm, 'pat': self.pat, 'operand': self.operand,
                'seqC': lambda p=None: self.seq('C', None, p),
                'seqCf': lambda p=None: self.seq('C', self.rng.randint(1, 2), p, leafy=True),
                'seqL': lambda p=None: self.seq('L', None, p),
                'seqT': lambda p=None: self.seq('T', None, p)}[kind](pool)


def leaf_kind(d):
    return {'num': 'num', 'fn': 'fn', 'str': 'str', 'pstr': 'str', 'pat': 'pat', 'pfunc': 'pat', 'operand': 'operand'}.get(d[0]) or 'seq' + d[1]


def has_tag(e, tag):
    if isinstance(e, list):
        if e and e[0] == tag:
            return True
        return any(has_tag(i, tag) for i in e)
    return False


def count_leaves_seq(d):
    if d[0] == 'seq':
        return sum(count_leaves_seq(i) for i in d[2])
    return 1


# ---------------------------------------------------------------------------
# printers

def coq_leaf(d):
    t = d[0]
    if t == 'num':
        return '(ONum %s)' % cnum(d[1:])
    if t == 'fn':
        return '(OFn %d)' % d[1]
    if t == 'str':
        return '(OStr [%s])' % '; '.join(cnum(i) for i in d[1])
    if t == 'pat':
        return '(OPat [%s])' % '; '.join(cnum(i) for i in d[1])
    if t == 'pfunc':
        return '(OPfunc %d)' % d[1]
    if t == 'pstr':
        return '(OStr [%s])' % '; '.join(cnum(i) for i in d[1])      # a stream object yielding these values
    if t == 'seq':
        return '(OSeq %s [%s])' % ({'L': 'KList', 'T': 'KTuple', 'C': 'KChan'}[d[1]], '; '.join(coq_leaf(i) for i in d[2]))
    if t == 'operand':
        return '(OOperand %s %s)' % ('true' if d[1] else 'false', coq_leaf(d[2]))
    raise ValueError(d)


def coq_op(name, arity):
    if arity == 1:
        return PY1.get(name) or 'py_' + name
    if arity == 2:
        return PY2.get(name) or 'py_' + name
    if name == 'blend':
        return '(o3d py_blend (F (1 # 2)))'
    if name.startswith('linlin'):
        return '(o5 py_%s)' % name          # linlin_minmax / linlin_min / linlin_max / linlin_none (gen/Gen_maps.v)
    return '(o3 py_%s)' % name


def coq_sel(name, arity, mode, fixed):
    """selector as stored in the composed object: builtin function forms pass the raw kernel"""
    # 'bi': bi.f(a, b) composes with the undecorated kernel; 'meth' and the % operator pass the
    # decorated builtin; other Python operators pass operator.<op>.  Repaired scbuiltin: the
    # decorated builtin everywhere, which always dispatches (= P)
    if fixed or (mode == 'op' and name != 'pymod') or name == 'pow':     # .pow() composes operator.pow
        letter = 'P'
    else:
        letter = 'R' if mode == 'bi' else 'D'
    return '(%s%d %s)' % (letter, arity, coq_op(name, arity))


def nar_name(e):
    """kernel name of an n-ary node: the clip mode of linlin selects the regenerated variant"""
    if e[1] == 'linlin':
        mode = e[5][1] if len(e) > 5 and e[5][0] != 'omit' else 'minmax'
        return 'linlin_' + ('none' if mode is None else mode)
    return e[1]


def coq_expr(e, fixed=True):
    t = e[0]
    if t == 'leaf':
        return '(ELeaf %s)' % coq_leaf(e[1])
    if t == 'un':
        return '(EUn %s %s)' % (coq_sel(e[1], 1, e[2], fixed), coq_expr(e[3], fixed))
    if t == 'bin':
        return '(EBin %s %s %s)' % (coq_sel(e[1], 2, e[2], fixed), coq_expr(e[3], fixed), coq_expr(e[4], fixed))
    if t == 'bin1':      # second argument defaulted by the wrapper (scbuiltin default_b / method default / __round__, __trunc__)
        return '(EBin %s %s (ELeaf (ONum (I %s))))' % (coq_sel(e[1], 2, e[2], fixed), coq_expr(e[3], fixed), cz(DEFAULT2[e[1]]))
    if t == 'nar' and e[2] == 'meth' and top_kind(e[3]) == 'seqC':
        # ChannelList overrides clip/fold/wrap/blend: _multichannel_perform (flop over channels and arguments),
        # defaults lo=0.0, hi=1.0 / frac=0.5 filled in
        args = list(e[4]) + [['leaf', ['num'] + nd(v)] for v in CHAN_DEFAULTS.get(e[1], [])[len(e[4]):]]
        return '(ECNar %s %s [%s])' % (coq_sel(nar_name(e), 3, e[2], fixed), coq_expr(e[3], fixed),
                                       '; '.join(coq_expr(i, fixed) for i in args))
    if t == 'nar':
        return '(ENar %s %s [%s])' % (coq_sel(nar_name(e), 3, e[2], fixed), coq_expr(e[3], fixed),
                                      '; '.join(coq_expr(i, fixed) for i in e[4]))
    if t == 'pseq':
        return '(EPseq [%s] %d)' % ('; '.join(coq_expr(i, fixed) for i in e[1]), e[2])
    if t == 'pn':
        return '(EPn %s %d)' % (coq_expr(e[1], fixed), e[2])
    raise ValueError(e)


def coq_den(o):
    t = o[0]
    if t == 'n':
        n, d = int(o[2]), int(o[3])
        return '(DNum (I %s))' % cz(n) if o[1] == 0 else '(DNum (F %s))' % cq(Fraction(n, d))
    if t == 'c':
        return '(DCall %s)' % coq_den(o[1])
    if t == 's':
        return '(DStr [%s])' % '; '.join(coq_den(i) for i in o[1])
    if t == 'l':
        return '(DSeq %s [%s])' % ({'L': 'KList', 'T': 'KTuple', 'C': 'KChan'}[o[1]], '; '.join(coq_den(i) for i in o[2]))
    if t == 'o':
        return '(DOp %s %s)' % ('true' if o[1] else 'false', coq_den(o[2]))
    if t == 'e':
        return '(DErr EType)'
    return '(DCall (DErr EFuel))'     # never equal to a (normalised) model value


def coq_v(d):
    if d[0] == 'num':
        return '(N %s)' % cnum(d[1:])
    return '(L %s [%s])' % ({'L': 'KList', 'T': 'KTuple', 'C': 'KChan'}[d[1]], '; '.join(coq_v(i) for i in d[2]))


def txt_leaf(d, g):
    t = d[0]
    if t == 'num':
        v = nval(d[1:])
        return '(%s)' % pynum(v) if v < 0 else pynum(v)      # (-5) ** x, not -5 ** x
    if t == 'fn':
        return 'Function(%s)' % fn_source(g['fns'][d[1]])
    if t == 'str':
        return 'routine_over([%s])' % ', '.join(pynum(nval(i)) for i in d[1])
    if t == 'pat':
        return 'Pseq([%s])' % ', '.join(pynum(nval(i)) for i in d[1])
    if t == 'pfunc':
        cc, k = g['ifns'][d[1]]
        return 'Pfunc(lambda inval: %s + %s*inval)' % (pynum(nval(cc)), pynum(nval(k)))
    if t == 'pstr':
        return 'stream(Pseq([%s]))' % ', '.join(pynum(nval(i)) for i in d[1])
    if t == 'seq':
        inner = ', '.join(txt_leaf(i, g) for i in d[2])
        return {'L': '[%s]', 'T': '(%s,)', 'C': 'ChannelList([%s])'}[d[1]] % inner
    if t == 'operand':
        return '%s(%s)' % ('Rest' if d[1] else 'Operand', txt_leaf(d[2], g))


def txt_expr(e, g):
    t = e[0]
    if t == 'leaf':
        return txt_leaf(e[1], g)
    if t == 'un':
        a = txt_expr(e[3], g)
        if e[2] == 'dunder':
            return 'math.%s(%s)' % (e[1], a)
        if e[2] == 'op':
            return {'neg': '(-%s)', 'abs': 'abs(%s)'}[e[1]] % a
        return ('%s.%s()' % (a, e[1])) if e[2] == 'meth' else 'bi.%s(%s)' % (e[1], a)
    if t == 'bin1':
        a = txt_expr(e[3], g)
        return {'dunder': ('round(%s)' if e[1] == 'round' else 'math.trunc(%s)') % a,
                'meth': '%s.%s()' % (a, e[1]), 'bi': 'bi.%s(%s)' % (e[1], a)}[e[2]]
    if t == 'bin' and e[2] == 'dunder':
        return 'round(%s, %s)' % (txt_expr(e[3], g), txt_expr(e[4], g))
    if t == 'bin':
        a, b = txt_expr(e[3], g), txt_expr(e[4], g)
        if e[2] == 'op':
            return '(%s %s %s)' % (a, PYSYM[e[1]], b)
        return ('%s.%s(%s)' % (a, e[1], b)) if e[2] == 'meth' else 'bi.%s(%s, %s)' % (e[1], a, b)
    if t == 'nar':
        a = txt_expr(e[3], g)
        args = ', '.join(txt_expr(i, g) for i in e[4])
        if len(e) > 5 and e[5][0] != 'omit':
            args += (', %r' if e[5][0] == 'pos' else ', clip=%r') % (e[5][1],)
        return ('%s.%s(%s)' % (a, e[1], args)) if e[2] == 'meth' else 'bi.%s(%s, %s)' % (e[1], a, args)
    if t == 'pseq':
        return 'Pseq([%s], %d)' % (', '.join(txt_expr(i, g) for i in e[1]), e[2])
    if t == 'pn':
        return 'Pn(%s, %d)' % (txt_expr(e[1], g), e[2])


def fn_source(f):
    """python source of a primitive: lambda p0, p1=d1: c + k0*p0 + k1*p1 (shared with the impl runner)"""
    ps = ', '.join(NAMES[n] if d is None else '%s=%s' % (NAMES[n], pynum(nval(d))) for n, d in f['params'])
    body = pynum(nval(f['c'])) + ''.join(' + %s*%s' % (pynum(nval(k)), NAMES[n]) for k, (n, _d) in zip(f['coef'], f['params']))
    return 'lambda %s: %s' % (ps, body)


def call_text(c):
    return ', '.join([pynum(nval(v)) for v in c['pos']] + ['%s=%s' % (NAMES[n], pynum(nval(v))) for n, v in c['kw']])


def case_text(c):
    if c.get('ins') is not None:
        return '%s   observed with next(v) for v in [%s]' % (txt_expr(c['e'], c), ', '.join(pynum(nval(v)) for v in c['ins']))
    return '%s   functions called with (%s)' % (txt_expr(c['e'], c), call_text(c))


def coq_prims(c):
    def one(f):
        ps = '; '.join('(%d%%nat, %s)' % (n, 'None' if d is None else '(Some %s)' % cnum(d)) for n, d in f['params'])
        return '(mkp [%s] [%s] %s)' % (ps, '; '.join(cnum(k) for k in f['coef']), cnum(f['c']))
    return '([%s] : list prim)' % '; '.join(one(f) for f in c['fns'])


def coq_callargs(c):
    return '(([%s] : list num), ([%s] : list (nat * num)))' % (
        '; '.join(cnum(v) for v in c['pos']), '; '.join('(%d%%nat, %s)' % (n, cnum(v)) for n, v in c['kw']))


def upgrade_case(c):
    """old corpus format (one positional x, fns = [[k, c]]) -> argument-record format"""
    if 'pos' in c:
        return c
    c = dict(c)
    c['fns'] = [{'params': [[0, None]], 'coef': [k], 'c': cc} for k, cc in c['fns']]
    c['pos'], c['kw'] = [c.pop('x')], []
    c.pop('env', None)
    return c


# ---------------------------------------------------------------------------
# case generation

ABS_KINDS = ['fn', 'str', 'pat', 'seqC', 'operand']
CMP5 = ('lt', 'le', 'gt', 'ge', 'eq', 'ne')


def is_abs_leaf(d):
    return d[0] in ('fn', 'str', 'pat', 'operand') or (d[0] == 'seq' and d[1] == 'C')


def top_kind(e):
    """kind of the object an expression builds: kind of the operand that composes"""
    if e[0] == 'leaf':
        return leaf_kind(e[1])
    if e[0] == 'bin1':
        return top_kind(e[3])
    if e[0] in ('pseq', 'pn'):
        return 'pat'
    if e[0] == 'bin':
        a, b = top_kind(e[3]), top_kind(e[4])
        return a if a not in ('num', 'seqL', 'seqT') else (b if b not in ('seqL', 'seqT') or a == 'num' else a)
    return top_kind(e[3])


def gen_cases(ctx, n_per):
    rng = ctx.rng
    ar = arities()
    NO_METHOD = no_method()
    un = sorted(k for k, a in ar.items() if a == 1)
    bn = sorted(k for k, a in ar.items() if a == 2)
    tn = sorted(k for k, a in ar.items() if a == 3)
    cases = []

    def um(name, py):
        return 'op' if py else rng.choice(['bi'] if name in NO_METHOD else ['bi', 'meth'])

    def finish(g, e, shape):
        if g.kwmode and rng.random() < 0.9:
            # mostly well-formed calls: no parameter given both positionally and by keyword, every
            # required parameter given (the rest keeps the TypeError paths covered)
            npos = len(g.pos)
            bound = {f['params'][i][0] for f in g.fns for i in range(min(npos, len(f['params'])))}
            kw = {n: v for n, v in g.kw if n not in bound}
            for f in g.fns:
                for i, (n, d) in enumerate(f['params']):
                    if d is None and i >= npos and n not in kw and n not in bound:
                        kw[n] = rnd_num(rng)
            g.kw = [[n, kw[n]] for n in sorted(kw)]
        cases.append(finish_dict(g, e, shape))

    def finish_dict(g, e, shape):
        return ({'k': 'expr', 'pos': [nd(v) for v in g.pos], 'kw': [[n, nd(v)] for n, v in g.kw],
                      'fns': [{'params': [[n, None if d is None else nd(d)] for n, d in f['params']],
                               'coef': [nd(k) for k in f['coef']], 'c': nd(f['c'])} for f in g.fns],
                      'e': e, 'shape': shape,
                      'twice': not (has_tag(e, 'str') or has_tag(e, 'pstr'))})

    def mode_for(left_is_abs, name, py):
        ms = ['bi'] if not py else ['op']
        if left_is_abs and not py and name not in NO_METHOD:
            ms.append('meth')
        return rng.choice(ms)

    def binop_expr(g, name, py, ea, eb, mode=None):
        la = top_kind(ea) not in ('num', 'seqL', 'seqT')
        return ['bin', name, mode or mode_for(la, name, py), ea, eb]

    def pool_for(name):
        return SAFE.get(name)

    def operand_pair(g, ka, kb, name):
        """two operand leaves of the given kinds, respecting what the model covers"""
        pa = None
        pb = pool_for(name) if name == 'truediv' else None
        a = g.leaf(ka, pa)
        b = g.leaf(kb, pb)
        # a ChannelList on the left of a Routine would share one Routine object between the
        # element-wise results (state, not a value): use the pattern instead
        if has_tag(a, 'seq') and kb == 'str':
            b = ['pat', b[1] or [nd(1)]]
        if a[0] == 'operand' and b[0] == 'operand' and name in ('lt', 'le', 'gt', 'ge'):
            b[1] = a[1]     # Operand < Rest: Python tries the subclass's reflected comparison first (type Rest)
        if has_tag(b, 'seq') and ka == 'str':
            a = ['pat', a[1] or [nd(1)]]
        return a, b

    def ok_pair(ka, kb, name):
        plain = ('seqL', 'seqT')
        if ka in plain and kb not in ('seqC', 'seqCf'):
            return False
        if kb in plain and ka not in ('seqC', 'seqCf'):
            return False
        if ka == 'num' and kb == 'num':
            return False
        if name in ('eq', 'ne') and 'operand' in (ka, kb):
            return False          # Operand.__eq__ is overridden (compares values, not lifted)
        if name in ('eq', 'ne') and 'seqCf' in (ka, kb):
            return False
        return True

    SPECIAL2 = {'pow', 'lshift', 'rshift', 'and_', 'or_'}      # only in family 7b (controlled operand values)
    all2 = [(k, True) for k in PY2 if k not in SPECIAL2] + [(k, False) for k in bn]
    all1 = [(k, True) for k in PY1] + [(k, False) for k in un]
    kinds = ['num', 'fn', 'str', 'pat', 'seqC', 'seqCf', 'seqL', 'seqT', 'operand']

    # 1. every binary operator x homogeneous / reflected / mixed operand kinds
    for name, py in all2:
        for _ in range(n_per):
            g = Gen(rng)
            r = rng.random()
            if r < 0.45:
                ka = rng.choice(ABS_KINDS)
                kb = rng.choice([ka, ka, 'num'])
                shape = 'homog'
            elif r < 0.7:
                ka, kb = 'num', rng.choice(ABS_KINDS)
                shape = 'reflected'
            else:
                ka, kb = rng.choice(kinds), rng.choice(kinds)
                shape = 'mixed'
            if not ok_pair(ka, kb, name):
                continue
            if ka in ('seqL', 'seqT') and name in ('lt', 'le', 'gt', 'ge', 'eq', 'ne'):
                # comparisons have no __r*__ form: `plain < ChannelList` is ChannelList.__gt__(plain),
                # i.e. list_binop with the operands mirrored (same values; differs only in which
                # operand may be empty / raise IndexError): not modelled
                ka = 'seqC'
            a, b = operand_pair(g, ka, kb, name)
            e = binop_expr(g, name, py, ['leaf', a], ['leaf', b])
            finish(g, e, shape + ':' + ka + ',' + kb)

    # 2. composed operands: ((a op b) op2 c), (n op (a op b)), unary of composed
    exact2 = [(k, p) for k, p in all2 if k != 'truediv']
    for _ in range(n_per * 12):
        g = Gen(rng)
        k = rng.choice(['fn', 'fn', 'str', 'pat', 'seqC', 'operand'])
        # comparisons only outermost: a bool fed to a kernel takes the kernel's float branch
        # (`type(x) is int` is false for bool), which is the kernels' business, not the lifting's
        CMP = ('lt', 'le', 'gt', 'ge', 'eq', 'ne')
        # at most one product-like operator per expression: binary64 stays exact (< 2^53)
        BIG = {'mul', 'ring1', 'ring2', 'ring3', 'ring4', 'difsqr', 'sumsqr', 'sqrsum', 'sqrdif', 'cubed', 'squared'}
        (n1, p1) = rng.choice([x for x in exact2 if x[0] not in CMP])
        (n2, p2) = rng.choice([x for x in exact2 if not (n1 in BIG and x[0] in BIG)])
        if 'operand' == k and ({n1, n2} & set(CMP)):
            continue          # Operand.__eq__ is not lifted; Operand < Rest resolves to the subclass
        a, b = operand_pair(g, k, rng.choice([k, 'num']), n1)
        inner = binop_expr(g, n1, p1, ['leaf', a], ['leaf', b])
        c = ['leaf', g.leaf(rng.choice([k, 'num']))]
        if (k == 'seqC' or has_tag(inner, 'seq')) and c[1][0] == 'str':
            c = ['leaf', ['pat', c[1][1] or [nd(1)]]]
        e = binop_expr(g, n2, p2, inner, c) if rng.random() < 0.5 else binop_expr(g, n2, p2, c, inner)
        if rng.random() < 0.3 and n2 not in CMP:
            u, pu = rng.choice([x for x in all1 if x[0] not in INEXACT1 and not (x[0] in BIG and ({n1, n2} & BIG))])
            e = ['un', u, um(u, pu), e]
        finish(g, e, 'composed:' + k)

    # 3. every unary operator on every kind
    for name, py in all1:
        for _ in range(n_per):
            g = Gen(rng)
            k = rng.choice(ABS_KINDS + ['seqCf'])
            a = g.leaf(k, pool_for(name))
            finish(g, ['un', name, um(name, py), ['leaf', a]], 'unary:' + k)

    # 4. n-ary operators: first operand of every kind; extra arguments numbers, objects of the
    #    same kind, or COMPOSED objects of the same kind
    for name in tn:
        for _ in range(n_per * 3):
            g = Gen(rng)
            k = rng.choice(['fn', 'fn', 'str', 'pat', 'seqC', 'operand'])
            a = ['leaf', g.leaf(k)]
            args = []
            for _i in range(2):
                r = rng.random()
                if k in ('seqC', 'operand') or r < 0.4:
                    args.append(['leaf', g.num()])        # list_narop / Operand pass arguments through unchanged
                elif r < 0.7:
                    args.append(['leaf', g.leaf(k)])
                else:
                    n1, p1 = rng.choice([('add', True), ('sub', True), ('mul', True), ('max', False)])
                    x1, y1 = operand_pair(g, k, rng.choice([k, 'num']), n1)
                    args.append(binop_expr(g, n1, p1, ['leaf', x1], ['leaf', y1]))
            mode = 'bi' if (k == 'seqC' or name in NO_METHOD) else rng.choice(['bi', 'meth'])   # ChannelList overrides the methods
            finish(g, ['nar', name, mode, a, args], 'narop:' + k)

    # 5. operator patterns / operator streams EMBEDDED in enclosing patterns (Pseq / Pn, also nested
    #    twice): Punop.__embed__, Pattern.__embed__ (Pbinop), Pnarop.__embed__ and Stream.__embed__ are only
    #    reached this way.  Operands of every kind on every position: number, Pattern, Routine and
    #    already-made pattern stream (both yielding VARYING values), Function.
    exact1 = [x for x in all1 if x[0] not in INEXACT1]

    def opnd(g, kinds5):
        k5 = rng.choice(kinds5)
        if k5 == 'num':
            return ['leaf', g.num()]
        if k5 == 'fn':
            return ['leaf', g.fn()]
        lst = g.nums(lo=1, hi=5)
        return ['leaf', [k5, lst]]

    def enclose(g, c, has_stream):
        reps = 1 if has_stream else rng.choice([1, 1, 2])     # a Routine is spent after the first repetition
        r = rng.random()
        pad = lambda: ['leaf', g.num()]
        if r < 0.25:
            return ['pseq', [c], reps]
        if r < 0.45:
            return ['pseq', [pad(), c, pad()], reps]
        if r < 0.6:
            return ['pn', c, reps]
        if r < 0.8:
            return ['pseq', [['pseq', [c, pad()], 1]], reps]           # nested twice
        return ['pn', ['pseq', [pad(), ['pn', c, 1]], 1], reps]

    for _ in range(n_per * 40):
        g = Gen(rng)
        first = rng.choice(['pat', 'pat', 'str', 'pstr'])               # the composing operand: pattern or stream class
        others = ['num', 'pat', 'str', 'pstr', 'fn']
        ar5 = rng.choice([1, 2, 2, 3, 3, 3])
        a = ['leaf', [first, g.nums(lo=1, hi=5)]]
        if ar5 == 1:
            name, py = rng.choice(exact1)
            c = ['un', name, um(name, py), a]
        elif ar5 == 2:
            name, py = rng.choice(exact2)
            b = opnd(g, others)
            if rng.random() < 0.5 or b[1][0] in ('num', 'fn'):
                ea, eb = (a, b) if rng.random() < 0.6 else (b, a)
            else:
                ea, eb = a, b
            c = binop_expr(g, name, py, ea, eb)
        else:
            name = rng.choice(tn)
            args = [opnd(g, ['num', 'pat', 'str', 'pstr']) for _i in range(2)]   # a Function argument would reach the kernel unevaluated
            c = ['nar', name, 'bi' if name in NO_METHOD else rng.choice(['bi', 'meth']), a, args]
        has_stream = has_tag(c, 'str') or has_tag(c, 'pstr')
        finish(g, enclose(g, c, has_stream), 'embedded:%d:%s' % (ar5, first))

    # 6. composed functions (unary, binary, n-ary, nested, reflected) whose leaves are Functions with
    #    several NAMED parameters and defaults, CALLED WITH KEYWORD ARGUMENTS (also mixed positional +
    #    keyword, and keywords only some leaves declare): every operand position -- receiver, right
    #    operand, every extra n-ary operand, number-on-the-left -- must see the same (filtered) arguments
    BIG6 = {'mul', 'ring1', 'ring2', 'ring3', 'ring4', 'difsqr', 'sumsqr', 'sqrsum', 'sqrdif', 'cubed', 'squared'}
    un6 = [x for x in all1 if x[0] not in INEXACT1]
    bn6 = [x for x in exact2 if x[0] not in CMP5]

    def fexpr(g, depth, st):
        """a function-valued expression"""
        r = rng.random()
        if depth == 0 or r < 0.25:
            return ['leaf', g.fn()]

        def sub(allow_num=True):
            q = rng.random()
            if allow_num and q < 0.2:
                return ['leaf', g.num()]
            return fexpr(g, depth - 1, st)

        def pick(ops):
            ok = [x for x in ops if not (x[0] in BIG6 and st['big'])]
            name, py = rng.choice(ok)
            if name in BIG6:
                st['big'] = True
            return name, py
        if r < 0.4:
            name, py = pick(un6)
            return ['un', name, um(name, py), fexpr(g, depth - 1, st)]
        if r < 0.7:
            name, py = pick(bn6)
            a, b = fexpr(g, depth - 1, st), sub()
            if rng.random() < 0.35:
                a, b = b, a                                  # reflected: number (or function) on the left
            return binop_expr(g, name, py, a, b)
        name = rng.choice(tn)
        a = fexpr(g, depth - 1, st)
        args = [sub() for _i in range(2)]
        return ['nar', name, 'bi' if name in NO_METHOD else rng.choice(['bi', 'meth']), a, args]

    for _ in range(n_per * 45):
        g = Gen(rng, kwmode=True)
        e = fexpr(g, rng.choice([1, 2, 2, 3]), {'big': False})
        if e[0] == 'leaf':
            e = ['un', 'neg', 'op', e]
        if rng.random() < 0.15:                              # a comparison only outermost
            name = rng.choice(CMP5)
            e = binop_expr(g, name, True, e, ['leaf', g.fn()] if rng.random() < 0.6 else ['leaf', g.num()])
        finish(g, e, 'kwcall:%s:pos%d' % (e[0], len(g.pos)))

    # 7. forms and edge values (bug-class review)
    #  a. wrappers that supply a default second argument, and the dunder forms round() / math.trunc/floor/ceil
    for _ in range(n_per * 16):
        g = Gen(rng)
        k = rng.choice(ABS_KINDS)
        a = ['leaf', g.leaf(k)]
        if rng.random() < 0.3:
            n1, p1 = rng.choice([('add', True), ('sub', True), ('max', False)])
            x1, y1 = operand_pair(g, k, rng.choice([k, 'num']), n1)
            a = binop_expr(g, n1, p1, ['leaf', x1], ['leaf', y1])
        r = rng.random()
        if r < 0.45:
            name = rng.choice(sorted(DEFAULT2))
            mode = rng.choice(['meth', 'bi'] if name != 'max' else ['meth'])     # bi.max has no default
            if name in ('round', 'trunc') and rng.random() < 0.35:
                mode = 'dunder'
            e = ['bin1', name, mode, a]
        elif r < 0.6:
            e = ['bin', 'round', 'dunder', a, ['leaf', g.num([1, 2, Fraction(1, 2), 4])]]   # round(a, quant)
        elif r < 0.8:
            e = ['un', rng.choice(['floor', 'ceil']), 'dunder', a]
        else:
            e = ['nar', 'blend', rng.choice(['bi', 'meth']) if k != 'seqC' else 'bi', a,
                 [['leaf', g.leaf(k if k in ('fn', 'str', 'pat') else 'num')]]]        # frac defaults to 0.5
        finish(g, e, 'forms:' + e[0] + ':' + k)
    #  b. more non-commutative operators on every dispatch branch: ** << >> (and & |), plain / reflected / method
    for _ in range(n_per * 14):
        name = rng.choice(['pow', 'pow', 'lshift', 'rshift', 'and_', 'or_'])
        NUMMODE['mode'] = 'int' if name in INTONLY else None
        try:
            g = Gen(rng)
            g.x = rng.randint(-6, 6)          # an int argument: a constant function `c + 0*x` keeps the type of c
            g.pos = [g.x]
            k = rng.choice(ABS_KINDS)
            r = rng.random()
            ka, kb = (k, rng.choice([k, 'num'])) if r < 0.55 else ('num', k)
            if name in INTONLY and 'fn' in (ka, kb):
                ka, kb = ('pat', kb) if ka == 'fn' else (ka, 'pat')     # k*x+c with a float coefficient is not an int
            a = g.leaf(ka)
            b = g.leaf(kb, pool_for(name))
            if has_tag(a, 'seq') and kb == 'str':
                b = ['pat', b[1] or [nd(1)]]
            if has_tag(b, 'seq') and ka == 'str':
                a = ['pat', a[1] or [nd(1)]]
            mode = 'op' if (ka == 'num' or rng.random() < 0.6 or name in ('and_', 'or_')) else 'meth'
            e = ['bin', {'and_': 'and_', 'or_': 'or_'}.get(name, name) if mode == 'op' else
                 {'pow': 'pow', 'lshift': 'lshift', 'rshift': 'rshift'}[name], mode, ['leaf', a], ['leaf', b]]
            finish(g, e, 'ncops:%s:%s,%s' % (name, ka, kb))
        finally:
            NUMMODE['mode'] = None
    #  c. falsy values everywhere: 0, 0.0, False (and True) as plain operands, function results, stream /
    #     pattern items, list items, Operand(0), Rest(0); only Python's own operators (a bool takes the
    #     kernels' float branch)
    falsy_ops = ['add', 'sub', 'mul', 'floordiv', 'lt', 'le', 'gt', 'ge', 'eq', 'ne']
    NUMMODE['mode'] = 'falsy'
    try:
        for _ in range(n_per * 16):
            g = Gen(rng)
            g.x = rng.choice([0, 0, Fraction(0), 1])
            g.pos = [g.x]
            name = rng.choice(falsy_ops)
            ka = rng.choice(ABS_KINDS)
            kb = rng.choice([ka, 'num', 'num'])
            if rng.random() < 0.35:
                ka, kb = 'num', ka
            if not ok_pair(ka, kb, name):
                continue
            a, b = operand_pair(g, ka, kb, name)
            for f in g.fns:                                  # function results 0 / 0.0 / False
                if rng.random() < 0.6:
                    f['coef'] = [0]
            e = binop_expr(g, name, True, ['leaf', a], ['leaf', b])
            if rng.random() < 0.25 and name not in CMP5:
                e = ['un', rng.choice(['neg', 'abs']), 'op', e]
            finish(g, e, 'falsy:' + ka + ',' + kb)
    finally:
        NUMMODE['mode'] = None

    # 8. ChannelList METHOD forms clip / fold / wrap / blend (ChannelList overrides them: flop over the channels AND
    #    every argument, so the result has as many channels as the longest of them), number channels,
    #    arguments numbers or lists of numbers of every length 0..4, defaulted arguments
    for name in tn:
        for _ in range(n_per * 5):
            g = Gen(rng)
            recv = ['leaf', g.seq('C', 1)]
            if rng.random() < 0.2 and recv[1][2]:
                recv = binop_expr(g, 'add', True, recv, ['leaf', g.num()])
            nargs = rng.choice([2, 2, 2, 1, 0]) if name != 'blend' else rng.choice([2, 2, 1])
            args = []
            for _i in range(nargs):
                r = rng.random()
                if r < 0.35:
                    args.append(['leaf', g.num()])
                elif r < 0.95:
                    args.append(['leaf', g.seq(rng.choice('LLC'), 1)])
                else:
                    args.append(['leaf', g.seq('T', 1)])         # a tuple is ONE item for flop: reaches the kernel whole
            finish(g, ['nar', name, 'meth', recv, args], 'chanmethod:%s:%d' % (name, nargs))

    # 9. inval threading: operands whose value depends on the input passed to next() (Pfunc), composites
    #    streamed directly and EMBEDDED, observed with a different input for every next()
    for _ in range(n_per * 30):
        g = Gen(rng)
        g.ifns = []
        g.ins = [rnd_num(rng) for _ in range(rng.randint(3, 7))]

        def pf():
            g.ifns.append((rnd_num(rng), rng.choice([1, 1, 2, -1, Fraction(1, 2)])))
            return ['leaf', ['pfunc', len(g.ifns) - 1]]

        def other():
            k9 = rng.choice(['num', 'pat', 'str', 'pstr', 'pfunc', 'pfunc'])
            if k9 == 'pfunc':
                return pf()
            if k9 == 'num':
                return ['leaf', g.num()]
            return ['leaf', [k9, g.nums(lo=2, hi=8)]]
        ar9 = rng.choice([1, 2, 2, 3])
        first = pf() if rng.random() < 0.7 else ['leaf', [rng.choice(['pat', 'str']), g.nums(lo=2, hi=8)]]
        if ar9 == 1:
            first = pf()
            name, py = rng.choice(exact1)
            c = ['un', name, um(name, py), first]
        elif ar9 == 2:
            name, py = rng.choice([x for x in exact2 if x[0] not in BIG6])
            b = other()
            if first[1][0] != 'pfunc' and b[1][0] != 'pfunc':
                b = pf()
            ea, eb = (first, b) if (rng.random() < 0.6 or b[1][0] == 'num') else (b, first)
            c = binop_expr(g, name, py, ea, eb)
        else:
            name = rng.choice(tn)
            args = [other(), other()]
            if first[1][0] != 'pfunc' and not any(a[1][0] == 'pfunc' for a in args):
                args[0] = pf()
            c = ['nar', name, 'bi' if name in NO_METHOD else rng.choice(['bi', 'meth']), first, args]
        if rng.random() < 0.65:
            c = enclose(g, c, True)
        cases.append({'k': 'expr', 'pos': [nd(g.x)], 'kw': [], 'fns': [], 'ifns': [[nd(cc), nd(k)] for cc, k in g.ifns],
                      'ins': [nd(v) for v in g.ins], 'e': c, 'shape': 'inval:%d' % ar9, 'twice': False})

    # 10. n-ary operators with an OPTIONAL mode argument (linlin(x, inmin, inmax, outmin, outmax, clip='minmax'),
    #     kernel regenerated per mode in gen/Gen_maps.v): every receiver kind, method and builtin-function form,
    #     ChannelList METHOD form (through the per-number adapter UGenScalar.linlin), clip omitted / positional /
    #     keyword at EVERY value, receivers below, inside and above [inmin, inmax]
    for _ in range(n_per * 22):
        g = Gen(rng)
        k = rng.choice(['fn', 'str', 'pat', 'seqC', 'seqC', 'operand'])
        recv = ['leaf', g.seq('C', 1)] if k == 'seqC' else ['leaf', g.operand_num() if k == 'operand' else g.leaf(k)]
        inmin = rnd_num(rng)
        width = rng.choice([1, 2, 4, 8, Fraction(1, 2), -2, -1])           # exact true division
        span = [inmin, inmin + width]
        outs = [rnd_num(rng), rnd_num(rng)]
        args = [['leaf', g.num([v])] for v in span + outs]
        mode = rng.choice(['bi', 'meth'])
        if k == 'seqC' and mode == 'meth' and rng.random() < 0.5:
            args[rng.choice([2, 3])] = ['leaf', g.seq(rng.choice('LC'), 1, minlen=1)]    # flop over an out bound
        elif k in ('fn', 'str', 'pat') and rng.random() < 0.3:
            args[rng.choice([2, 3])] = ['leaf', g.leaf(k)]
        cval = rng.choice(['minmax', 'min', 'max', None])
        how = rng.choice(['pos', 'pos', 'kw'] if mode == 'meth' else ['pos'])   # the builtin wrappers take no keywords
        clip = ['omit', 'minmax'] if rng.random() < 0.15 else [how, cval]
        cases.append(dict(finish_dict(g, ['nar', 'linlin', mode, recv, args, clip], 'optarg:%s:%s' % (k, mode)), maps=True))

    # operand ALIASING, in every family: with some probability the right operand of a binary node / an extra
    # argument of an n-ary node is replaced by a copy of the (stateless, lifted) left operand / receiver; the impl
    # runner builds identical stateless sub-expressions ONCE, so the very same Pattern / Function / ChannelList /
    # Operand / composite object sits in both positions, directly and inside Pseq / Pn.  The model has no object
    # identity: each occurrence is an independent stream of the same blueprint, which is what must happen.
    import copy

    def stateless(e):
        return not (has_tag(e, 'str') or has_tag(e, 'pstr'))

    def alias(e, st):
        if not isinstance(e, list) or not e:
            return e
        t = e[0]
        if t == 'bin' and e[1] not in SAFE and top_kind(e[3]) not in ('num', 'seqL', 'seqT') and stateless(e[3]) \
                and rng.random() < 0.3:
            st['n'] += 1
            return ['bin', e[1], e[2], alias(e[3], st), copy.deepcopy(e[3])]
        if t == 'nar' and e[1] != 'linlin' and e[4] and top_kind(e[3]) not in ('num', 'seqL', 'seqT', 'seqC', 'operand') \
                and stateless(e[3]) and rng.random() < 0.3:
            st['n'] += 1
            args = [copy.deepcopy(e[3]) if rng.random() < 0.6 else a for a in e[4]]
            return e[:3] + [e[3], args] + e[5:]
        if t in ('un', 'bin1'):
            return e[:3] + [alias(e[3], st)]
        if t == 'bin':
            return e[:3] + [alias(e[3], st), alias(e[4], st)]
        if t == 'nar':
            return e[:3] + [alias(e[3], st), [alias(a, st) for a in e[4]]] + e[5:]
        if t == 'pseq':
            return ['pseq', [alias(i, st) for i in e[1]], e[2]]
        if t == 'pn':
            return ['pn', alias(e[1], st), e[2]]
        return e
    for c in cases:
        if rng.random() < 0.35:
            st = {'n': 0}
            c['e'] = alias(c['e'], st)
            if st['n']:
                c['shape'] = c['shape'] + '+alias'
    return cases


def gen_util_cases(ctx, n):
    rng = ctx.rng
    ar = arities()
    g = Gen(rng)
    bn = ['add', 'sub', 'mul', 'lt'] + sorted(k for k, a in ar.items() if a == 2)
    un = ['neg', 'abs'] + sorted(k for k, a in ar.items() if a == 1 and k not in INEXACT1)
    tn = sorted(k for k, a in ar.items() if a == 3)
    T = ['L', 'T', 'C', None]
    kinds = 'LLTC'
    cases = []
    for _ in range(n):
        r = rng.random()
        if r < 0.15:
            cases.append({'k': 'util', 'fn': 'wrap_extend', 'lst': g.nums(0, 5), 'n': rng.randint(0, 13)})
        elif r < 0.3:
            cols = [g.seq(rng.choice(kinds), 1) if rng.random() < 0.75 else g.num() for _ in range(rng.randint(0, 4))]
            cases.append({'k': 'util', 'fn': 'flop', 'lst': cols})
        elif r < 0.45:
            a = g.seq(rng.choice(kinds)) if rng.random() < 0.9 else g.num()
            cases.append({'k': 'util', 'fn': 'list_unop', 'op': rng.choice(un), 'a': a, 't': rng.choice(T)})
        elif r < 0.6:
            a = g.seq(rng.choice(kinds)) if rng.random() < 0.9 else g.num()
            cases.append({'k': 'util', 'fn': 'list_narop', 'op': rng.choice(tn), 'a': a,
                          'args': [g.num(), g.num()], 't': rng.choice(T)})
        else:
            a = g.seq(rng.choice(kinds)) if rng.random() < 0.85 else g.num()
            b = g.seq(rng.choice(kinds)) if rng.random() < 0.85 else g.num()
            cases.append({'k': 'util', 'fn': 'list_binop', 'op': rng.choice(bn), 'a': a, 'b': b, 't': rng.choice(T)})
    return cases


def coq_util(c):
    K = {'L': 'KList', 'T': 'KTuple', 'C': 'KChan', None: 'KList'}
    fn = c['fn']
    if fn == 'wrap_extend':
        return '(L KList (wrap_extend [%s] %d))' % ('; '.join('N ' + cnum(i) for i in c['lst']), c['n'])
    if fn == 'flop':
        return '(L KList (map (L KList) (flop [%s])))' % '; '.join(coq_v(i) for i in c['lst'])
    if fn == 'list_unop':
        return '(list_unop %s %s %s)' % (coq_op(c['op'], 1), coq_v(c['a']), K[c['t']])
    if fn == 'list_binop':
        return '(list_binop %s %s %s %s)' % (coq_op(c['op'], 2), coq_v(c['a']), coq_v(c['b']), K[c['t']])
    if fn == 'list_narop':
        return '(list_narop %s %s [%s] %s)' % (coq_op(c['op'], 3), coq_v(c['a']),
                                              '; '.join(coq_v(i) for i in c['args']), K[c['t']])


# the F8 family, always present (a past disagreement; also in corpus/C15_lift.json)
def pinned_cases():
    def fn(i):
        return ['leaf', ['fn', i]]

    def n(v):
        return ['leaf', ['num'] + nd(v)]
    base = upgrade_case({'k': 'expr', 'x': nd(3), 'fns': [[nd(1), nd(1)], [nd(2), nd(0)]]})
    out = []
    # f.clip(g - 5, g + 5)(3) with f = x + 1, g = 2 x
    out.append(dict(base, e=['nar', 'clip', 'meth', fn(0), [['bin', 'sub', 'op', fn(1), n(5)], ['bin', 'add', 'op', fn(1), n(5)]]],
                    shape='pinned:F8'))
    out.append(dict(base, e=['nar', 'clip', 'meth', fn(0), [fn(1), n(10)]], shape='pinned:narop-fn-arg'))
    out.append(dict(base, e=['nar', 'wrap', 'bi', fn(0), [n(0), ['un', 'neg', 'op', ['un', 'neg', 'op', fn(1)]]]], shape='pinned:F8'))
    out.append(dict(base, e=['bin', 'sub', 'op', n(2), fn(0)], shape='pinned:reflected'))
    out.append(dict(base, e=['bin', 'mod', 'bi', n(7), fn(0)], shape='pinned:reflected'))
    out.append(dict(base, e=['bin', 'pymod', 'op', n(7), fn(0)], shape='pinned:reflected'))
    return out


# ---------------------------------------------------------------------------

def run_codes(ctx, name, items, body, shard, header=None):
    codes, errors = [], []
    for rc, out, base in ctx.coq_shards(name, header or HEADER, items, body, shard=shard, timeout=900):
        n_here = min(shard, len(items) - base)
        if rc != 0:
            errors.append(out[-2500:])
            codes.extend([3] * n_here)
            continue
        lst = fw.parse_nat_list(out)
        if lst is None or len(lst) != n_here:
            errors.append('unparsable coq output: ' + out[-1500:])
            codes.extend([3] * n_here)
            continue
        codes.extend(lst)
    return codes, errors


def model_value(ctx, c, fixed):
    """print the model's evaluation of one case (diagnosis only)"""
    if c.get('ins') is not None:
        txt = HEADER + ('Eval vm_compute in match observe (ienv_of [%s] [%s]) %d (build %s) with SFin l => '
                        'den_norm (DStr (map (eval_f (env_of %s %s) true FUEL) l)) | SConst _ => DErr EFuel end.\n') % (
            '; '.join('(%s, %s)' % (cnum(cc), cnum(k)) for cc, k in c['ifns']), '; '.join(cnum(v) for v in c['ins']),
            len(c['ins']), coq_expr(c['e'], True), coq_prims(c), coq_callargs(c))
    else:
        txt = HEADER + 'Eval vm_compute in den_norm (eval_f (env_of %s %s) %s FUEL (build %s)).\n' % (
            coq_prims(c), coq_callargs(c), 'true' if fixed else 'false', coq_expr(c['e'], fixed))
    if c.get('maps'):
        txt = txt.replace(HEADER, HEADER_MAPS)
    rc, out = ctx.coq('lift_diag', txt, timeout=120)
    return ' '.join(out.split())[-700:] if rc == 0 else 'coq error: ' + out[-300:]


def correspond_lift(ctx):
    c = Corr()
    cases = []
    corpus = os.path.join(fw.VERIF, 'corpus', 'C15_lift.json')
    if os.path.exists(corpus):
        cases += [upgrade_case(k) for k in json.load(open(corpus))]
    cases += pinned_cases()
    cases += gen_cases(ctx, ctx.n(14, 120))
    ucases = gen_util_cases(ctx, ctx.n(700, 6000))
    out = ctx.impl('c15_lift_run', {'cases': cases + ucases}, timeout=900)['out']
    eout, uout = out[:len(cases)], out[len(cases):]

    plain = [i for i, k in enumerate(cases) if k.get('ins') is None and not k.get('maps')]
    mapsi = [i for i, k in enumerate(cases) if k.get('maps')]
    withins = [i for i, k in enumerate(cases) if k.get('ins') is not None]
    items = ['(%s, %s, %s, %s, %s)' % (coq_prims(cases[i]), coq_callargs(cases[i]), coq_expr(cases[i]['e'], False),
                                       coq_expr(cases[i]['e'], True), coq_den(eout[i])) for i in plain]
    pcodes, errs = run_codes(ctx, 'lift', items, 'Eval vm_compute in map code cases.', shard=150)
    iitems = ['(%s, %s, ([%s] : list (num * num)), ([%s] : list num), %s, %s)' % (
        coq_prims(cases[i]), coq_callargs(cases[i]),
        '; '.join('(%s, %s)' % (cnum(cc), cnum(k)) for cc, k in cases[i]['ifns']),
        '; '.join(cnum(v) for v in cases[i]['ins']), coq_expr(cases[i]['e'], True), coq_den(eout[i])) for i in withins]
    icodes, ierrs = run_codes(ctx, 'linval', iitems, 'Eval vm_compute in map icode cases.', shard=150)
    mitems = ['(%s, %s, %s, %s, %s)' % (coq_prims(cases[i]), coq_callargs(cases[i]), coq_expr(cases[i]['e'], False),
                                        coq_expr(cases[i]['e'], True), coq_den(eout[i])) for i in mapsi]
    mcodes, merrs = run_codes(ctx, 'lmaps', mitems, 'Eval vm_compute in map code cases.', shard=150, header=HEADER_MAPS)
    errs = errs + ierrs + merrs
    codes = [None] * len(cases)
    for i, cd in zip(mapsi, mcodes):
        codes[i] = cd
    for i, cd in zip(plain, pcodes):
        codes[i] = cd
    for i, cd in zip(withins, icodes):
        codes[i] = cd
    uitems = ['(%s, %s)' % (coq_util(k), coq_den(o)) for k, o in zip(ucases, uout)]
    ucodes, uerrs = run_codes(ctx, 'lutil', uitems, 'Eval vm_compute in map ucode cases.', shard=300)

    c.evaluations = len(cases) + len(ucases)
    c.rule = ('(a) expressions over real sc3 objects (numbers, Function, Routine, Pseq, list/tuple/ChannelList of nesting <= 3 and '
              'lengths 0..4, Operand, Rest), every AbstractObject operator with a translated kernel plus + - * / // % neg abs and '
              'comparisons, as Python operator, method and builtin function, reflected forms included; the built object is called / '
              'exhausted / unwrapped recursively and compared exactly (type, value and shape) with eval (build e) of model/Lift.v; '
              '(b) utils.list_unop/list_binop/list_narop/wrap_extend/flop against model/ListAlg.v. '
              'non-trivial = the implementation returned a value (no exception) containing at least one number')
    for k, o in zip(cases, eout):
        c.count('shape:' + k['shape'].split(':')[0])
        if k['shape'].endswith('+alias'):
            c.count('aliased operands')
        c.count('result:' + ('exception:' + o[1] if o[0] == 'e' else 'value'))
        if o[0] != 'e' and has_tag(o, 'n'):
            c.nontriv(('e', k['e'], k['pos'], k['kw'], json.dumps(k['fns'])))
    for k, o in zip(ucases, uout):
        c.count('util:' + k['fn'])
        c.count('result:' + ('exception:' + o[1] if o[0] == 'e' else 'value'))
        if o[0] != 'e' and has_tag(o, 'n'):
            c.nontriv(('u', json.dumps(k, sort_keys=True)))
    c.samples = [{'expr': case_text(k), 'impl': o} for k, o in list(zip(cases, eout))[5:9]]
    for e in errs + uerrs:
        c.failures.append(Failure('correspondence', 'coq evaluation of lifting cases failed: ' + e))

    # pinned cases first, then smallest first: the shortest expression is the best replay
    order = sorted(range(len(cases)), key=lambda i: (not cases[i]['shape'].startswith('pinned'), len(json.dumps(cases[i]['e']))))
    why = {1: ('lift_narop_hom', SIG_F8, 'NaropFunction.__call__ evaluates only Function instances among its extra arguments, '
               'not composed functions'),
           4: ('lift_binop_hom', SIG_RAW, 'scbuiltin passes the UNDECORATED kernel as selector, so the builtin-function form does '
               'not dispatch again on the evaluated operands (the method / operator form does)'),
           5: ('lift_narop_hom', SIG_F8, 'NaropFunction evaluates only Function instances; scbuiltin passes the undecorated kernel')}
    shown = {1: 0, 2: 0, 4: 0, 5: 0}
    for i in order:
        k, o, cd = cases[i], eout[i], codes[i]
        if cd in why and shown[cd] < 2:
            shown[cd] += 1
            thm, sig, text = why[cd]
            c.failures.append(Failure(
                'correspondence',
                'lifting law violated on the implementation: %s  gives %s; applying the numeric operator to the evaluated '
                'operands gives %s (the result is what this model variant predicts, or an exception where that variant '
                'leaves the result unspecified: %s)' % (case_text(k), json.dumps(o), model_value(ctx, k, True), text),
                signature=sig, replay={'expression': case_text(k), 'case': k, 'impl': o, 'theorem': thm},
                found_input=True, theorem=thm))
        elif cd == 2 and shown[2] < 6:
            shown[2] += 1
            c.failures.append(Failure(
                'correspondence',
                'model/Lift.v and implementation disagree on %s: impl=%s model=%s' % (
                    case_text(k), json.dumps(o), model_value(ctx, k, True)),
                replay={'expression': case_text(k), 'case': k, 'impl': o}))
    for cd in (1, 4, 5):
        c.count('code%d(defect-shaped)' % cd, sum(1 for x in codes if x == cd))
    c.count('code2(mismatch)', sum(1 for x in codes if x == 2))
    # model-free law probes run in the correspondence stage too (state, aliasing, exception and
    # evaluation-order properties that the value model does not express)
    lf, nprobes = law_probes(ctx, ctx.n(100, 600), 'correspondence')
    c.failures.extend(lf)
    c.evaluations += nprobes
    c.count('law_probes', nprobes)
    nu = 0
    for k, o, cd in zip(ucases, uout, ucodes):
        if cd == 2 and nu < 5:
            nu += 1
            c.failures.append(Failure('correspondence', 'model/ListAlg.v and sc3.base.utils disagree on %s: impl=%s' % (
                json.dumps(k), json.dumps(o)), replay={'case': k, 'impl': o}))
    return c


def law_probes(ctx, n, kind):
    """Independent probes of the lifting laws on the implementation (no model involved): the composed
    object's evaluation against the numeric operator applied to the separately evaluated operands;
    falsy values, raising operands, aliasing, evaluation order, agreement of the four call forms."""
    res = ctx.impl('c15_lift_laws', {'seed': ctx.rng.randint(0, 1 << 30), 'n': n}, timeout=600)
    found = []
    seen = set()
    for b in res['bad']:
        if b['law'] in seen:
            continue
        seen.add(b['law'])
        found.append(Failure(kind, 'lifting law %s fails on the implementation: %s -> %s, expected %s' % (
            b['law'], b['expr'], b['got'], b['want']),
            signature={'narop_function_composed_args': SIG_F8, 'builtin_form_redispatches': SIG_RAW}.get(b['law'], 'C15:lift:' + b['law']),
            replay=b, found_input=True, theorem=b.get('theorem')))
    return found, res.get('probes', 0)


def search_lift(ctx, failures):
    return law_probes(ctx, ctx.n(300, 3000), 'search')[0]
