"""C17 -- client objects speak the server command protocol and keep ids consistent."""
import json, os, sys
from fractions import Fraction
import fw
from fw import Corr, Failure, cz, cbool, clist, copt, cstr, cnat

sys.path.insert(0, os.path.join(fw.VERIF, 'harness', 'impl'))
sys.path.insert(0, os.path.join(fw.VERIF, 'harness', 'oracles'))
import c17_gen
import scproto

TITLE = 'Client objects speak the server command protocol and keep ids consistent'
TRANSLATED = ['Gen_proto']
MODEL_TARGETS = ['model/ProtoGrammar.vo', 'model/Proto.vo']
ALLOWED_AXIOMS = []
TRUSTED = [
    'coq/model/ProtoGrammar.v: hand transcription of the SuperCollider Server Command Reference (argument signatures, '
    'repetition groups, optional completion message); stated leniencies: nil completion = int 0, nested array brackets, '
    'map-symbol strings as control values',
    'coq/model/Proto.v: hand-written model of node.py / buffer.py / bus.py / server.py / _graphparam.py / BundleNetAddr, tied '
    'to the code by differential op histories (every op of every history compared) and by the regenerated tables gen/Gen_proto.v',
    'capture point: the methods send_msg / send_bundle of the OSC interface object (what NetAddr hands over), each message encoded '
    'by the library encoder (OscInterface._build_msg) and read back by the small independent OSC reader of harness/impl/c17_hist.py',
    'allocators are abstract in the model (addresses recorded from the real run; the allocators themselves are C16)',
]
ASSUMES = [
    'histories stay below the UDP datagram limit (BundleNetAddr clumps larger bundles into several: not modelled)',
    'NRT mode: Server.sync() inside bind() does not split the bundle (RT sync splitting not modelled)',
    'one server, client id 0 (default group 1)',
    'arguments inside the documented domain: controls are names or indices followed by numbers, bus/buffer/node objects, map '
    'symbols or (nested) lists of those; a dict is accepted as the args of a Synth constructor; misuse (odd argument lists, dict '
    'passed to set/setn, use after free) is modelled and compared but not required to conform',
]

SIG_F14 = 'C17:free_all-skips-last-buffer-of-each-block'
SIG_F15 = 'C17:second-Buffer.free-sends-b_free-None'
SIG_CUE = 'C17:Buffer.cue-argument-order'
SIG_DICT = 'C17:dict-argument-embedded-with-array-brackets'

SD_NBYTES = [0]      # size of the fixed SynthDef's bytes, reported by the runner (opaque blob in the model)
CONV_ACTION = {'after': 'addAfter', 'before': 'addBefore', 'head': 'addToHead', 'tail': 'addToTail', 'replace': 'addReplace'}

HEADER = ('From Coq Require Import ZArith QArith List String Bool. Import ListNotations.\n'
          'Require Import SC3.lib.PyNum SC3.model.ProtoGrammar SC3.model.Proto SC3.proofs.C17_conform SC3.proofs.C17_run.\n'
          'Open Scope string_scope. Open Scope Z_scope.\n')


# ---------------------------------------------------------------------------
# printers

def cqq(s):
    fr = Fraction(s)
    n = '(%d)' % fr.numerator if fr.numerator < 0 else '%d' % fr.numerator
    return '(%s # %d)' % (n, fr.denominator)


def pval(v):
    k = v['v']
    if k == 'i':
        return '(PInt %s)' % cz(v['x'])
    if k == 'f':
        return '(PFlt %s)' % cqq(v['x'])
    if k == 'b':
        return '(PBool %s)' % cbool(v['x'])
    if k == 's':
        return '(PStr %s)' % cstr(v['x'])
    if k == 'none':
        return 'PNone'
    if k == 'l':
        return '(PList %s)' % clist(v['x'], pval)
    if k == 't':
        return '(PTuple %s)' % clist(v['x'], pval)
    if k == 'd':
        return '(PDict %s)' % clist(['(%s, %s)' % (pval(a), pval(b)) for a, b in v['x']])
    if k in ('bus', 'buf', 'node', 'map'):
        return '(%s %s)' % ({'bus': 'PBus', 'buf': 'PBuf', 'node': 'PNode', 'map': 'PMap'}[k], cnat(v['i']))
    raise ValueError(k)


def pvals(l):
    return clist(l, pval)


def ctarget(t):
    k = t['t']
    if k == 'none':
        return 'TgNone'
    if k == 'server':
        return 'TgServer'
    if k == 'root':
        return 'TgRoot'
    if k == 'node':
        return '(TgNode %s)' % cnat(t['i'])
    return '(TgInt %s)' % cz(t['x'])


def caction(a):
    return '(ActS %s)' % cstr(a) if isinstance(a, str) else '(ActI %s)' % cz(a)


def struct_f32(v):
    import struct
    return struct.unpack('>f', struct.pack('>f', v))[0]


def ccompl(c):
    if c is None:
        return 'CNone'
    return '(%s %s %s)' % ('CMsg' if c['k'] == 'msg' else 'CFn', cstr(c['addr']), pvals(c['args']))


def oz(x):
    return copt(x, cz)


def ozl(x):
    return copt(x, lambda l: clist(l, cz))


def alloc_of(step, kind):
    for a in step['alloc']:
        if a[0] == kind:
            return a[1]
    return None


def pv_or_none(x):
    return 'PNone' if x is None else '(PInt %s)' % cz(x)


def coq_op(op, step):
    """JSON op + what the allocators returned in the real run -> Coq op term"""
    o = op['op']
    if o == 'synth':
        c = op.get('ctor', 'init')
        nid = alloc_of(step, 'node') or 0
        args = 'PNone' if op['args'] is None else pval(op['args'])
        act = op['action']
        if c in ('after', 'before', 'head', 'tail'):
            act, ctor = CONV_ACTION[c], 'SInit'
        else:
            ctor = {'init': 'SInit', 'new_paused': 'SPaused', 'grain': 'SGrain'}.get(c) or '(SReplace %s)' % cbool(op['same_id'])
        return 'OSynth %s %s %s %s %s %s' % (ctor, cz(nid), cstr(op['def']), args, ctarget(op['target']), caction(act))
    if o == 'group':
        c = op.get('ctor', 'init')
        act = CONV_ACTION[c] if c != 'init' else op['action']
        return 'OGroup %s %s %s %s' % (cbool(op['par']), cz(alloc_of(step, 'node') or 0), ctarget(op['target']), caction(act))
    if o == 'play':
        info = step.get('info') or {}
        tg = op['target'] if op['kind'] == 'func' else {'t': 'server'}
        return 'OPlay %s %s %s %s %s %s %s' % (cz(alloc_of(step, 'node') or 0), cstr(info.get('defname', '')), cz(info.get('defbytes', 0)),
                                               pval(op['outbus']), pval(op['args']), ctarget(tg), caction(op['action']))
    if o == 'basic_new':
        return 'OBasicNew %s' % cz(op['id'])
    if o == 'n_set':
        return 'ONodeSet %s %s' % (cnat(op['n']), pvals(op['args']))
    if o == 'n_setn':
        return 'ONodeSetn %s %s' % (cnat(op['n']), pvals(op['args']))
    if o in ('n_map', 'n_mapa'):
        return 'ONodeMap %s %s %s' % (cbool(o == 'n_mapa'), cnat(op['n']), pvals(op['args']))
    if o in ('n_mapn', 'n_mapan'):
        return 'ONodeMapn %s %s %s' % (cbool(o == 'n_mapan'), cnat(op['n']), pvals(op['args']))
    if o == 'n_fill':
        return 'ONodeFill %s %s' % (cnat(op['n']), pvals(op['args']))
    if o == 'n_release':
        return 'ONodeRelease %s %s' % (cnat(op['n']), 'PNone' if op['time'] is None else pval(op['time']))
    if o == 'n_run':
        return 'ONodeRun %s %s' % (cnat(op['n']), pval(op['flag']))
    if o == 'n_free':
        return 'ONodeFree %s %s' % (cnat(op['n']), cbool(op.get('send', True)))
    if o == 'n_trace':
        return 'ONodeTrace %s' % cnat(op['n'])
    if o == 'n_query':
        return 'ONodeQuery %s' % cnat(op['n'])
    if o == 'n_move_before':
        return 'ONodeMoveBefore %s %s' % (cnat(op['n']), cnat(op['t']))
    if o == 'n_move_after':
        return 'ONodeMoveAfter %s %s' % (cnat(op['n']), cnat(op['t']))
    if o == 'n_move_to_head':
        return 'ONodeMoveToHead %s %s' % (cnat(op['n']), copt(op['t'], cnat))
    if o == 'n_move_to_tail':
        return 'ONodeMoveToTail %s %s' % (cnat(op['n']), copt(op['t'], cnat))
    if o == 'g_free_all':
        return 'OGroupFreeAll %s' % cnat(op['n'])
    if o == 'g_deep_free':
        return 'OGroupDeepFree %s' % cnat(op['n'])
    if o == 'g_dump_tree':
        return 'OGroupDumpTree %s %s' % (cnat(op['n']), cbool(op['controls']))
    if o == 's_reorder':
        return 'OReorder %s %s %s' % (clist(op['nodes'], cnat), ctarget(op['target']), caction(op['action']))
    if o == 's_free_default_group':
        return 'OFreeDefaultGroup %s' % cbool(op['all'])
    if o == 's_send_default_groups':
        return 'OSendDefaultGroups'
    if o == 's_dump_osc':
        return 'ODumpOsc %s' % cz(op['code'])
    if o == 'sd_send':
        return 'ODefSend %s %s' % (cz(SD_NBYTES[0]), ccompl(op['compl']))
    if o == 'sd_load':
        return 'ODefLoad "/d_load" %s %s' % (cstr('/tmp/defs/%s.scsyndef' % op['name']), ccompl(op['compl']))
    if o == 'sd_load_dir':
        return 'ODefLoad "/d_loadDir" "/tmp/defs" %s' % ccompl(op['compl'])
    # buffers
    if o == 'b_new':
        return 'OBufNew %s %s %s %s %s %s' % (oz(alloc_of(step, 'buf')), pv_or_none(op['frames']), pv_or_none(op['channels']),
                                             oz(op.get('bufnum')), ccompl(op['compl']), cbool(op.get('alloc', True)))
    if o == 'b_consecutive':
        return 'OBufConsecutive %s %s %s %s %s %s' % (oz(alloc_of(step, 'buf')), cnat(op['n']), pv_or_none(op['frames']),
                                                     pv_or_none(op['channels']), oz(op.get('bufnum')), ccompl(op['compl']))
    if o in ('b_new_read', 'b_new_read_channel'):
        return 'OBufNewRead %s %s %s %s %s %s' % (oz(alloc_of(step, 'buf')), cstr(op['path']), cz(op['start']), cz(op['frames']),
                                                 ozl(op.get('chans')), oz(op.get('bufnum')))
    if o == 'b_new_cue':
        return 'OBufNewCue %s %s %s %s %s %s %s' % (oz(alloc_of(step, 'buf')), cstr(op['path']), cz(op['start']), cz(op['size']),
                                                   pv_or_none(op['channels']), oz(op.get('bufnum')), ccompl(op['compl']))
    if o == 'b_alloc':
        return 'OBufAlloc %s %s' % (cnat(op['b']), ccompl(op['compl']))
    if o in ('b_alloc_read', 'b_alloc_read_channel'):
        return 'OBufAllocRead %s %s %s %s %s %s' % (cnat(op['b']), cstr(op['path']), cz(op['start']), cz(op['frames']),
                                                   ozl(op.get('chans')), ccompl(op['compl']))
    if o in ('b_read', 'b_read_channel'):
        return 'OBufRead %s %s %s %s %s %s %s' % (cnat(op['b']), cstr(op['path']), cz(op['fstart']), cz(op['frames']),
                                                 cz(op['bstart']), cbool(op['leave_open']), ozl(op.get('chans')))
    if o == 'b_cue':
        return 'OBufCue %s %s %s %s' % (cnat(op['b']), cstr(op['path']), cz(op['start']), ccompl(op['compl']))
    if o == 'b_write':
        return 'OBufWrite %s %s %s %s %s %s %s %s' % (cnat(op['b']), cstr(op['path']), cstr(op['header']), cstr(op['sample']),
                                                     cz(op['frames']), cz(op['start']), cbool(op['leave_open']), ccompl(op['compl']))
    if o in ('b_zero', 'b_close'):
        return 'OBufSimple %s %s %s' % (cstr('/' + o), cnat(op['b']), ccompl(op['compl']))
    if o == 'b_free':
        return 'OBufFree %s %s' % (cnat(op['b']), ccompl(op['compl']))
    if o == 'b_free_all':
        return 'OBufFreeAll'
    if o == 'b_fill':
        return 'OBufFill %s %s %s %s' % (cnat(op['b']), pval(op['start']), pval(op['frames']), pvals(op['values']))
    if o == 'b_set':
        return 'OBufSet %s %s' % (cnat(op['b']), pvals(op['args']))
    if o == 'b_setn':
        return 'OBufSetn %s %s' % (cnat(op['b']), pvals(op['args']))
    if o in ('b_query', 'b_update_info'):
        return 'OBufQuery %s %s' % (cnat(op['b']), cbool(o == 'b_query'))
    if o == 'b_get':
        return 'OBufGet %s %s' % (cnat(op['b']), cz(op['index']))
    if o == 'b_getn':
        return 'OBufGetn %s %s %s' % (cnat(op['b']), cz(op['index']), cz(op['count']))
    if o in ('b_gen', 'b_sine1', 'b_cheby', 'b_sine2', 'b_sine3'):
        if o == 'b_gen':
            cmd, args = op['cmd'], op['args']
        elif o in ('b_sine1', 'b_cheby'):
            cmd, args = o[2:], op['amps']
        elif o == 'b_sine2':       # utl.lace on equal-length lists = interleaving (the harness only generates those)
            cmd, args = 'sine2', [x for p in zip(op['freqs'], op['amps']) for x in p]
        else:
            cmd, args = 'sine3', [x for p in zip(op['freqs'], op['amps'], op['phases']) for x in p]
        return 'OBufGen %s %s %s %s %s %s' % (cnat(op['b']), cstr(cmd), pvals(args), cbool(op['normalize']),
                                             cbool(op['wavetable']), cbool(op['clear']))
    if o == 'b_normalize':
        return 'OBufNormalize %s %s %s' % (cnat(op['b']), pval(op['max']), cbool(op['wavetable']))
    if o == 'b_send_list':
        return 'OBufSendList %s %s %s' % (cnat(op['b']), pvals(op['values']), cz(op['start']))
    if o == 'b_new_send_list':
        return 'OBufNewSendList %s %s %s' % (oz(alloc_of(step, 'buf')), pvals(op['values']), cz(op['channels']))
    if o == 'b_get_to_list':
        return 'OBufGetToList %s %s %s' % (cnat(op['b']), cz(op['index']), oz(op['count']))
    if o == 'b_copy_data':
        return 'OBufCopyData %s %s %s %s %s' % (cnat(op['b']), cnat(op['dst']), cz(op['dst_start']), cz(op['start']), cz(op['n']))
    # buses
    if o == 'bus_new':
        return 'OBusNew %s %s %s %s' % (cbool(op['audio']), oz(alloc_of(step, 'abus' if op['audio'] else 'cbus')),
                                       cz(op['channels']), oz(op.get('index')))
    if o == 'bus_sub':
        return 'OBusSub %s %s %s' % (cnat(op['u']), cz(op['offset']), cz(op['channels']))
    if o == 'bus_free':
        return 'OBusFree %s' % cnat(op['u'])
    if o in ('bus_set', 'bus_set_at'):
        return 'OBusSet %s %s %s' % (cnat(op['u']), cz(op.get('offset', 0)), pvals(op['values']))
    if o in ('bus_setn', 'bus_setn_at'):
        return 'OBusSetn %s %s %s' % (cnat(op['u']), cz(op.get('offset', 0)), pvals(op['values']))
    if o == 'bus_set_pairs':
        return 'OBusSetPairs %s %s' % (cnat(op['u']), pvals(op['pairs']))
    if o == 'bus_fill':
        return 'OBusFill %s %s (PInt %s)' % (cnat(op['u']), pval(op['value']), cz(op['channels']))
    if o == 'bus_clear':
        return 'OBusClear %s' % cnat(op['u'])
    if o == 'bus_get':
        return 'OBusGet %s' % cnat(op['u'])
    if o == 'bus_getn':
        return 'OBusGetn %s %s' % (cnat(op['u']), oz(op['count']))
    if o == 'raw_msg':
        return 'ORaw %s' % clist(['(PStr %s)' % cstr(op['addr'])] + [pval(a) for a in op['args']])
    if o == 'bind_enter':
        return 'OBindEnter'
    if o == 'bind_exit':
        return 'OBindExit'
    if o == 'bind_raise':
        return 'OBindRaise %s' % cnat(op['k'])
    if o == 'sync':
        uid = 0
        for ev in step['ev']:
            for m in event_msgs(ev):
                if m[0] == '/sync' and m[1] and m[1][0][0] == 'i':
                    uid = m[1][0][1]
        return 'OSync %s' % cz(uid)
    raise ValueError(o)


def carg(a):
    k = a[0]
    if k == 'i':
        return '(AInt %s)' % cz(a[1])
    if k == 'f':
        return '(AFlt %s)' % cqq(a[1])
    if k == 's':
        return '(AStr %s)' % cstr(a[1])
    if k == 'b':
        if a[1][0] == '#':
            return '(ABytes %s)' % cz(a[1][1])
        return '(AMsg %s %s)' % (cstr(a[1][0]), clist(a[1][1], carg))
    if k == '[':
        return 'AOpen'
    if k == ']':
        return 'AClose'
    return '(AOther %s)' % cstr(str(k))


def cmsg(m):
    return '(%s, %s)' % (cstr(m[0]), clist(m[1], carg))


def ctime(t):
    if t is None:
        return 'PNone'
    fr = Fraction(t)
    return '(PInt %s)' % cz(fr.numerator) if fr.denominator == 1 else '(PFlt %s)' % cqq(t)


def cev(ev, lat=None):
    if ev[0] == 'M':
        return '(WMsg %s)' % cmsg(ev[1])
    t = ev[1]
    if t is not None and lat is not None and Fraction(t) == Fraction(lat):
        t = '0'            # the model writes Server.latency as the constant [latency] = 0
    elif t is not None and lat is not None and Fraction(t) == 0:
        t = '-7'           # a literal 0 where the server latency (non-zero in this history) belongs: keep it different
    return '(WBundle %s %s)' % (ctime(t), clist(ev[2], cmsg))


def err_code(exc):
    if exc is None:
        return 0
    if exc in ('BufferAlreadyFreed', 'BusAlreadyFreed'):
        return 1
    if exc == 'ValueError' or exc.startswith('flush:'):
        return 2
    return 3


def cblocks(l):
    return clist(['(%s, %s)' % (cz(a), cz(b)) for a, b in l])


def coq_case(h, out):
    ops = clist([('(%s)' % coq_op(op, st)) for op, st in zip(h['ops'], out['steps'])])
    f = out['final']
    lat = f.get('latency')
    def code(op, st):
        if op['op'] == 'sync' and st['exc'] in ('TypeError', 'ValueError'):
            return 2          # the collected part could not be sized / encoded: sync() raises like a failing flush
        return err_code(st['exc'])
    steps = clist(['(%s, %s)' % (clist([cev(e, lat) for e in st['ev']]), cz(code(op, st))) for op, st in zip(h['ops'], out['steps'])])
    fin = '(%s, %s, %s)' % (cblocks(f['buf_blocks']), cblocks(f['cbus_blocks']), cblocks(f['abus_blocks']))
    objs = '(%s, %s, %s)' % (clist(f['node_ids'], oz), clist(f['bufnums'], oz), clist(f['bus_index'], oz))
    init = '(%s, %s)' % (cz(f.get('default_group', 1)), clist(f.get('default_groups', [1]), cz))
    return '(%s, %s, %s, %s, %s, %s)' % (ops, steps, fin, objs, cbool(h['cls'] == 'valid'), init)


BODY_DEFS = '''
Definition case : Type := (list op * list (list wev * Z) * (list (Z*Z) * list (Z*Z) * list (Z*Z)) *
                          (list (option Z) * list (option Z) * list (option Z)) * bool * (Z * list Z))%type.
Definition init_of (c : case) : st := st_init (fst (snd c)) (snd (snd c)).
Definition blk_eqb (a b : list (Z * Z)) : bool :=
  (fix go (a b : list (Z * Z)) := match a, b with [] , [] => true | (x, y) :: t, (x', y') :: u => (x =? x') && (y =? y') && go t u | _, _ => false end) a b.
Definition oz_eqb (a b : option Z) : bool := match a, b with None, None => true | Some x, Some y => x =? y | _, _ => false end.
Definition ozs_eqb (a b : list (option Z)) : bool :=
  (fix go (a b : list (option Z)) := match a, b with [], [] => true | x :: t, y :: u => oz_eqb x y && go t u | _, _ => false end) a b.
Definition pv_opt (v : pval) : option Z := match v with PInt z => Some z | _ => None end.
Definition node_view (s : st) := map (fun n => match n with Some x => pv_opt (n_id x) | None => None end) (nodes s).
Definition buf_view (s : st) := map (fun n => match n with Some x => pv_opt (b_num x) | None => None end) (bufs s).
Definition bus_view (s : st) := map (fun n => match n with Some x => pv_opt (u_index x) | None => None end) (buses s).
Definition chain_b (l : list (Z * Z)) : bool :=
  (fix go (lo : Z) (l : list (Z * Z)) : bool :=
     match l with [] => true | (a, n) :: t => (lo <=? a) && (1 <=? n) && go (a + n) t end) (-1) l.
Fixpoint states (V : variant) (s : st) (ops : list op) : list st :=
  match ops with [] => [s] | o :: t => s :: states V (fst (fst (step V s o))) t end.
(* the hypothesis [chain] of the free_all theorem, on the observed run: the blocks the allocators handed out never overlap *)
Definition blocks_disjoint (V : variant) (c : case) : bool :=
  forallb (fun s => chain_b (bblocks s) && chain_b (cblocks s) && chain_b (ablocks s)) (states V (init_of c) (fst (fst (fst (fst (fst c)))))).
Definition agrees (V : variant) (c : case) : bool :=
  let '(ops, obs, fin, objs, valid, _) := c in
  let '(r, s) := run V (init_of c) ops in
  let '(fb, fc, fa) := fin in
  let '(on, ob, ou) := objs in
  steps_eqb r obs && blk_eqb (bblocks s) fb && blk_eqb (cblocks s) fc && blk_eqb (ablocks s) fa &&
  (* ids held by the client objects at the end (valid histories: a constructor that raises leaves no object) *)
  (negb valid || (ozs_eqb (node_view s) on && ozs_eqb (buf_view s) ob && ozs_eqb (bus_view s) ou)).
Definition observed_conform (c : case) : bool :=
  let '(_, obs, _, _, valid, _) := c in negb valid || forallb (fun o => all_conform (fst o)) obs.
Definition first_diff (V : variant) (c : case) : nat :=
  let '(ops, obs, fin, objs, _, _) := c in let '(r, s) := run V (init_of c) ops in
  (fix go (i : nat) (m : list (list wev * option err)) (p : list (list wev * Z)) : nat :=
    match m, p with (e, x) :: t, (e', cc) :: u => if wevs_eqb e e' && (err_code x =? cc) then go (S i) t u else i | _, _ => i end) O r obs.
'''


# ---------------------------------------------------------------------------
# Python-side monitors on the captured run (independent of the Coq model): used to explain a
# disagreement and by search()

def event_msgs(ev):
    return [ev[1]] if ev[0] == 'M' else list(ev[2])


def has_embedded_dict(ops):
    for o in ops:
        if o['op'] == 'n_set' and any(a['v'] == 'd' for a in o['args']):
            return True
        if o['op'] == 'synth' and o['args'] is not None and o['args']['v'] in ('l', 't') and any(a['v'] == 'd' for a in o['args']['x']):
            return True
    return False


def monitors(h, out, default_group=1):
    """-> list of (signature|None, text) property violations seen on the captured run of a *valid* history."""
    bad = []
    ops, steps = h['ops'], out['steps']
    # M1 grammar
    for i, (op, st) in enumerate(zip(ops, steps)):
        for ev in st['ev']:
            for m in event_msgs(ev):
                r = scproto.conforms(m)
                if r:
                    sig = None
                    if m[0] == '/b_read' and any(o['op'] == 'b_cue' for o in ops):
                        sig = SIG_CUE
                    if m[0] in ('/n_set', '/s_new') and has_embedded_dict(ops):
                        sig = SIG_DICT
                    bad.append((sig, 'op %d (%s): %s %s does not conform to the command reference: %s' % (i, op['op'], m[0], m[1], r)))
    # M2 id ledger / M3 create / M4 free
    node_known = {0, default_group, -1}
    buf_blocks = set()          # allocated (start, size)
    buf_objs = {}               # creation index -> bufnum or None
    user_bufs, user_buses = set(), set()
    bus_blocks = set()
    bus_ever = set()
    node_allocated = set()
    nbuf = 0
    nbus = 0
    node_ids = []               # creation index -> node id (None: constructor raised)
    buf_frames = {}             # creation index -> frames the Buffer object holds
    buf_ch = {}
    bus_chans = {}
    cache = set()               # expected keys of Buffer._server_caches[server]
    lat = out['final'].get('latency')
    default_group = out['final'].get('default_group', default_group)
    node_known.update(out['final'].get('default_groups', []))
    node_known.add(default_group)
    bus_objs, bus_audio = {}, {}
    depth = 0
    pending = []                # messages expected at the outermost flush, for M5
    for i, (op, st) in enumerate(zip(ops, steps)):
        o = op['op']
        for a in st['alloc']:
            # ids handed out by the allocators must not belong to a block that is still allocated (two live objects sharing an id)
            if a[0] == 'node':
                if a[1] in node_allocated:
                    bad.append((None, 'op %d (%s): the node id allocator handed out %s a second time' % (i, o, a[1])))
                node_allocated.add(a[1])
            elif a[1] is not None:
                cur = buf_blocks if a[0] == 'buf' else set((b[1], b[2]) for b in bus_blocks if b[0] == a[0])
                for b in sorted(cur):
                    if a[1] < b[0] + b[1] and b[0] < a[1] + a[2]:
                        bad.append((None, 'op %d (%s): the %s allocator handed out ids %d..%d while block (%d, %d) is still allocated: two live objects own the same id' % (
                            i, o, a[0], a[1], a[1] + a[2] - 1, b[0], b[1])))
            if a[0] == 'node':
                node_known.add(a[1])
            elif a[0] == 'buf' and a[1] is not None:
                buf_blocks.add((a[1], a[2]))
            elif a[0] in ('cbus', 'abus') and a[1] is not None:
                bus_blocks.add((a[0], a[1], a[2]))
                bus_ever.add((a[0], a[1], a[2]))       # like the theorem's ledger: ids the allocator has handed out (a sub-bus
                                                       # at offset 0 that is freed returns the parent's block; the parent stays usable)
        if o in ('synth', 'group', 's_reorder', 'play') and op.get('target', {}).get('t') == 'int':
            node_known.add(op['target']['x'])
        if op.get('compl') and op['compl']['k'] == 'msg':
            for a in op['compl']['args']:
                if a['v'] == 'i':
                    node_known.add(a['x']); user_bufs.add(a['x'])
        msgs = [m for ev in st['ev'] for m in event_msgs(ev)]
        live_before = set(b for b in buf_objs.values() if b is not None)
        bus_blocks_before = set(bus_blocks)
        if o in ('n_map', 'n_mapa', 'n_mapn', 'n_mapan'):
            user_buses.update(a['x'] for a in op['args'] if a['v'] == 'i')
        if o == 'bus_new' and op.get('index') is not None:
            user_buses.update(range(op['index'], op['index'] + op['channels']))
        blocks_before = set(buf_blocks)
        # what this op creates (buffers)
        if o == 'b_new_send_list':
            op = dict(op, frames=-(-len(op['values']) // op['channels']))
        if o in ('b_new', 'b_new_read', 'b_new_read_channel', 'b_new_cue', 'b_new_send_list') and st['exc'] is None:
            num = op.get('bufnum')
            if num is None:
                num = [a[1] for a in st['alloc'] if a[0] == 'buf'][0]
            buf_frames[nbuf] = op.get('frames') if o in ('b_new', 'b_new_send_list') else (op.get('size') if o == 'b_new_cue' else None)
            buf_ch[nbuf] = op.get('channels', 1)
            buf_objs[nbuf] = num; nbuf += 1
            if op.get('cache', True):
                cache.add(num)
            created = [num] if op.get('alloc', True) else []
        elif o in ('b_new',):
            buf_objs[nbuf] = None; nbuf += 1; created = []
        elif o == 'b_consecutive' and st['exc'] is None:
            base = op['bufnum'] if op.get('bufnum') is not None else [a[1] for a in st['alloc'] if a[0] == 'buf'][0]
            created = list(range(base, base + op['n']))
            for x in created:
                buf_frames[nbuf] = op.get('frames')
                buf_objs[nbuf] = x; nbuf += 1
                cache.add(x)
        else:
            created = []
        emitted_here = msgs if depth == 0 and o not in ('bind_exit',) else []
        if op.get('bufnum') is not None:
            user_bufs.update(range(op['bufnum'], op['bufnum'] + op.get('n', 1)))
        # argument ORDER (class 7): the fixed-position prefix the reference prescribes for this call
        if depth == 0 and st['exc'] is None and msgs and o not in ('bind_exit',):
            ids_ = {}
            if 'b' in op and o.startswith('b_'):
                ids_['buf'] = buf_objs.get(op['b']); ids_['frames'] = buf_frames.get(op['b'])
            if o == 'b_copy_data':
                ids_['dst'] = buf_objs.get(op['dst'])
            if o in ('b_new', 'b_new_read', 'b_new_read_channel', 'b_new_cue'):
                ids_['buf'] = op.get('bufnum') if op.get('bufnum') is not None else ([a[1] for a in st['alloc'] if a[0] == 'buf'] or [None])[0]
            if 'u' in op and o.startswith('bus_'):
                ids_['bus'] = bus_objs.get(op['u']); ids_['bus_channels'] = bus_chans.get(op['u'])
            if o.startswith('n_move'):
                ids_['node'] = node_ids[op['n']]
                if o in ('n_move_before', 'n_move_after'):
                    ids_['target'] = node_ids[op['t']]
                else:
                    ids_['group'] = default_group if op['t'] is None else node_ids[op['t']]
            if o == 's_reorder':
                t = op['target']
                ids_['target'] = {'none': default_group, 'server': default_group, 'root': 0}.get(t['t'])
                if t['t'] == 'int':
                    ids_['target'] = t['x']
                elif t['t'] == 'node':
                    ids_['target'] = node_ids[t['i']]
                ids_['nodes'] = [node_ids[k] for k in op['nodes']]
            try:
                exp = scproto.expected_prefix(op, ids_)
            except KeyError:
                exp = None
            if exp is not None and None not in exp[1]:
                m = msgs[0]
                got = scproto.plain_values(m, len(exp[1]))
                if m[0] != exp[0] or got != exp[1]:
                    bad.append((None, 'op %d (%s): the reference prescribes %s %s ..., sent %s %s' % (i, o, exp[0], exp[1], m[0], got)))
        # bundle times: a bind() block and release() use Server.latency, everything else is immediate
        if lat is not None and st['exc'] is None:
            for ev in st['ev']:
                if ev[0] != 'B':
                    continue
                want = lat if (o in ('bind_exit', 'n_release')) else None
                if o == 'sync':
                    want = None if [m[0] for m in ev[2]] == ['/sync'] else lat
                got_t = ev[1]
                if (want is None) != (got_t is None) or (want is not None and Fraction(want) != Fraction(got_t)):
                    bad.append((None, 'op %d (%s): bundle time %s, expected %s (Server.latency = %s)' % (i, o, got_t, want, lat)))
        # server.addr after a block was left (normally or by an exception)
        if o in ('bind_exit', 'bind_raise') and 'addr' in st:
            left = depth - (1 if o == 'bind_exit' else op['k'])
            want_addr = 'NetAddr' if left == 0 else 'BundleNetAddr'
            if st['addr'] != want_addr:
                bad.append((None, 'op %d (%s): server.addr is a %s after leaving the block (nesting depth now %d)' % (i, o, st['addr'], left)))
        # multi-packet operations: declared counts = carried values, the packets tile the list / the requested range
        if depth == 0 and st['exc'] is None and o in ('b_send_list', 'b_new_send_list'):
            want = [float(Fraction(v['x'])) for v in op['values']]
            pk = [m for m in msgs if m[0] == '/b_setn']
            pos0 = None
            carried = []
            for m in pk:
                a = m[1]
                cnt, body = a[2][1], a[3:]
                if cnt != len(body) or len(body) > 1626 or len(body) == 0:
                    bad.append((None, 'op %d (%s): /b_setn at %s announces %s values and carries %d' % (i, o, a[1][1], cnt, len(body))))
                if pos0 is None:
                    pos0 = a[1][1]
                elif a[1][1] != pos0 + len(carried):
                    bad.append((None, 'op %d (%s): /b_setn packets do not tile the list: packet at %s after %d values from %s' % (i, o, a[1][1], len(carried), pos0)))
                carried += [float(Fraction(x[1])) for x in body]
            if carried != want:
                bad.append((None, 'op %d (%s): the packets carry %d values, the list has %d (or different values)' % (i, o, len(carried), len(want))))
        if depth == 0 and st['exc'] is None and o == 'b_get_to_list':
            pk = [m for m in msgs if m[0] == '/b_getn']
            pos = op['index']
            for m in pk:
                a = m[1]
                if a[1][1] != pos or not (1 <= a[2][1] <= 1633):
                    bad.append((None, 'op %d: /b_getn requests %s values at %s, expected the next request at %s' % (i, a[2][1], a[1][1], pos)))
                pos += a[2][1]
            fr = buf_frames.get(op['b'])
            total = op['count'] if op['count'] is not None else (fr * buf_ch.get(op['b'], 1) if fr is not None else None)
            if total is not None and pos != op['index'] + max(total, 0):
                bad.append((None, 'op %d: /b_getn requests cover up to %s, requested range ends at %s' % (i, pos, op['index'] + total)))
        # node objects: own ids, numeric targets, no id burnt
        nallocs = [a[1] for a in st['alloc'] if a[0] == 'node']
        if st['exc'] is None:
            want_allocs = 0
            if o == 'synth' and op.get('ctor') != 'grain' and not (op.get('ctor') == 'replace' and op['same_id']):
                want_allocs = 1
            if o in ('group', 'play'):
                want_allocs = 1
            if len(nallocs) != want_allocs:
                bad.append((None, 'op %d (%s): %d node ids drawn from the allocator, %d objects created (ids %s)' % (
                    i, o, len(nallocs), want_allocs, nallocs)))
        if o == 'synth' and op.get('ctor') != 'grain':
            if st['exc'] == 'BusException':
                pass            # the caller's as_map() of a freed bus raised: the constructor was never called, no object
            elif st['exc'] is not None:
                node_ids.append(None)
            elif op.get('ctor') == 'replace' and op['same_id']:
                node_ids.append(node_ids[op['target']['i']])
            else:
                node_ids.append(nallocs[-1] if nallocs else None)
        elif o == 'play' and st['exc'] == 'BusException':
            pass                # as for Synth: the caller's as_map() raised, play() was never called
        elif o in ('group', 'play'):
            node_ids.append(nallocs[-1] if (nallocs and st['exc'] is None) else None)
        elif o == 'basic_new':
            node_ids.append(op['id']); node_known.add(op['id'])
        if depth == 0 and st['exc'] is None and o in ('synth', 'group'):
            t = op['target']
            want_t = {'none': default_group, 'server': default_group, 'root': 0}.get(t['t'])
            if t['t'] == 'int':
                want_t = t['x']
            elif t['t'] == 'node':
                want_t = node_ids[t['i']]
            for m in msgs:
                if m[0] in ('/s_new', '/g_new', '/p_new') and not scproto.conforms(m):
                    got_t = m[1][3][1] if m[0] == '/s_new' else m[1][2][1]
                    if want_t is not None and got_t != want_t:
                        bad.append((None, 'op %d (%s): target %s requested, creation command names target %s' % (i, o, t, got_t)))
        if depth == 0 and st['exc'] is None and 'n' in op and o.startswith(('n_', 'g_')) and msgs:
            own = node_ids[op['n']] if op['n'] < len(node_ids) else None
            for m in msgs:
                if scproto.conforms(m) or own is None:
                    continue
                if m[0] in ('/g_head', '/g_tail'):
                    g = default_group if op.get('t') is None else node_ids[op['t']]
                    if [m[1][0][1], m[1][1][1]] != [g, own]:
                        bad.append((None, 'op %d (%s): %s %s, expected group %s node %s' % (i, o, m[0], [a[1] for a in m[1]], g, own)))
                elif m[0] in ('/n_before', '/n_after'):
                    if [m[1][0][1], m[1][1][1]] != [own, node_ids[op['t']]]:
                        bad.append((None, 'op %d (%s): %s %s, expected %s' % (i, o, m[0], [a[1] for a in m[1]], [own, node_ids[op['t']]])))
                elif m[1] and m[1][0][0] == 'i' and m[1][0][1] != own:
                    bad.append((None, 'op %d (%s): %s addresses node %s, the object has id %s' % (i, o, m[0], m[1][0][1], own)))
        # play(func / buffer): '/d_recv bytes [/s_new defName ownId addAction target _iout b out b (control value)*]'
        if depth == 0 and o == 'play' and st['exc'] is None:
            info = st.get('info') or {}
            t = op['target'] if op['kind'] == 'func' else {'t': 'server'}
            want_t = {'none': default_group, 'server': default_group, 'root': 0}.get(t['t'])
            if t['t'] == 'int':
                want_t = t['x']
            elif t['t'] == 'node':
                want_t = node_ids[t['i']]
            sub = None
            if len(msgs) == 1 and msgs[0][0] == '/d_recv' and len(msgs[0][1]) == 2 and msgs[0][1][1][0] == 'b' and msgs[0][1][1][1][0] == '/s_new':
                sub = msgs[0][1][1][1]
            if sub is None:
                bad.append((None, 'op %d (play): expected one /d_recv with the /s_new creation command as completion message, sent %s' % (i, json.dumps(msgs)[:300])))
            else:
                head = scproto.plain_values(sub, 4)
                ob = op['outbus']
                obv = ob['x'] if ob['v'] == 'i' else bus_objs.get(ob['i'])
                want_head = [info.get('defname'), nallocs[-1] if nallocs else None, scproto.REF_ACTIONS[op['action']], want_t]
                if head != want_head:
                    bad.append((None, 'op %d (play): creation command /s_new %s ..., expected definition / own id / add action / target %s' % (i, head, want_head)))
                a = op['args']
                items = a['x'] if a['v'] in ('l', 't') else [x for kv in a['x'] for x in kv]
                if all(x['v'] in ('i', 's') or (x['v'] == 'f') for x in items):
                    plain = [x['x'] if x['v'] in ('i', 's') else (lambda fr: int(fr) if fr.denominator == 1 else float(fr))(Fraction(x['x'])) for x in items]
                    want_c = ['_iout', obv, 'out', obv] + plain
                    got_c = scproto.plain_values([sub[0], sub[1][4:]], len(sub[1]) - 4)
                    got_c = [float(Fraction(struct_f32(v))) if isinstance(v, float) else v for v in got_c]
                    want_c = [float(Fraction(struct_f32(v))) if isinstance(v, float) else v for v in want_c]
                    if got_c != want_c:
                        bad.append((None, 'op %d (play): the creation command carries the controls %s, expected the (control, value) pairs %s' % (i, got_c, want_c)))
                elif (len(sub[1]) - 4) < 4 or scproto.plain_values([sub[0], sub[1][4:]], 4)[0::2] != ['_iout', 'out']:
                    bad.append((None, 'op %d (play): the creation command does not start its controls with _iout / out: %s' % (i, json.dumps(sub)[:300])))
        # M3: creation command carries the object's own id
        if depth == 0 and created:
            got = [m[1][0][1] for m in msgs if m[0] in ('/b_alloc', '/b_allocRead', '/b_allocReadChannel')]
            if sorted(got) != sorted(created):
                bad.append((None, 'op %d (%s): creation commands for buffers %s, object ids %s' % (i, o, got, created)))
        if depth == 0 and o in ('synth', 'group') and st['exc'] is None and op.get('ctor') != 'grain':
            ids_new = [a[1] for a in st['alloc'] if a[0] == 'node']
            cmd = {'synth': '/s_new', 'group': '/p_new' if op.get('par') else '/g_new'}[o]
            got = [(m[1][1][1] if cmd == '/s_new' else m[1][0][1]) for m in msgs if m[0] == cmd]
            if ids_new and got != ids_new:
                bad.append((None, 'op %d (%s): expected creation command %s with id %s, got %s' % (i, o, cmd, ids_new, [m[0] for m in msgs])))
        # add action of the creation command = the reference number of the requested action
        if depth == 0 and o in ('synth', 'group') and st['exc'] is None:
            c = op.get('ctor', 'init')
            want = 4 if c == 'replace' else scproto.REF_ACTIONS[CONV_ACTION[c] if c in CONV_ACTION else op['action']]
            for m in msgs:
                if m[0] in ('/s_new', '/g_new', '/p_new') and not scproto.conforms(m):
                    got_a = m[1][2][1] if m[0] == '/s_new' else m[1][1][1]
                    if got_a != want:
                        bad.append((None, 'op %d (%s %s): add action %s requested, %s sent (reference number %s)' % (
                            i, o, c, op['action'] if c == 'init' else c, got_a, want)))
        # buses: free returns the block
        if o == 'bus_free' and st['exc'] is None:
            u = op['u']
            if bus_objs.get(u) is not None:
                kind = 'abus' if bus_audio[u] else 'cbus'
                blk = [b for b in bus_blocks if b[0] == kind and b[1] == bus_objs[u]]
                for b in blk:
                    if [kind, b[1], b[2]] not in st['free']:
                        bad.append((None, 'op %d: Bus.free() did not return block %s to the %s allocator' % (i, b[1:], kind)))
                    bus_blocks.discard(b)
                bus_objs[u] = None
            elif st['free']:
                bad.append((None, 'op %d: second Bus.free() freed %s' % (i, st['free'])))
        if o == 'bus_new' and st['exc'] is None:
            a = [x for x in st['alloc'] if x[0] in ('cbus', 'abus')]
            bus_objs[nbus] = a[0][1] if a else op.get('index')
            bus_chans[nbus] = op['channels']
            bus_audio[nbus] = op['audio']
            nbus += 1
        elif o == 'bus_new':
            bus_objs[nbus] = None; bus_audio[nbus] = op['audio']; nbus += 1
        if o == 'bus_sub':
            par = bus_objs.get(op['u']); pc = bus_chans.get(op['u'])
            inside = par is not None and pc is not None and op['offset'] >= 0 and op['channels'] >= 0 and op['offset'] + op['channels'] <= pc
            if st['exc'] is None and not inside:
                bad.append((None, 'op %d: sub_bus(%d, %d) of a %s-channel bus at %s was accepted: it reaches outside the channels the parent owns' % (
                    i, op['offset'], op['channels'], pc, par)))
            if st['exc'] is None:
                bus_objs[nbus] = (par + op['offset']) if par is not None else None
                bus_chans[nbus] = op['channels']
            else:
                bus_objs[nbus] = None; bus_chans[nbus] = None
            bus_audio[nbus] = bus_audio.get(op['u'], False)
            nbus += 1
        # M4: free
        if o == 'b_free':
            num = buf_objs.get(op['b'])
            frees = [m for m in msgs if m[0] == '/b_free'] if depth == 0 else None
            if num is None:
                if frees:
                    bad.append((SIG_F15, 'op %d: Buffer.free() on an already freed buffer sent %s' % (i, frees)))
                if depth > 0:
                    pass
            else:
                if frees is not None and [m[1][0][1] for m in frees] != [num]:
                    bad.append((None, 'op %d: Buffer.free() of buffer %s sent %s' % (i, num, frees)))
                blk = [b for b in buf_blocks if b[0] == num]
                for b in blk:
                    if ['buf', b[0], b[1]] not in st['free']:
                        bad.append((None, 'op %d: Buffer.free() did not return block %s to the allocator' % (i, b)))
                    buf_blocks.discard(b)
            cache.discard(num)
            buf_objs[op['b']] = None
        if o == 'b_update_info' and buf_objs.get(op['b']) is not None:
            cache.add(buf_objs[op['b']])
        if o == 'b_free_all':
            cache.clear()
            want = sorted(x for b in buf_blocks for x in range(b[0], b[0] + b[1]))
            if depth == 0:
                got = sorted(m[1][0][1] for m in msgs if m[0] == '/b_free')
                if got != want:
                    bad.append((SIG_F14, 'op %d: Buffer.free_all() with allocated blocks %s sent /b_free for %s, expected %s' % (
                        i, sorted(buf_blocks), got, want)))
            returned = sorted((f[1], f[2]) for f in st['free'] if f[0] == 'buf')
            if returned != sorted(buf_blocks):
                bad.append((None, 'op %d: free_all returned blocks %s, allocated %s' % (i, returned, sorted(buf_blocks))))
            buf_blocks.clear()
        if o == 'n_free' and depth == 0 and st['exc'] is None:
            n = [m for m in msgs if m[0] == '/n_free']
            if len(n) != (1 if op.get('send', True) else 0):
                bad.append((None, 'op %d: Node.free(send=%s) sent %s' % (i, op.get('send', True), n)))
        # M2 ledger: ids at id positions must be known
        for m in emitted_here:
            if scproto.conforms(m):
                continue
            for kind, x in scproto.ids(m):
                if kind == 'node' and x not in node_known:
                    bad.append((None, 'op %d (%s): %s mentions node id %s which the client never allocated' % (i, o, m[0], x)))
                if kind == 'bus' and x != -1:
                    if not (any(b[1] <= x < b[1] + b[2] for b in bus_ever) or x in user_buses):
                        bad.append((None, 'op %d (%s): %s mentions bus %s outside every bus block the client allocated' % (i, o, m[0], x)))
                if kind == 'buf':
                    owned = x in live_before or x in created or x in user_bufs or \
                        any(b[0] <= x < b[0] + b[1] for b in blocks_before | buf_blocks)
                    if not owned:
                        # buffers made stale by free_all keep their numbers client side: the history generator never uses them again
                        bad.append((SIG_F15 if o == 'b_free' else None,
                                    'op %d (%s): %s mentions buffer %s which no live client object owns' % (i, o, m[0], x)))
        # bind bookkeeping for M5
        if o == 'bind_enter':
            depth += 1
        elif o == 'bind_exit':
            depth -= 1
            if depth == 0:
                if len(st['ev']) > 1 or any(ev[0] != 'B' for ev in st['ev']):
                    bad.append((None, 'op %d: bind() exit put %d packets on the wire' % (i, len(st['ev']))))
        elif o == 'bind_raise':
            depth -= op['k']
            if st['ev']:
                bad.append((None, 'op %d: bind() left by an exception sent %s' % (i, st['ev'])))
        elif depth > 0 and st['ev'] and o != 'sync':
            bad.append((None, 'op %d (%s) inside bind() reached the wire immediately: %s' % (i, o, st['ev'])))
    for t in out.get('cross', []):
        bad.append((None, t))
    fin = out['final']
    if 'addr_not_restored' in fin:
        bad.append((None, 'after the history server.addr is still a %s' % fin['addr_not_restored']))
    if 'cached' in fin and (sorted(cache) != fin['cached'] or fin.get('cached_none')):
        bad.append((None, 'Buffer cache of the server holds %s (+%s None keys), the live buffer objects are %s' % (
            fin['cached'], fin.get('cached_none'), sorted(cache))))
    return bad


def strip_binds(ops):
    """the same ops outside any bind(): blocks left by an exception still run (their effects on the
    client objects are kept), only the wire behaviour differs."""
    return [o for o in ops if o['op'] not in ('bind_enter', 'bind_exit', 'bind_raise', 'sync')]


def bind_metamorphic(h, out, flat_out):
    """M5: the bundle sent when an outermost block exits = the messages the same ops emit outside bind(), in issue order;
    nothing for blocks left by an exception."""
    bad = []
    ops = h['ops']
    flat_steps = iter(flat_out['steps'])
    stack = []
    # the block allocator picks among freed blocks with bi.choice over a set: two runs of the same ops may get
    # different (equally valid) numbers once something was freed and allocated again; compare shapes only then
    freed_kinds, reuse = set(), False
    for st in out['steps']:
        for a in st['alloc']:
            if a[0] in freed_kinds:
                reuse = True
        for f in st['free']:
            freed_kinds.add(f[0])
    # names of temporary definitions (play()) come from one process-wide counter: in a history that addresses several servers
    # the per-server view does not start at temp__0; the name itself is checked against the object's def_name elsewhere
    def anon(x):
        if isinstance(x, list):
            return [anon(y) for y in x]
        return 'temp__*' if isinstance(x, str) and x.startswith('temp__') and x[6:].isdigit() else x
    norm = (lambda ms: [(m[0], len(m[1])) for m in ms]) if reuse else (lambda ms: anon(ms))
    for i, (op, st) in enumerate(zip(ops, out['steps'])):
        o = op['op']
        if o == 'bind_enter':
            stack.append([])
        elif o == 'bind_exit':
            top = stack.pop()
            if stack:
                stack[-1].extend(top)
            else:
                got = [m for ev in st['ev'] for m in event_msgs(ev)]
                if st['exc'] is None and norm(got) != norm(top):
                    dif = [(a, b) for a, b in zip(norm(got), norm(top)) if a != b][:1]
                    bad.append((None, 'op %d: bundle at bind() exit differs from the commands issued inside, in order: got %s, issued %s%s' % (
                        i, [m[0] for m in got], [m[0] for m in top],
                        ('; first difference: in the bundle %s, outside bind() %s' % (json.dumps(dif[0][0])[:400], json.dumps(dif[0][1])[:400])) if dif else '')))
                if st['exc'] is None and top and len(st['ev']) != 1:
                    bad.append((None, 'op %d: %d packets at bind() exit' % (i, len(st['ev']))))
        elif o == 'bind_raise':
            for _ in range(op['k']):
                stack.pop()
            if st['ev']:
                bad.append((None, 'op %d: commands sent although the block raised: %s' % (i, st['ev'])))
        elif o == 'sync':
            # everything collected so far (outer blocks first) leaves before the '/sync'; the blocks stay open, empty
            pending = [m for lvl in stack for m in lvl]
            evs = st['ev']
            got = [m for ev in evs for m in event_msgs(ev) if m[0] != '/sync']
            nsync = sum(1 for ev in evs for m in event_msgs(ev) if m[0] == '/sync')
            if st['exc'] is None:
                if norm(got) != norm(pending):
                    bad.append((None, 'op %d: server.sync() inside bind() sent %s before the /sync, the commands issued since the last sync are %s' % (
                        i, [m[0] for m in got], [m[0] for m in pending])))
                if nsync != 1 or not evs or [m[0] for m in event_msgs(evs[-1])] != ['/sync']:
                    bad.append((None, 'op %d: server.sync() must end with exactly one /sync bundle, events %s' % (i, [[m[0] for m in event_msgs(ev)] for ev in evs])))
                if pending and len(evs) != 2:
                    bad.append((None, 'op %d: %d packets at a sync (expected the collected bundle and the /sync)' % (i, len(evs))))
            for lvl in stack:
                del lvl[:]
        else:
            fs = next(flat_steps)
            msgs = [m for ev in fs['ev'] for m in event_msgs(ev)]
            if stack:
                stack[-1].extend(msgs)
                if st['ev']:
                    bad.append((None, 'op %d (%s): sent immediately inside bind()' % (i, o)))
    return bad


# ---------------------------------------------------------------------------

def _sv(n, a=0):
    return [{'v': 'f', 'x': str(Fraction((a + k) % 7, 4))} for k in range(n)]


def _i(x): return {'v': 'i', 'x': x}
def _s(x): return {'v': 's', 'x': x}
def _f(a, b=1): return {'v': 'f', 'x': str(Fraction(a, b))}
def _L(*x): return {'v': 'l', 'x': list(x)}
def _T(*x): return {'v': 't', 'x': list(x)}
def _D(*kv): return {'v': 'd', 'x': [list(p) for p in kv]}


def _synths(n, target, a=0):
    return [{'op': 'synth', 'ctor': 'init', 'def': 'default', 'args': _L(_s('freq'), _i(200 + (a + k) % 50), _s('amp'), _f(1, 4), _s('pan'), _f((a + k) % 5 - 2, 2)),
             'target': target, 'action': 'addToTail' if k % 2 else 'addToHead', 'same_id': False} for k in range(n)]


FIXED_HISTORIES = [
    # bind() blocks of medium size: 8 .. 40 KB of OSC (far below the datagram limit) leave as ONE bundle
    {'cls': 'valid', 'tags': ['fixed:medium-bind-blocks'], 'latency': '1/5', 'ops': [
        {'op': 'group', 'par': False, 'ctor': 'init', 'target': {'t': 'none'}, 'action': 'addToHead'},
        {'op': 'bind_enter'}] + _synths(60, {'t': 'node', 'i': 0}) + [{'op': 'bind_exit'},                      # ~ 5 KB
        {'op': 'bind_enter'}] + _synths(120, {'t': 'node', 'i': 0}, 7) + [
        {'op': 'n_set', 'n': k, 'args': [_s('freq'), _i(300 + k), _s('gate'), _i(0)]} for k in range(1, 40)] + [{'op': 'bind_exit'},   # ~ 12 KB
        {'op': 'b_new', 'frames': 4096, 'channels': 1, 'compl': None},
        {'op': 'bind_enter'}, {'op': 'bind_enter'}] + [
        {'op': 'b_setn', 'b': 0, 'args': [_i(1000 * k), _L(*_sv(900, k))]} for k in range(4)] + [{'op': 'bind_exit'}] + _synths(250, {'t': 'none'}, 3) + [
        {'op': 'bind_exit'},                                                                                    # ~ 35 KB
        {'op': 'bind_enter'}] + [
        {'op': 'b_setn', 'b': 0, 'args': [_i(100 * k), _L(*_sv(1850, k))]} for k in range(6)] + [{'op': 'bind_exit'}]},    # ~ 56 KB
    # the play() entry point: controls as list / tuple / dict, bus objects, inside and outside bind()
    {'cls': 'valid', 'tags': ['fixed:play'], 'ops': [
        {'op': 'group', 'par': False, 'ctor': 'init', 'target': {'t': 'none'}, 'action': 'addToHead'},
        {'op': 'bus_new', 'audio': False, 'channels': 2},
        {'op': 'bus_new', 'audio': True, 'channels': 2},
        {'op': 'b_new', 'frames': 1024, 'channels': 2, 'compl': None},
        {'op': 'play', 'kind': 'func', 'args': _D((_s('freq'), _i(220)), (_s('amp'), _f(1, 4))), 'outbus': _i(0), 'fade': 0.02, 'action': 'addToTail', 'target': {'t': 'node', 'i': 0}},
        {'op': 'play', 'kind': 'func', 'args': _L(_s('freq'), _i(330), _s('pan'), _f(-1, 2)), 'outbus': _i(2), 'fade': 0, 'action': 'addToHead', 'target': {'t': 'none'}},
        {'op': 'play', 'kind': 'func', 'args': _T(_s('freq'), _L(_i(1), _i(2)), _s('amp'), {'v': 'bus', 'i': 0}), 'outbus': {'v': 'bus', 'i': 1}, 'fade': 0.02, 'action': 'addAfter', 'target': {'t': 'node', 'i': 1}},
        {'op': 'play', 'kind': 'func', 'args': _D((_s('freq'), {'v': 'map', 'i': 0})), 'outbus': _i(0), 'fade': 0.02, 'action': 0, 'target': {'t': 'server'}},
        {'op': 'play', 'kind': 'func', 'args': _D(), 'outbus': _i(0), 'fade': 0.02, 'action': 'addToHead', 'target': {'t': 'int', 'x': 1}},
        {'op': 'play', 'kind': 'func', 'args': _T(), 'outbus': _i(0), 'fade': 0.02, 'action': 'addToHead', 'target': {'t': 'root'}},
        {'op': 'play', 'kind': 'buf', 'b': 0, 'loop': True, 'args': _D((_s('amp'), _f(1, 2)), (_s('pan'), _i(1)), (_s('gate'), _i(1))), 'outbus': _i(0), 'fade': 0.02, 'action': 'addToTail'},
        {'op': 'bind_enter'},
        {'op': 'play', 'kind': 'func', 'args': _D((_s('freq'), _i(550))), 'outbus': _i(1), 'fade': 0.02, 'action': 'addToTail', 'target': {'t': 'node', 'i': 0}},
        {'op': 'n_set', 'n': 7, 'args': [_s('freq'), _i(551)]},
        {'op': 'play', 'kind': 'buf', 'b': 0, 'loop': False, 'args': _L(_s('amp'), _f(1, 8)), 'outbus': {'v': 'bus', 'i': 1}, 'fade': 0, 'action': 'addToHead'},
        {'op': 'bind_exit'},
        {'op': 'n_free', 'n': 1, 'send': True}]},
    # multi-packet operations around the packet sizes (1626 values per /b_setn, 1633 per /b_getn), mono and multichannel, offsets
    {'cls': 'valid', 'tags': ['fixed:streaming'], 'ops': [
        {'op': 'b_new', 'frames': 5000, 'channels': 1, 'compl': None},
        {'op': 'b_new', 'frames': 2000, 'channels': 2, 'compl': None},
        {'op': 'b_send_list', 'b': 0, 'values': _sv(1625), 'start': 0},
        {'op': 'b_send_list', 'b': 0, 'values': _sv(1626, 1), 'start': 2},
        {'op': 'b_send_list', 'b': 0, 'values': _sv(1627, 2), 'start': 0},
        {'op': 'b_send_list', 'b': 1, 'values': _sv(2000, 3), 'start': 5},
        {'op': 'b_new_send_list', 'values': _sv(3253, 4), 'channels': 3},
        {'op': 'b_new_send_list', 'values': _sv(1, 5), 'channels': 1},
        {'op': 'b_get_to_list', 'b': 0, 'index': 0, 'count': None},
        {'op': 'b_get_to_list', 'b': 1, 'index': 7, 'count': 1633},
        {'op': 'b_get_to_list', 'b': 1, 'index': 0, 'count': 1634},
        {'op': 'b_get_to_list', 'b': 2, 'index': 0, 'count': None}]},
    # the two histories of DESIGN.md section 6 (F14, F15) and the cue order, always replayed first
    {'cls': 'valid', 'tags': ['fixed:F14'], 'ops': [
        {'op': 'b_new', 'frames': 16, 'channels': 1, 'compl': None},
        {'op': 'b_consecutive', 'n': 3, 'frames': 8, 'channels': 1, 'compl': None},
        {'op': 'b_free_all'}]},
    {'cls': 'valid', 'tags': ['fixed:free_all-empty'], 'ops': [{'op': 'b_free_all'}, {'op': 'b_new', 'frames': 8, 'channels': 1, 'compl': None}]},
    {'cls': 'valid', 'tags': ['fixed:free_all-one'], 'latency': '1/4', 'ops': [
        {'op': 'b_new', 'frames': 8, 'channels': 1, 'compl': None}, {'op': 'b_free_all'}, {'op': 'b_free_all'}]},
    {'cls': 'valid', 'tags': ['fixed:free_all-blocks'], 'ops': [
        {'op': 'b_consecutive', 'n': 2, 'frames': 8, 'channels': 1, 'compl': None},
        {'op': 'b_new', 'frames': 8, 'channels': 1, 'compl': None},
        {'op': 'b_consecutive', 'n': 1, 'frames': 8, 'channels': 1, 'compl': None},
        {'op': 'b_consecutive', 'n': 4, 'frames': 0, 'channels': 1, 'compl': None},
        {'op': 'bind_enter'}, {'op': 'b_free_all'}, {'op': 'bind_exit'}]},
    {'cls': 'valid', 'tags': ['fixed:zeros'], 'latency': '1', 'ops': [
        {'op': 'b_new', 'frames': 0, 'channels': 1, 'compl': None, 'bufnum': 0},
        {'op': 'bus_new', 'audio': False, 'channels': 1, 'index': 0},
        {'op': 'synth', 'ctor': 'init', 'def': 'default', 'args': {'v': 'l', 'x': [{'v': 'i', 'x': 0}, {'v': 'i', 'x': 0}, {'v': 's', 'x': 'gate'}, {'v': 'b', 'x': False},
                                                                             {'v': 's', 'x': 'b'}, {'v': 'buf', 'i': 0}, {'v': 's', 'x': 'c'}, {'v': 'bus', 'i': 0},
                                                                             {'v': 's', 'x': 'n'}, {'v': 'none'}, {'v': 's', 'x': 'e'}, {'v': 'l', 'x': []}]},
         'target': {'t': 'int', 'x': 0}, 'action': 0, 'same_id': False},
        {'op': 'n_map', 'n': 0, 'args': [{'v': 'i', 'x': 0}, {'v': 'bus', 'i': 0}, {'v': 'i', 'x': 1}, {'v': 'i', 'x': 0}]},
        {'op': 'n_setn', 'n': 0, 'args': [{'v': 'i', 'x': 0}, {'v': 'l', 'x': []}, {'v': 'i', 'x': 1}, {'v': 'i', 'x': 0}]},
        {'op': 'n_release', 'n': 0, 'time': {'v': 'i', 'x': 0}},
        {'op': 'n_release', 'n': 0, 'time': {'v': 'f', 'x': '0'}},
        {'op': 'b_read', 'b': 0, 'path': 'c.wav', 'fstart': 0, 'frames': 0, 'bstart': 0, 'leave_open': False},
        {'op': 'b_get', 'b': 0, 'index': 0},
        {'op': 'bus_set', 'u': 0, 'values': [{'v': 'i', 'x': 0}]},
        {'op': 'bus_getn', 'u': 0, 'count': None},
        {'op': 'bind_enter'}, {'op': 'n_run', 'n': 0, 'flag': {'v': 'b', 'x': False}}, {'op': 'bind_exit'},
        {'op': 'b_free', 'b': 0, 'compl': None}, {'op': 'bus_free', 'u': 0}]},
    {'cls': 'valid', 'tags': ['fixed:fragmentation'], 'ops': [
        {'op': 'b_consecutive', 'n': 3, 'frames': 8, 'channels': 1, 'compl': None},
        {'op': 'b_new', 'frames': 8, 'channels': 1, 'compl': None},
        {'op': 'b_consecutive', 'n': 2, 'frames': 8, 'channels': 1, 'compl': None},
        {'op': 'b_new', 'frames': 8, 'channels': 1, 'compl': None},
        {'op': 'bus_new', 'audio': False, 'channels': 4}, {'op': 'bus_new', 'audio': False, 'channels': 1},
        {'op': 'b_free', 'b': 0, 'compl': None}, {'op': 'b_free', 'b': 4, 'compl': None}, {'op': 'bus_free', 'u': 0},
        {'op': 'b_new', 'frames': 8, 'channels': 1, 'compl': None}, {'op': 'b_new', 'frames': 8, 'channels': 1, 'compl': None},
        {'op': 'b_new', 'frames': 8, 'channels': 1, 'compl': None}, {'op': 'b_consecutive', 'n': 2, 'frames': 8, 'channels': 1, 'compl': None},
        {'op': 'b_new', 'frames': 8, 'channels': 1, 'compl': None}, {'op': 'b_new', 'frames': 8, 'channels': 1, 'compl': None},
        {'op': 'bus_new', 'audio': False, 'channels': 2}, {'op': 'bus_new', 'audio': False, 'channels': 1},
        {'op': 'bus_new', 'audio': False, 'channels': 1}, {'op': 'bus_new', 'audio': False, 'channels': 2},
        {'op': 'b_free_all'}]},
    # accessors that render an object's id into an argument, used before and after free (values cached on the object)
    {'cls': 'valid', 'tags': ['fixed:accessors-after-free'], 'ops': [
        {'op': 'bus_new', 'audio': False, 'channels': 1}, {'op': 'bus_new', 'audio': True, 'channels': 2},
        {'op': 'bus_new', 'audio': False, 'channels': 2},
        {'op': 'synth', 'ctor': 'init', 'def': 'default', 'args': {'v': 'l', 'x': [{'v': 's', 'x': 'freq'}, {'v': 'map', 'i': 0}, {'v': 's', 'x': 'in'}, {'v': 'map', 'i': 1}]},
         'target': {'t': 'none'}, 'action': 0, 'same_id': False},
        {'op': 'bus_free', 'u': 0}, {'op': 'bus_free', 'u': 1}, {'op': 'bus_free', 'u': 2},
        {'op': 'n_set', 'n': 0, 'args': [{'v': 's', 'x': 'freq'}, {'v': 'map', 'i': 0}]},
        {'op': 'n_set', 'n': 0, 'args': [{'v': 's', 'x': 'in'}, {'v': 'l', 'x': [{'v': 'i', 'x': 1}, {'v': 'map', 'i': 1}]}]},
        {'op': 'n_set', 'n': 0, 'args': [{'v': 's', 'x': 'pan'}, {'v': 'map', 'i': 2}]},
        {'op': 'bus_new', 'audio': False, 'channels': 1},
        {'op': 'bind_enter'},
        {'op': 'synth', 'ctor': 'init', 'def': 'default', 'args': {'v': 'd', 'x': [[{'v': 's', 'x': 'freq'}, {'v': 'map', 'i': 0}]]},
         'target': {'t': 'none'}, 'action': 0, 'same_id': False},
        {'op': 'n_set', 'n': 0, 'args': [{'v': 's', 'x': 'freq'}, {'v': 'map', 'i': 3}]},
        {'op': 'bind_exit'},
        {'op': 'b_new', 'frames': 8, 'channels': 1, 'compl': None, 'cache': False},
        {'op': 'b_new', 'frames': 8, 'channels': 1, 'compl': None},
        {'op': 'n_set', 'n': 0, 'args': [{'v': 's', 'x': 'bufnum'}, {'v': 'buf', 'i': 0}]},
        {'op': 'b_free', 'b': 0, 'compl': None}, {'op': 'b_free', 'b': 1, 'compl': None}]},
    {'cls': 'valid', 'tags': ['fixed:F15'], 'ops': [
        {'op': 'b_new', 'frames': 16, 'channels': 1, 'compl': None},
        {'op': 'b_free', 'b': 0, 'compl': None},
        {'op': 'b_new', 'frames': 8, 'channels': 1, 'compl': None},
        {'op': 'b_free', 'b': 0, 'compl': None}]},
    {'cls': 'valid', 'tags': ['fixed:cue'], 'ops': [
        {'op': 'b_new', 'frames': 32768, 'channels': 2, 'compl': None},
        {'op': 'b_cue', 'b': 0, 'path': '/tmp/a.wav', 'start': 100, 'compl': None}]},
    {'cls': 'valid', 'tags': ['fixed:dict'], 'ops': [
        {'op': 'synth', 'ctor': 'init', 'def': 'default', 'args': None, 'target': {'t': 'none'}, 'action': 'addToHead', 'same_id': False},
        {'op': 'n_set', 'n': 0, 'args': [{'v': 'd', 'x': [[{'v': 's', 'x': 'freq'}, {'v': 'i', 'x': 440}],
                                                          [{'v': 's', 'x': 'amp'}, {'v': 'l', 'x': [{'v': 'f', 'x': '1/4'}, {'v': 'f', 'x': '1/2'}]}]]}]}]},
    {'cls': 'valid', 'tags': ['fixed:numeric-targets'], 'ops': [
        {'op': 'group', 'par': False, 'ctor': 'init', 'target': {'t': 'int', 'x': 0}, 'action': 'addToHead'},
        {'op': 'synth', 'ctor': 'init', 'def': 'default', 'args': None, 'target': {'t': 'int', 'x': 0}, 'action': 'addToTail', 'same_id': False},
        {'op': 'synth', 'ctor': 'new_paused', 'def': 'default', 'args': None, 'target': {'t': 'int', 'x': 1}, 'action': 0, 'same_id': False},
        {'op': 'group', 'par': True, 'ctor': 'init', 'target': {'t': 'int', 'x': 1000}, 'action': 'addAfter'},
        {'op': 'basic_new', 'id': 0},
        {'op': 'basic_new', 'id': 1},
        {'op': 'n_move_to_head', 'n': 1, 't': 4},
        {'op': 'n_move_to_tail', 'n': 2, 't': 5},
        {'op': 'n_move_before', 'n': 1, 't': 4},
        {'op': 'g_free_all', 'n': 4}]},
    {'cls': 'valid', 'tags': ['fixed:bind'], 'ops': [
        {'op': 'group', 'par': False, 'ctor': 'init', 'target': {'t': 'none'}, 'action': 'addToHead'},
        {'op': 'bind_enter'},
        {'op': 'synth', 'ctor': 'init', 'def': 'default', 'args': {'v': 'l', 'x': [{'v': 's', 'x': 'freq'}, {'v': 'i', 'x': 440}]},
         'target': {'t': 'node', 'i': 0}, 'action': 'addToTail', 'same_id': False},
        {'op': 'n_set', 'n': 1, 'args': [{'v': 's', 'x': 'amp'}, {'v': 'f', 'x': '1/2'}]},
        {'op': 'bind_enter'},
        {'op': 'n_run', 'n': 1, 'flag': {'v': 'b', 'x': False}},
        {'op': 'bind_exit'},
        {'op': 'n_release', 'n': 1, 'time': None},
        {'op': 'bind_exit'},
        {'op': 'bind_enter'},
        {'op': 'n_free', 'n': 1, 'send': True},
        {'op': 'bind_enter'},
        {'op': 'n_free', 'n': 0, 'send': True},
        {'op': 'bind_raise', 'k': 2}]},
]


MULTI_FIXED = [
    # every node constructor, buffers and buses, a bind block: once per server, interleaved
    {'cls': 'valid', 'tags': ['fixed:two-servers'], 'ops': [
        {'op': 'group', 'par': False, 'ctor': 'init', 'target': {'t': 'none'}, 'action': 'addToHead'},
        {'op': 'group', 'par': False, 'ctor': 'init', 'target': {'t': 'none'}, 'action': 'addToTail'},
        {'op': 'group', 'par': True, 'ctor': 'after', 'target': {'t': 'node', 'i': 0}, 'action': 0},
        {'op': 'synth', 'ctor': 'init', 'def': 'default', 'args': None, 'target': {'t': 'node', 'i': 0}, 'action': 'addToTail', 'same_id': False},
        {'op': 'synth', 'ctor': 'new_paused', 'def': 'default', 'args': None, 'target': {'t': 'node', 'i': 0}, 'action': 'addToHead', 'same_id': False},
        {'op': 'synth', 'ctor': 'new_paused', 'def': 'default', 'args': None, 'target': {'t': 'none'}, 'action': 1, 'same_id': False},
        {'op': 'synth', 'ctor': 'grain', 'def': 'default', 'args': None, 'target': {'t': 'node', 'i': 1}, 'action': 0, 'same_id': False},
        {'op': 'synth', 'ctor': 'replace', 'def': 'default', 'args': None, 'target': {'t': 'node', 'i': 3}, 'action': 0, 'same_id': False},
        {'op': 'synth', 'ctor': 'before', 'def': 'default', 'args': None, 'target': {'t': 'node', 'i': 3}, 'action': 0, 'same_id': False},
        {'op': 'basic_new', 'id': 1},
        {'op': 'n_move_to_head', 'n': 3, 't': None},
        {'op': 'b_new', 'frames': 8, 'channels': 1, 'compl': None},
        {'op': 'b_consecutive', 'n': 2, 'frames': 8, 'channels': 1, 'compl': None},
        {'op': 'bus_new', 'audio': False, 'channels': 2},
        {'op': 'bind_enter'},
        {'op': 'n_set', 'n': 3, 'args': [{'v': 's', 'x': 'freq'}, {'v': 'bus', 'i': 0}]},
        {'op': 'bus_set', 'u': 0, 'values': [{'v': 'i', 'x': 1}]},
        {'op': 's_reorder', 'nodes': [3], 'target': {'t': 'none'}, 'action': 0},
        {'op': 'bind_exit'},
        {'op': 'b_free_all'},
        {'op': 's_free_default_group', 'all': False}]},
]

RT_FIXED_HISTORIES = [
    {'cls': 'valid', 'tags': ['fixed:sync-in-bind'], 'latency': '1/4', 'ops': [
        {'op': 'group', 'par': False, 'ctor': 'init', 'target': {'t': 'none'}, 'action': 'addToHead'},
        {'op': 'sync'},
        {'op': 'bind_enter'},
        {'op': 'n_run', 'n': 0, 'flag': {'v': 'b', 'x': True}},
        {'op': 'sync'},
        {'op': 'synth', 'ctor': 'init', 'def': 'default', 'args': None, 'target': {'t': 'node', 'i': 0}, 'action': 'addToTail', 'same_id': False},
        {'op': 'n_set', 'n': 1, 'args': [{'v': 's', 'x': 'amp'}, {'v': 'f', 'x': '1/2'}]},
        {'op': 'sync'},
        {'op': 'sync'},
        {'op': 'bind_enter'},
        {'op': 'n_trace', 'n': 1},
        {'op': 'sync'},
        {'op': 'n_query', 'n': 1},
        {'op': 'bind_exit'},
        {'op': 'n_free', 'n': 1, 'send': True},
        {'op': 'bind_exit'},
        {'op': 'bind_enter'}, {'op': 'sync'}, {'op': 'n_free', 'n': 0, 'send': True}, {'op': 'bind_raise', 'k': 1}]},
]


# ---- several servers in one history ------------------------------------------------------
# The system with two Server objects is the product of two copies of the single-server model: every op addresses
# one server (through its target / server argument), must draw its ids from that server's allocators and must send
# to that server's address only.  A two-server history is two single-server histories interleaved.

def to_other_server(h):
    """the same history addressed to a non-default server: targets that mean 'the default server' (None, a number)
    are given as the server object instead"""
    ops = []
    for o in h['ops']:
        o = dict(o)
        t = o.get('target')
        if isinstance(t, dict) and t.get('t') in ('none', 'int'):
            o['target'] = {'t': 'server'}
        ops.append(o)
    return dict(h, ops=ops)


def units(ops):
    """top-level units: a single op outside bind, or a whole block"""
    out, cur, d = [], [], 0
    for o in ops:
        cur.append(o)
        if o['op'] == 'bind_enter':
            d += 1
        elif o['op'] == 'bind_exit':
            d -= 1
        elif o['op'] == 'bind_raise':
            d -= o['k']
        if d == 0:
            out.append(cur); cur = []
    if cur:
        out.append(cur)
    return out


def merge(rng, h0, h1):
    """h0's ops with the units of h1 inserted at random places (also inside h0's open blocks)"""
    base = [dict(o, srv=0) for o in h0['ops']]
    us = units(h1['ops'])
    cuts = sorted(rng.randint(0, len(base)) for _ in us)
    merged, k = [], 0
    for pos in range(len(base) + 1):
        while k < len(us) and cuts[k] == pos:
            merged += [dict(o, srv=1) for o in us[k]]; k += 1
        if pos < len(base):
            merged.append(base[pos])
    return merged


def split_multi(merged, out, hpair):
    """-> [(h_k, out_k)]: the single-server view of each server, plus the cross-server findings"""
    res = []
    for k in (0, 1):
        steps, cross = [], []
        for i, (op, st) in enumerate(zip(merged, out['steps'])):
            if op['srv'] != k:
                continue
            mine = [e[:-1] for e in st['ev'] if e[-1] == k]
            for e in st['ev']:
                if e[-1] != k:
                    cross.append('op %d of the merged history (%s on server %d) sent %s to the address of server %s' % (
                        i, op['op'], k, [m[0] for m in event_msgs(e)], e[-1]))
            for a in st['alloc']:
                if a[-1] != k:
                    cross.append('op %d of the merged history (%s on server %d) drew %s %s from the allocator of server %d' % (
                        i, op['op'], k, a[0], a[1], a[-1]))
            step = dict(st, ev=mine, alloc=[a[:-1] for a in st['alloc'] if a[-1] == k], free=[a[:-1] for a in st['free'] if a[-1] == k])
            steps.append(step)
        fin = dict(out['finals'][k]) if 'finals' in out else {}
        for key, what in (('node_servers', 'node'), ('buf_servers', 'buffer'), ('bus_servers', 'bus')):
            for j, sv in enumerate(fin.get(key, [])):
                if sv is not None and sv != k:
                    cross.append('%s object %d created for server %d belongs to server %d' % (what, j, k, sv))
        res.append((dict(hpair[k], mode='multi'), {'steps': steps, 'final': fin, 'cross': cross, 'merged': merged}))
    return res


def load_corpus():
    p = os.path.join(fw.VERIF, 'corpus', 'C17_histories.json')
    return json.load(open(p)) if os.path.exists(p) else []


def shrink(ctx, h, still_bad):
    """delete ops while the disagreement persists (bounded)."""
    ops = list(h['ops'])
    tries = 0
    i = len(ops) - 1
    while i >= 0 and tries < 40:
        cand = ops[:i] + ops[i + 1:]
        if well_nested(cand) and refs_ok(cand):
            tries += 1
            if still_bad(dict(h, ops=cand)):
                ops = cand
        i -= 1
    return dict(h, ops=ops)


def well_nested(ops):
    d = 0
    for o in ops:
        if o['op'] == 'bind_enter':
            d += 1
        elif o['op'] == 'bind_exit':
            d -= 1
        elif o['op'] == 'bind_raise':
            d -= o['k']
        if d < 0:
            return False
    return d == 0


def refs_ok(ops):
    """every object reference points to an object created earlier."""
    nn = nb = nu = 0

    def refs(v):
        if isinstance(v, dict):
            if v.get('v') in ('bus', 'map'):
                yield ('u', v['i'])
            elif v.get('v') == 'buf':
                yield ('b', v['i'])
            elif v.get('v') == 'node':
                yield ('n', v['i'])
            elif v.get('t') == 'node':
                yield ('n', v['i'])
            for x in v.values():
                yield from refs(x)
        elif isinstance(v, list):
            for x in v:
                yield from refs(x)
    for o in ops:
        lim = {'n': nn, 'b': nb, 'u': nu}
        for k, i in refs({k: v for k, v in o.items() if k not in ('n', 'b', 'u', 't', 'dst', 'nodes')}):
            if i >= lim[k]:
                return False
        name = o['op']
        if name.startswith(('n_', 'g_')) and o.get('n', 0) >= nn:
            return False
        if name in ('n_move_before', 'n_move_after') and o['t'] >= nn:
            return False
        if name in ('n_move_to_head', 'n_move_to_tail') and o['t'] is not None and o['t'] >= nn:
            return False
        if name == 's_reorder' and any(i >= nn for i in o['nodes']):
            return False
        if name.startswith('b_') and 'b' in o and o['b'] >= nb:
            return False
        if name == 'b_copy_data' and o['dst'] >= nb:
            return False
        if name.startswith('bus_') and 'u' in o and o['u'] >= nu:
            return False
        if name == 'play' and o['kind'] == 'buf' and o['b'] >= nb:
            return False
        if name in ('synth',) and o.get('ctor') != 'grain':
            nn += 1
        elif name == 'play':
            nn += 1
        elif name in ('group', 'basic_new'):
            nn += 1
        elif name in ('b_new', 'b_new_read', 'b_new_read_channel', 'b_new_cue'):
            nb += 1
        elif name == 'b_consecutive':
            nb += o['n']
        elif name == 'bus_new':
            nu += 1
    return True


def diagnose(ctx, h, o):
    """first step on which the verified model (run repaired) and the observation differ, with what the model says"""
    import re
    txt = HEADER + BODY_DEFS + '''
Definition c : case := %s.
Eval vm_compute in first_diff repaired c.
Eval vm_compute in let '(ops, obs, fin, objs, _, _) := c in let '(r, s) := run repaired (init_of c) ops in
  (nth_error r (first_diff repaired c), final_view s, (node_view s, buf_view s, bus_view s)).
''' % coq_case(h, o)
    rc, out = ctx.coq('diag', txt)
    m = re.search(r'=\s*(\d+)', out)
    if rc != 0 or not m:
        return None, out[-800:]
    i = int(m.group(1))
    rest = out[m.end():]
    k = rest.find('=')
    return i, ' '.join(rest[k + 1:].split())[:1500]


def usable(o):
    return not (o.get('crash') or o.get('budget') or o.get('skipped'))


def classify(texts):
    for sig in (SIG_F14, SIG_F15, SIG_CUE, SIG_DICT):
        if any(s == sig for s, _ in texts):
            return sig
    return None


def correspond(ctx):
    c = Corr()
    rng = ctx.rng
    hs = [dict(h) for h in FIXED_HISTORIES] + load_corpus()
    nv, nm = ctx.n(500, 5000), ctx.n(250, 2500)
    hs += [c17_gen.gen_history(rng, 'valid') for _ in range(nv)]
    hs += [c17_gen.gen_history(rng, 'misuse') for _ in range(nm)]
    # real-time mode: the same kind of histories plus server.sync() anywhere (in NRT Server.sync never reaches the address)
    hs_rt = [dict(h, mode='rt') for h in RT_FIXED_HISTORIES]
    hs_rt += [dict(c17_gen.gen_history(rng, 'valid', sync=True), mode='rt') for _ in range(ctx.n(150, 1200))]
    hs_rt += [dict(c17_gen.gen_history(rng, 'misuse', sync=True), mode='rt') for _ in range(ctx.n(40, 300))]

    def run_batch(batch, mode):
        r = ctx.impl('c17_hist', {'histories': [h['ops'] for h in batch], 'latencies': [h.get('latency') for h in batch],
                                  'configs': [h.get('config') for h in batch]}, mode=mode, timeout=900)
        SD_NBYTES[0] = r['sd_nbytes']
        valid = [h for h in batch if h['cls'] == 'valid']
        fl = ctx.impl('c17_hist', {'histories': [strip_binds(h['ops']) for h in valid], 'latencies': [h.get('latency') for h in valid],
                                   'configs': [h.get('config') for h in valid]}, mode=mode, timeout=900)['out']
        return r['out'], fl
    outs, flat = run_batch(hs, 'nrt')
    outs_rt, flat_rt = run_batch(hs_rt, 'rt')
    # two servers in one history
    pairs = [(dict(h), to_other_server(dict(h))) for h in MULTI_FIXED]
    for _ in range(ctx.n(60, 500)):
        cl = rng.choice(['valid', 'valid', 'valid', 'misuse'])
        pairs.append((c17_gen.gen_history(rng, cl, n_ops=rng.choice([4, 8, 12])), to_other_server(c17_gen.gen_history(rng, cl, n_ops=rng.choice([4, 8, 12])))))
    merged = [merge(rng, a, b) for a, b in pairs]
    mres = ctx.impl('c17_hist', {'histories': merged, 'latencies': [[a.get('latency'), b.get('latency')] for a, b in pairs],
                                 'configs': [[a.get('config'), b.get('config')] for a, b in pairs]}, timeout=900)['out']
    hs_m, outs_m = [], []
    for mg, o, pr in zip(merged, mres, pairs):
        if o.get('skipped'):
            continue
        if o.get('budget'):
            c.failures.append(Failure('correspondence', 'two-server run stopped on budget at this history: ' + o['budget'], found_input=True,
                                      theorem='bind_is_one_bundle_in_issue_order', replay={'two_server_history': mg, 'budget': o['budget']}))
            continue
        if o.get('crash'):
            c.failures.append(Failure('correspondence', 'two-server history crashed the runner: ' + o['crash'][:600], replay={'history': mg}))
            continue
        for hk, ok in split_multi(mg, o, pr):
            hs_m.append(hk); outs_m.append(ok)
    valid_m = [h for h in hs_m if h['cls'] == 'valid']
    flat_m = ctx.impl('c17_hist', {'histories': [strip_binds(h['ops']) for h in valid_m], 'latencies': [h.get('latency') for h in valid_m],
                                   'configs': [h.get('config') for h in valid_m]}, timeout=900)['out']
    c.count('mode:two-server-histories', len(merged))
    hs = hs + hs_rt + hs_m
    outs = outs + outs_rt + outs_m
    flat = flat + flat_rt + flat_m
    c.count('mode:rt-histories', len(hs_rt))
    flat_of = {}
    k = 0
    for i, h in enumerate(hs):
        if h['cls'] == 'valid':
            flat_of[i] = flat[k]; k += 1
    items, idx = [], []
    for i, (h, o) in enumerate(zip(hs, outs)):
        if o.get('skipped'):
            c.count('skipped-after-budget')
            continue
        if o.get('budget'):
            # not a harness problem: the library produced far more than the history issues (state leaking between blocks /
            # histories); the history that tripped the budget is the replay (run it after the preceding ones of the batch)
            c.failures.append(Failure('correspondence', 'run stopped on budget at this history: %s; the model emits at most a few commands per op' % o['budget'],
                                      found_input=True, theorem='bind_is_one_bundle_in_issue_order',
                                      replay={'history': h['ops'], 'mode': h.get('mode', 'nrt'), 'latency': h.get('latency'), 'config': h.get('config'), 'budget': o['budget'],
                                              'preceding_histories_in_batch': [x['ops'] for x in hs[max(0, i - 3):i]]}))
            continue
        if o.get('crash'):
            c.failures.append(Failure('correspondence', 'history runner crashed: ' + o['crash'][:800], replay={'history': h}))
            continue
        items.append(coq_case(h, o)); idx.append(i)
        for op, st in zip(h['ops'], o['steps']):
            c.count('op:' + op['op'])
            if st['exc']:
                c.count('exc:' + st['exc'])
            for ev in st['ev']:
                for m in event_msgs(ev):
                    c.count('cmd:' + m[0])
        for t in h.get('tags', []):
            c.count('tag:' + t)
        c.count('class:' + h['cls'])
        if any(st['ev'] for st in o['steps']):
            c.nontriv(h['ops'])
    body = BODY_DEFS + '\nEval vm_compute in bad_idx (fun c => agrees repaired c && observed_conform c && blocks_disjoint repaired c) cases.'
    bad, errs = fw.check_shards(ctx, 'hist', HEADER, items, body, shard=60)
    c.evaluations = len(items)
    # how many of the valid histories lie inside the domain of the theorems (wf_ops of proofs/C17_run.v)
    vitems = [it for it, i in zip(items, idx) if hs[i]['cls'] == 'valid']
    vidx = [i for i in idx if hs[i]['cls'] == 'valid']
    dbody = BODY_DEFS + '\nEval vm_compute in bad_idx (fun c : case => wf_ops 3 (init_of c) (fst (fst (fst (fst (fst c)))))) cases.'
    outside, derrs = fw.check_shards(ctx, 'dom', HEADER, vitems, dbody, shard=60)
    c.count('domain:valid-histories-inside-wf_ops', len(vitems) - len(outside))
    c.count('domain:valid-histories-outside-wf_ops', len(outside))
    if outside:
        c.notes.append('valid histories outside the theorem domain wf_ops (tested, not covered by emitted_conform): e.g. %s' % json.dumps(hs[vidx[outside[0]]]['ops'])[:600])
    for e in derrs:
        c.notes.append('domain evaluation failed: ' + e[-300:])
    c.rule = ('op histories over Synth/Group/ParGroup/Buffer/Bus/server helpers and nested bind() blocks (with exceptions leaving 1..3 '
              'blocks) run on the real library in NRT mode; every op compared: messages reaching the OSC interface (wire types after the '
              'library encoder), error class, final allocator blocks; model = Proto.run repaired; every captured message of a valid '
              'history checked by ProtoGrammar.conforms under vm_compute. non-trivial = at least one command reached the wire')
    c.samples = [{'history': h['ops'][:6], 'first_events': [st['ev'] for st in o['steps'][:6]]} for h, o in list(zip(hs, outs))[4:6]]
    for e in errs:
        c.failures.append(Failure('correspondence', 'coq evaluation of histories failed: ' + e))
    # classify disagreements: property violation on the implementation (monitors) or model error
    seen = set()
    for b in bad:
        i = idx[b]
        h, o = hs[i], outs[i]
        texts = []
        if h['cls'] == 'valid':
            texts = monitors(h, o) + (bind_metamorphic(h, o, flat_of[i]) if usable(flat_of[i]) else [])
        sig = classify(texts)
        if (sig or 'x', bool(texts)) in seen and len(c.failures) >= 6:
            continue
        seen.add((sig or 'x', bool(texts)))
        if texts:
            c.failures.append(Failure(
                'correspondence',
                'the implementation violates the property on this history (and differs from the repaired model): ' + '; '.join(t for _, t in texts[:3]),
                signature=sig, found_input=True,
                theorem='free_emits_each_owned_id_once_and_returns_it' if sig in (SIG_F14, SIG_F15) else 'emitted_conform',
                replay={'history': h['ops'], 'mode': h.get('mode', 'nrt'), 'two_server_history': o.get('merged'), 'latency': h.get('latency'), 'config': h.get('config'), 'observed': [[st['ev'], st['exc']] for st in o['steps']], 'violations': [t for _, t in texts],
                        'how': 'SC3_MODE=nrt PYTHONPATH=/repo:/verif/harness /venv/bin/python harness/impl/c17_hist.py <in.json> <out.json> with {"histories": [history]}'}))
        elif h['cls'] == 'valid':
            # the repaired model is the verified reference (emitted_conform, ids_only_allocated, create / free / bind theorems):
            # a valid history on which the implementation departs from it is a concrete failing input
            di, dtxt = diagnose(ctx, h, o)
            where = ''
            if di is not None and di < len(h['ops']):
                where = 'op %d %s: observed %s ; the verified model says %s' % (di, json.dumps(h['ops'][di]), json.dumps(o['steps'][di]['ev'])[:500], dtxt[:700])
            elif di is not None:
                where = 'all steps agree, the final client state differs: observed %s ; model (blocks, object ids) %s' % (json.dumps(o['final'])[:400], dtxt[:500])
            c.failures.append(Failure('correspondence',
                                      'the implementation departs from the verified reference model on a valid history: ' + where,
                                      found_input=True, theorem='emitted_conform / create_emits_own_id / free_emits_each_owned_id_once_and_returns_it',
                                      replay={'history': h['ops'], 'mode': h.get('mode', 'nrt'), 'two_server_history': o.get('merged'), 'latency': h.get('latency'), 'config': h.get('config'), 'first_difference_at_op': di,
                                              'observed': [[st['ev'], st['exc']] for st in o['steps']], 'model_says': dtxt}))
        else:
            c.failures.append(Failure('correspondence', 'model (Proto.run repaired) and implementation disagree on a %s history' % h['cls'],
                                      replay={'history': h['ops'], 'mode': h.get('mode', 'nrt'), 'two_server_history': o.get('merged'), 'latency': h.get('latency'), 'config': h.get('config'), 'observed': [[st['ev'], st['exc']] for st in o['steps']]}))
    # independent monitors on every valid history, even when the model agrees
    for i, (h, o) in enumerate(zip(hs, outs)):
        if h['cls'] != 'valid' or not usable(o) or not usable(flat_of[i]) or i in [idx[b] for b in bad]:
            continue
        texts = monitors(h, o) + bind_metamorphic(h, o, flat_of[i])
        if texts:
            c.failures.append(Failure('correspondence', 'monitor: ' + '; '.join(t for _, t in texts[:3]), signature=classify(texts),
                                      found_input=True, replay={'history': h['ops'], 'violations': [t for _, t in texts]}))
            if len(c.failures) > 12:
                break
    return c


def search(ctx, failures):
    """Look for a concrete history on the implementation that violates the property itself, with the independent
    grammar (oracles/scproto.py), the id ledger and the bind metamorphic check."""
    rng = ctx.rng
    hs = [dict(h) for h in FIXED_HISTORIES] + load_corpus() + [c17_gen.gen_history(rng, 'valid') for _ in range(ctx.n(800, 8000))]
    hs = [h for h in hs if h['cls'] == 'valid']
    lats = [h.get('latency') for h in hs]
    cfgs = [h.get('config') for h in hs]
    outs = ctx.impl('c17_hist', {'histories': [h['ops'] for h in hs], 'latencies': lats, 'configs': cfgs}, timeout=900)['out']
    flat = ctx.impl('c17_hist', {'histories': [strip_binds(h['ops']) for h in hs], 'latencies': lats, 'configs': cfgs}, timeout=900)['out']
    found, seen = [], set()
    for h, o, f in zip(hs, outs, flat):
        if not usable(o) or not usable(f):
            continue
        texts = monitors(h, o) + bind_metamorphic(h, o, f)
        if not texts:
            continue
        key = classify(texts) or texts[0][1].split(':')[1][:40]
        if key in seen:
            continue
        seen.add(key)

        def still_bad(hh):
            oo = ctx.impl('c17_hist', {'histories': [hh['ops'], strip_binds(hh['ops'])], 'latencies': [hh.get('latency')] * 2, 'configs': [hh.get('config')] * 2}, timeout=120)['out']
            if not usable(oo[0]) or not usable(oo[1]):
                return False
            tt = monitors(hh, oo[0]) + bind_metamorphic(hh, oo[0], oo[1])
            return bool(tt) and (classify(tt) or tt[0][1].split(':')[1][:40]) == key
        hmin = shrink(ctx, h, still_bad) if len(h['ops']) > 4 else h
        oo = ctx.impl('c17_hist', {'histories': [hmin['ops'], strip_binds(hmin['ops'])], 'latencies': [hmin.get('latency')] * 2, 'configs': [hmin.get('config')] * 2}, timeout=120)['out']
        tt = monitors(hmin, oo[0]) + bind_metamorphic(hmin, oo[0], oo[1])
        if not tt:
            continue
        found.append(Failure('search', 'property fails on the implementation: ' + '; '.join(t for _, t in tt[:3]),
                             signature=classify(tt), found_input=True,
                             replay={'history': hmin['ops'], 'observed': [[st['ev'], st['exc']] for st in oo[0]['steps']],
                                     'violations': [t for _, t in tt]}))
        if len(found) >= 5:
            break
    return found
