"""C19 -- envelopes encode to the server format and evaluate consistently."""
import json, os, re
from fractions import Fraction
import fw
from fw import Corr, Failure, cz, cq, clist, copt

TITLE = 'Envelopes encode to the server format and evaluate consistently'
TRANSLATED = ['Gen_envtables', 'Gen_envR', 'Gen_builtinsR']
MODEL_TARGETS = ['model/Env.vo']
ALLOWED_AXIOMS = ['sig_forall_dec', 'sig_not_dec', 'functional_extensionality_dep', 'classic']
TRUSTED = [
    'translator harness/translator/t_env.py: Env._SHAPE_NAMES, the numeric-curve shape number, the absent-node constant, '
    'the cubed exponent and the linear threshold of sc3/synth/envelope.py -> gen/Gen_envtables.v; '
    'targets.py: bi.pow -> gen/Gen_builtinsR.v (pyR_pow)',
    'reference tables transcribed by hand from the SuperCollider documentation: server shape numbers '
    '(step 0, lin 1, exp 2, sin 3, wel 4, numeric 5, sqr 6, cub 7, hold 8), -99 for an absent node, the EnvGen / IEnvGen array layouts '
    '(model/Env.v: server_shape_names, decode_env, decode_ienv; harness/oracles/envgen_layout.py)',
    'floats modelled as rationals (exact on the dyadic inputs the correspondence uses); transcendental shapes '
    '(exp sin wel numeric-curve sqr cub) are exact in the executable model only at the arguments where binary64 is exact '
    '(segment starts, levels -1/0/1 for cub, perfect squares for sqr); elsewhere they are covered by the abstract theorems and the float-level probes only',
    'single-channel envelopes only (no nested level lists, no ugens as levels)',
]
ASSUMES = ['Python float arithmetic on dyadic rationals of small magnitude is exact',
           'libm: pow(x, 0) = 1, pow(0, y) = 0, pow(1, y) = 1, cos(0) = 1, sin(0) = 0, sin(pi/2) = 1.0, exp(0) = 1, sqrt exact on perfect squares']

DOC_NAMES = ['step', 'lin', 'linear', 'exp', 'exponential', 'sin', 'sine', 'wel', 'welch', 'sqr', 'squared', 'cub', 'cubed', 'hold']
ERRS = {'ValueError', 'ZeroDivisionError', 'TypeError', 'IndexError', 'KeyError'}


# --------------------------------------------------------------------------- Coq printers
def cnum(a):
    return '(I %s)' % cz(a[1]) if a[0] == 'I' else '(F %s)' % cq(Fraction(a[1]))


def ccurve(c):
    return '(CName "%s")' % c[1] if c[0] == 'N' else '(CNum %s)' % cnum(c)


def is_listspec(x):
    return isinstance(x, list) and (len(x) == 0 or isinstance(x[0], list))


def ctimes(t):
    if t is None:
        return 'TNone'
    return '(TList %s)' % clist(t, cnum) if is_listspec(t) else '(TScalar %s)' % cnum(t)


def ccarg(c):
    return '(CList %s)' % clist(c, ccurve) if is_listspec(c) else '(CScalar %s)' % ccurve(c)


def coptz(z):
    return copt(z, cz)


def cenv(s):
    off = s.get('offset', 'absent')
    off_t = '(Some (I 0%Z))' if off == 'absent' else copt(off, cnum)
    return '(Ok (env_init %s %s %s %s %s %s))' % (
        copt(s['levels'], lambda l: clist(l, cnum)), ctimes(s['times']), ccarg(s['curves']),
        coptz(s['rel']), coptz(s['loop']), off_t)


def cexpected(o):
    if isinstance(o, dict):
        e = o['err']
        return '(Err %s)' % (e if e in ERRS else 'OtherError')
    return '(Ok %s)' % clist(['(%s, %s, %s)%%Z' % (t, n if int(n) >= 0 else '(%s)' % n, d) for t, n, d in o])


def cexpected1(o):
    if isinstance(o, dict):
        e = o['err']
        return '(Err %s)' % (e if e in ERRS else 'OtherError')
    t, n, d = o
    return '(Ok (%s, %s, %s)%%Z)' % (t, n if int(n) >= 0 else '(%s)' % n, d)


# --------------------------------------------------------------------------- documented defaults of the constructors
def FQ(x):
    return ['F', str(Fraction(x))]


DEFAULTS = {
    'triangle': [('dur', FQ(1.0)), ('level', FQ(1.0))],
    'sine': [('dur', FQ(1.0)), ('level', FQ(1.0))],
    'perc': [('attack_time', FQ(0.01)), ('release_time', FQ(1.0)), ('level', FQ(1.0)), ('curve', FQ(-4.0))],
    'linen': [('attack_time', FQ(0.01)), ('sustain_time', FQ(1.0)), ('release_time', FQ(1.0)), ('level', FQ(1.0)), ('curve', ['N', 'lin'])],
    'cutoff': [('release_time', FQ(0.1)), ('level', FQ(1.0)), ('curve', ['N', 'lin'])],
    'dadsr': [('delay_time', FQ(0.1)), ('attack_time', FQ(0.01)), ('decay_time', FQ(0.3)), ('sustain_level', FQ(0.5)),
              ('release_time', FQ(1.0)), ('peak_level', FQ(1.0)), ('curve', FQ(-4.0)), ('bias', FQ(0.0))],
    'adsr': [('attack_time', FQ(0.01)), ('decay_time', FQ(0.3)), ('sustain_level', FQ(0.5)), ('release_time', FQ(1.0)),
             ('peak_level', FQ(1.0)), ('curve', FQ(-4.0)), ('bias', FQ(0.0))],
    'asr': [('attack_time', FQ(0.01)), ('sustain_level', FQ(1.0)), ('release_time', FQ(1.0)), ('curve', FQ(-4.0))],
    'step': [('levels', None), ('times', None), ('release_level', None), ('loop_level', None), ('offset', 'absent')],
}


def cctor(name, args, eps):
    """Coq term (res env) for Env.<name>(**args); missing keys take the documented default."""
    if name == 'xyc':
        return '(env_xyc %s)' % clist(args['xyc'], lambda p: '(%s, %s, %s)' % (cnum(p[0]), cnum(p[1]), ccurve(p[2])))
    if name == 'pairs':
        c = args.get('curves')
        ct = 'PNone' if c is None else ('(PList %s)' % clist(c, ccurve) if is_listspec(c) else '(PScalar %s)' % ccurve(c))
        return '(env_pairs %s %s)' % (clist(args['pairs'], lambda p: '(%s, %s)' % (cnum(p[0]), cnum(p[1]))), ct)
    a = dict(DEFAULTS[name])
    a.update(args)
    if name == 'step':
        off = a['offset']
        return '(env_step %s %s %s %s %s)' % (copt(a['levels'], lambda l: clist(l, cnum)), copt(a['times'], lambda l: clist(l, cnum)),
                                              coptz(a['release_level']), coptz(a['loop_level']),
                                              '(Some (I 0%Z))' if off == 'absent' else copt(off, cnum))
    if name == 'cutoff':
        return '(env_cutoff_c %s %s %s %s)' % (cnum(eps), cnum(a['release_time']), cnum(a['level']), ccarg(a['curve']))
    order = [k for k, _ in DEFAULTS[name]]
    terms = [ccarg(a[k]) if k == 'curve' else cnum(a[k]) for k in order]
    if name in ('dadsr', 'adsr'):          # model argument order: ..., curve, bias
        pass
    return '(Ok (env_%s %s))' % (name, ' '.join(terms))


# --------------------------------------------------------------------------- generators
def g_level(rng):
    if rng.random() < 0.4:
        return ['I', str(rng.randint(-9, 9))]
    return ['F', str(Fraction(rng.randint(-64, 64), 8))]


def g_dur(rng, zero=0.1):
    if rng.random() < zero:
        return rng.choice([['I', '0'], ['F', '0']])
    k = rng.choice([-3, -2, -1, 0, 1, 2])
    if k >= 0 and rng.random() < 0.5:
        return ['I', str(1 << k)]
    return ['F', str(Fraction(2) ** k)]


def g_anytime(rng):
    return rng.choice([g_dur(rng), ['F', str(Fraction(rng.randint(0, 24), 8))], ['I', str(rng.randint(0, 3))]])


def g_curve(rng, bad=0.06):
    r = rng.random()
    if r < bad:
        return ['N', rng.choice(['foo', '', 'Lin', 'sqrt', 'curve', 'None'])]
    if r < 0.6:
        return ['N', rng.choice(DOC_NAMES)]
    return rng.choice([['I', str(rng.randint(-4, 4))], ['F', str(Fraction(rng.randint(-32, 32), 8))],
                       ['F', '1/16384'], ['F', '-1/16384'], ['F', '1/8192'], ['F', '0']])


def g_env(rng):
    n = rng.choice([1, 2, 2, 3, 3, 4, 5, 6])
    levels = [g_level(rng) for _ in range(n)]
    r = rng.random()
    if r < 0.06:
        levels = rng.choice([None, []])
    segs = max((len(levels) if levels else 3) - 1, 0)
    r = rng.random()
    if r < 0.12:
        times = None
    elif r < 0.3:
        times = g_anytime(rng)
    elif r < 0.36:
        times = []
    else:
        times = [g_anytime(rng) for _ in range(rng.choice([1, 2, max(segs, 1), max(segs - 1, 1), segs + 1, segs + 2]))]
    r = rng.random()
    if r < 0.3:
        curves = g_curve(rng)
    elif r < 0.34:
        curves = []
    else:
        curves = [g_curve(rng, 0.03) for _ in range(rng.choice([1, 2, max(segs, 1), max(segs - 1, 1), segs + 1, segs + 3]))]
    rel = rng.choice([None, None, rng.randint(-1, segs + 1)])
    loop = rng.choice([None, None, rng.randint(-1, segs + 1)])
    off = rng.choice(['absent', 'absent', None, ['I', '2'], ['F', '3/4'], ['F', '-1/2']])
    return {'levels': levels, 'times': times, 'curves': curves, 'rel': rel, 'loop': loop, 'offset': off}


def g_ctor(rng):
    name = rng.choice(list(DEFAULTS) + ['xyc', 'pairs', 'xyc', 'pairs'])
    cv = lambda: rng.choice([g_curve(rng, 0.04), g_curve(rng, 0.04), [g_curve(rng, 0.0) for _ in range(rng.randint(1, 4))]])
    if name in ('xyc', 'pairs'):
        m = rng.choice([0, 1, 2, 3, 4, 5]) if rng.random() < 0.3 else rng.randint(2, 5)
        xs = [rng.choice([['I', str(rng.randint(-1, 4))], ['F', str(Fraction(rng.randint(-4, 16), 4))]]) for _ in range(m)]
        pts = [[x, g_level(rng), g_curve(rng, 0.02)] for x in xs]
        if name == 'xyc':
            return {'k': 'ctor', 'name': 'xyc', 'args': {'xyc': pts}}
        r = rng.random()
        cs = None if r < 0.3 else (g_curve(rng, 0.05) if r < 0.6 else [p[2] for p in pts][:m if r < 0.9 else max(m - 1, 0)])
        return {'k': 'ctor', 'name': 'pairs', 'args': {'pairs': [p[:2] for p in pts], 'curves': cs}}
    args = {}
    for k, _ in DEFAULTS[name]:
        if rng.random() < 0.25:
            continue                                  # leave the documented default
        if name == 'step':
            continue
        if k == 'curve':
            args[k] = cv()
        elif k.endswith('time') or k == 'dur':
            args[k] = g_dur(rng)
        else:
            args[k] = g_level(rng)
    if name == 'step' and rng.random() < 0.85:
        m = rng.randint(1, 5)
        args = {'levels': [g_level(rng) for _ in range(m)],
                'times': [g_dur(rng) for _ in range(m if rng.random() < 0.9 else m + 1)]}
        if rng.random() < 0.7:
            args['release_level'] = rng.randint(0, m)
        if rng.random() < 0.4:
            args['loop_level'] = rng.randint(0, m)
        if rng.random() < 0.4:
            args['offset'] = rng.choice([['I', '1'], ['F', '1/2']])
    return {'k': 'ctor', 'name': name, 'args': args}


SQUARES = ['0', '1/4', '1', '9/4', '4', '25/4', '9', '16', '1/16']


def g_at(rng):
    """envelopes on which the executable model is exact as often as possible, with a grid of evaluation times"""
    n = rng.randint(1, 5)
    fam = rng.choice(['rational', 'rational', 'mixed', 'cub', 'sqr', 'exp', 'trans'])

    def lv(shape):
        if shape in ('cub', 'cubed'):
            return ['I', str(rng.choice([-1, 0, 1]))] if rng.random() < 0.5 else ['F', str(rng.choice([-1, 0, 1]))]
        if shape in ('squared', 'sqr'):
            q = Fraction(rng.choice(SQUARES))
            if rng.random() < 0.15:
                q = -q
            return ['F', str(q)]
        return g_level(rng)
    rat = [['N', 'step'], ['N', 'hold'], ['N', 'lin'], ['N', 'linear'], ['F', '0'], ['F', '1/16384'], ['I', '0']]
    pool = {'rational': rat, 'cub': [['N', 'cub'], ['N', 'cubed']], 'sqr': [['N', 'squared']],
            'exp': [['N', 'exp'], ['N', 'exponential']],
            'trans': [['N', 'sin'], ['N', 'sine'], ['N', 'wel'], ['N', 'welch'], ['I', '-4'], ['F', '5/2'], ['N', 'exp']],
            'mixed': rat + [['N', 'cub'], ['N', 'squared'], ['N', 'sine'], ['N', 'welch'], ['I', '3'], ['N', 'exp']]}[fam]
    curves = [rng.choice(pool) for _ in range(rng.randint(1, n))]
    if rng.random() < 0.3:
        curves = curves[0]
    shape0 = (curves if not is_listspec(curves) else curves[0])
    kind = shape0[1] if shape0[0] == 'N' else 'num'
    levels = [lv(kind) for _ in range(n + 1)]
    if fam == 'exp':
        sgn = rng.choice([1, -1])
        levels = [['F', str(sgn * Fraction(rng.randint(1, 32), 4))] for _ in range(n + 1)]
        if rng.random() < 0.3:
            levels[rng.randrange(n + 1)] = ['F', '0']
    times = [g_dur(rng, 0.08) for _ in range(rng.choice([1, n, n]))]
    if rng.random() < 0.15:
        times = g_dur(rng, 0.0)
    off = rng.choice(['absent', 'absent', ['F', '3/4'], ['I', '1'], ['F', '-1/2']])
    env = {'levels': levels, 'times': times, 'curves': curves, 'rel': None, 'loop': None, 'offset': off}
    tl = times if is_listspec(times) else [times]
    durs = [Fraction(tl[i % len(tl)][1]) for i in range(n)]
    o = Fraction(0) if off == 'absent' else Fraction(off[1])
    ts = set()
    acc = Fraction(0)
    for d in durs:
        ts.add(acc + o)
        for f in (Fraction(1, 8), Fraction(1, 2), Fraction(3, 4)):
            if rng.random() < 0.5:
                ts.add(acc + f * d + o)
        acc += d
    ts.update([acc + o, acc + o + Fraction(1, 2), o - Fraction(1, 4), Fraction(rng.randint(-8, 64), 8)])
    return {'k': 'at', 'env': env, 'ts': [str(t) for t in sorted(ts)]}


def dyadic_case(k):
    if 'name' not in k or k['name'] not in DEFAULTS:
        return True
    a = dict(DEFAULTS[k['name']])
    a.update(k['args'])
    vals = [v for v in a.values() if isinstance(v, list) and len(v) == 2 and v[0] == 'F']
    return all(Fraction(v[1]).denominator <= 1024 for v in vals)


# --------------------------------------------------------------------------- multichannel
def cmitem(a):
    return '(ML %s)' % clist(a[1], cnum) if a[0] == 'L' else '(MS %s)' % cnum(a)


def cmcurve(a):
    return '(MCL %s)' % clist(a[1], ccurve) if a[0] == 'L' else '(MCS %s)' % ccurve(a)


def cmenv(sp):
    off = sp.get('offset', 'absent')
    return '(menv_init %s %s %s %s %s %s)' % (clist(sp['levels'], cmitem), clist(sp['times'], cmitem), clist(sp['curves'], cmcurve),
                                              coptz(sp['rel']), coptz(sp['loop']),
                                              '(Some (I 0%Z))' if off == 'absent' else copt(off, cnum))


def g_mc(rng):
    """envelopes whose level / time / curve items may be lists (multichannel expansion through utl.flop)"""
    n = rng.randint(1, 4)
    widths = [1, 1, 2, 3, rng.choice([2, 4])]
    def lst(f):
        return ['L', [f() for _ in range(rng.choice(widths))]]
    def level():
        return g_level(rng)
    def dur():
        return g_dur(rng, 0.05)
    rat = [['N', 'lin'], ['N', 'step'], ['N', 'hold'], ['F', '0'], ['N', 'linear']]
    anyc = rat + [['N', 'sin'], ['I', '-4'], ['N', 'cub'], ['N', 'welch'], ['N', 'exp'], ['N', 'squared']]
    fam = rat if rng.random() < 0.6 else anyc
    def cur():
        return rng.choice(fam) if rng.random() > 0.03 else ['N', 'foo']
    levels = [lst(level) if rng.random() < 0.4 else level() for _ in range(n + 1)]
    times = [lst(dur) if rng.random() < 0.3 else dur() for _ in range(rng.choice([1, n, n]))]
    curves = [lst(cur) if rng.random() < 0.3 else cur() for _ in range(rng.choice([1, 1, n, n + 1]))]
    if rng.random() < 0.04:
        curves = []
    sp = {'levels': levels, 'times': times, 'curves': curves, 'rel': rng.choice([None, 0, 1]), 'loop': rng.choice([None, 0]),
          'offset': rng.choice(['absent', 'absent', ['F', '1/2']])}
    ts = sorted({Fraction(rng.randint(-4, 40), 8) for _ in range(5)} | {Fraction(0), Fraction(1)})
    return {'k': 'mc', 'env': sp, 'ts': [str(t) for t in ts]}


MC_FIXED = [
    {'k': 'mc', 'env': {'levels': [['I', '0'], ['L', [['I', '1'], ['I', '2'], ['I', '3']]], ['I', '0']],
                        'times': [['I', '1'], ['L', [['I', '2'], ['I', '3']]]],
                        'curves': [['N', 'lin'], ['L', [['N', 'sin'], ['I', '-2']]]], 'rel': 1, 'loop': 0, 'offset': 'absent'},
     'ts': ['0', '1', '2']},
    {'k': 'mc', 'env': {'levels': [['L', [['I', '0'], ['I', '5']]], ['L', [['I', '1'], ['I', '2']]], ['I', '0']],
                        'times': [['I', '1'], ['I', '1']], 'curves': [['N', 'lin']], 'rel': None, 'loop': None, 'offset': 'absent'},
     'ts': ['0', '1/2', '1', '3/2', '2', '3']},
    {'k': 'mc', 'env': {'levels': [['I', '0'], ['L', [['I', '1']]], ['I', '0']], 'times': [['L', [['I', '1'], ['I', '2'], ['I', '4'], ['F', '1/2']]]],
                        'curves': [['L', [['N', 'hold']]], ['N', 'step']], 'rel': None, 'loop': None, 'offset': ['F', '1/2']},
     'ts': ['0', '1/2', '1', '3/2', '5']},
]


# --------------------------------------------------------------------------- deterministic sweeps
ZEROS = [['I', '0'], ['F', '0']]
DISTINCT_T = [['I', '1'], ['F', '1/2'], ['I', '2'], ['F', '1/4'], ['I', '4']]
DISTINCT_C = [['N', 'sin'], ['I', '-3'], ['N', 'hold'], ['F', '5/2'], ['N', 'welch']]


def table_names():
    """names of the shape table of the tree under test (gen/Gen_envtables.v is regenerated before correspond runs)"""
    try:
        txt = open(os.path.join(fw.COQ, 'gen', 'Gen_envtables.v')).read()
        body = txt[txt.index('env_shape_names'):txt.index('env_numeric_shape')]
        return re.findall(r'\("([^"]*)",', body)
    except (OSError, ValueError):
        return []


def shape_spellings():
    names = list(DOC_NAMES) + [n for n in table_names() if n not in DOC_NAMES]
    scal = [['N', n] for n in names] + [['I', '2'], ['F', '2'], ['I', '-4'], ['F', '5/2'], ['I', '0'], ['I', '1']]
    return scal + [[x] for x in scal] + [[['N', n], ['N', 'lin']] for n in names] + [[['N', 'lin'], ['N', n]] for n in names]


def sweep_cases():
    """explicit zeros for every optional argument (model-level: int 0 and float 0.0), and list lengths
    below / at / above the segment count with pairwise distinct entries (wrap vs clip)"""
    out = []
    base = {'levels': [['I', '0'], ['I', '1'], ['F', '1/2']], 'times': [['I', '1'], ['I', '2']], 'curves': ['N', 'lin'],
            'rel': None, 'loop': None, 'offset': 'absent'}
    def env(**kw):
        return {'k': 'fmt', 'env': dict(base, **kw)}
    for z in (0,):
        out += [env(rel=0), env(loop=0), env(rel=0, loop=0), env(rel=-1), env(loop=-1)]
    for z in ZEROS:
        out += [env(offset=z), env(times=z), env(times=[z]), env(times=[z, ['I', '1']]), env(curves=z), env(curves=[z]),
                env(curves=[z, ['N', 'sin']]), env(levels=[z, z]), env(levels=[z]), env(levels=[['I', '1'], z, z])]
    out += [env(levels=None), env(levels=[]), env(times=None), env(times=[]), env(curves=[]), env(curves=['N', '']),
            env(offset=None)]
    for n in (1, 2, 3, 4):
        lv = [['I', str(i * i - 2)] for i in range(n + 1)]
        for lt in sorted({1, max(n - 1, 1), n, n + 1}):
            for lc in sorted({1, max(n - 1, 1), n, n + 1}):
                out.append(env(levels=lv, times=DISTINCT_T[:lt], curves=DISTINCT_C[:lc], rel=n - 1, loop=0))
    for name, params in DEFAULTS.items():
        if name == 'step':
            continue
        for kname, _ in params:
            for z in ZEROS:
                out.append({'k': 'ctor', 'name': name, 'args': {kname: z}})
        for z in ZEROS:
            out.append({'k': 'ctor', 'name': name, 'args': {kname: z for kname, _ in params}})
    for z in ZEROS:
        out.append({'k': 'ctor', 'name': 'step', 'args': {'levels': [z], 'times': [z]}})
        out.append({'k': 'ctor', 'name': 'step', 'args': {'levels': [z, ['I', '1']], 'times': [['I', '1'], z], 'offset': z}})
    for r in (0, 1, 2):
        out.append({'k': 'ctor', 'name': 'step', 'args': {'levels': [['I', '3'], ['I', '1']], 'times': [['I', '1'], ['I', '2']],
                                                         'release_level': r, 'loop_level': 0}})
    # every constructor parameter that takes a shape, in every accepted spelling: every alias of the shape
    # table (documented names + whatever the tree under test has in its regenerated table), numbers
    # (2 and 2.0 included: a NUMBER is always shape 5), bare, in a one-element list, in a longer list
    for sp in shape_spellings():
        for name in ('perc', 'linen', 'cutoff', 'dadsr', 'adsr', 'asr'):
            out.append({'k': 'ctor', 'name': name, 'args': {'curve': sp}})
        pts = [[['I', '0'], ['I', '1']], [['I', '1'], ['F', '1/2']], [['I', '3'], ['I', '2']]]
        if not is_listspec(sp):
            out.append({'k': 'ctor', 'name': 'pairs', 'args': {'pairs': pts, 'curves': sp}})
            out.append({'k': 'ctor', 'name': 'pairs', 'args': {'pairs': pts, 'curves': [sp, ['N', 'lin'], sp]}})
            out.append({'k': 'ctor', 'name': 'xyc', 'args': {'xyc': [p + [sp] for p in pts]}})
            out.append({'k': 'fmt', 'env': dict(base, curves=sp)})
        out.append({'k': 'fmt', 'env': dict(base, curves=sp if is_listspec(sp) else [sp])})
    # xyc / pairs: ties in time (stable order), zero times / levels / curves, one and zero points
    tie = [[['I', '1'], ['I', '5'], ['N', 'sin']], [['I', '0'], ['I', '3'], ['I', '0']], [['F', '1'], ['I', '4'], ['N', 'hold']],
           [['I', '0'], ['I', '2'], ['F', '0']], [['I', '1'], ['I', '1'], ['I', '2']]]
    for m in range(0, 6):
        out.append({'k': 'ctor', 'name': 'xyc', 'args': {'xyc': tie[:m]}})
        for cs in (None, ['I', '0'], ['F', '0'], ['N', 'sin'], [p[2] for p in tie[:m]]):
            out.append({'k': 'ctor', 'name': 'pairs', 'args': {'pairs': [p[:2] for p in tie[:m]], 'curves': cs}})
    # evaluation: no segment, one segment, at 0 / breakpoints / end / beyond / before the offset
    for lv, tm, cv, off in (([['I', '3']], None, ['N', 'lin'], 'absent'),
                            ([['I', '3'], ['I', '-1']], [['I', '2']], ['N', 'lin'], 'absent'),
                            ([['I', '3'], ['I', '-1']], [['I', '2']], ['N', 'step'], ['F', '1/2']),
                            ([['I', '0'], ['I', '1'], ['I', '0']], [['I', '0'], ['I', '1']], ['N', 'lin'], 'absent'),
                            ([['I', '0'], ['I', '1'], ['I', '4']], [['I', '1'], ['I', '0']], ['N', 'hold'], ['I', '1']),
                            ([['I', '0'], ['I', '1'], ['I', '4']], [['I', '0'], ['I', '0']], ['N', 'lin'], 'absent')):
        out.append({'k': 'at', 'env': {'levels': lv, 'times': tm, 'curves': cv, 'rel': None, 'loop': None, 'offset': off},
                    'ts': ['-1', '0', '1/2', '1', '3/2', '2', '5/2', '3', '4']})
    return out


FALSY = [0, 0.0, -0.0, False]


def raw_cases():
    """type-exact sweep (Python reference harness/oracles/envgen_layout.reference_formats): every optional
    argument of Env(...) and of every constructor given EXPLICITLY as 0, 0.0, -0.0, False (and '', [])"""
    out = []
    base = {'levels': [0, 1, 0.5], 'times': [1, 2], 'curves': 'lin', 'release_node': None, 'loop_node': None, 'offset': 0}
    def env(**kw):
        out.append({'k': 'raw', 'name': None, 'pos': [], 'kw': dict(base, **kw)})
    for v in FALSY:
        env(levels=[v, 1]); env(levels=[1, v, v]); env(times=v); env(times=[v]); env(times=[v, 1]); env(curves=v)
        env(curves=[v, 'sin']); env(release_node=v); env(loop_node=v); env(release_node=v, loop_node=v); env(offset=v)
        out.append({'k': 'raw', 'name': None, 'pos': [[v, 1, 2], v, v, v, v, v], 'kw': {}})
    env(levels=None); env(levels=[]); env(times=None); env(times=[]); env(curves=''); env(curves=[]); env(curves=['']); env(offset=None)
    out.append({'k': 'raw', 'name': None, 'pos': [], 'kw': {}})
    from oracles import envgen_layout as ref
    for name, d in ref.DEFAULTS.items():
        nums = [k for k, v in d.items() if isinstance(v, (int, float)) and not isinstance(v, bool)]
        for v in FALSY:
            for k in d:
                if name == 'step' and k in ('levels', 'times'):
                    continue
                if name == 'cutoff' and k == 'curve' and isinstance(v, bool):
                    pass
                out.append({'k': 'raw', 'name': name, 'pos': [], 'kw': {k: v}})
            if nums:
                out.append({'k': 'raw', 'name': name, 'pos': [], 'kw': {k: v for k in nums}})
            if name == 'step':
                out.append({'k': 'raw', 'name': 'step', 'pos': [], 'kw': {'levels': [v], 'times': [v], 'release_level': 1}})
                out.append({'k': 'raw', 'name': 'step', 'pos': [[v, 1], [1, v], v, v, v], 'kw': {}})
        out.append({'k': 'raw', 'name': name, 'pos': [], 'kw': {}})
    out.append({'k': 'raw', 'name': 'step', 'pos': [], 'kw': {'levels': [], 'times': [], 'release_level': 1}})
    for v in FALSY:
        out.append({'k': 'raw', 'name': 'xyc', 'pos': [[[1, 2, 'sin'], [v, v, v], [2, 1, 'lin']]], 'kw': {}})
        out.append({'k': 'raw', 'name': 'pairs', 'pos': [[[1, 2], [v, v], [2, 1]], v], 'kw': {}})
        out.append({'k': 'raw', 'name': 'pairs', 'pos': [[[1, 2], [v, v]]], 'kw': {'curves': [v, v]}})
    out.append({'k': 'raw', 'name': 'pairs', 'pos': [[[1, 2], [0, 0]]], 'kw': {'curves': ''}})
    out.append({'k': 'raw', 'name': 'pairs', 'pos': [[[1, 2], [0, 0]]], 'kw': {'curves': []}})
    out.append({'k': 'raw', 'name': 'pairs', 'pos': [[]], 'kw': {}})
    out.append({'k': 'raw', 'name': 'xyc', 'pos': [[]], 'kw': {}})
    return out


def g_hist(rng):
    """one Env object read, modified through its public attributes / duration / range, copied, read again"""
    n = rng.randint(1, 4)
    def lvls():
        l = [['F', str(Fraction(rng.randint(0, 16), 4))] for _ in range(n + 1)]
        l[rng.randrange(n + 1)] = ['I', '0']
        l[rng.randrange(n + 1)] = ['I', '4']
        return l
    def tms():
        return [rng.choice([['I', '1'], ['I', '2'], ['F', '1/2'], ['I', '4']]) for _ in range(n)]
    def cvs():
        return rng.choice([['N', 'lin'], ['N', 'step'], ['N', 'hold'], [rng.choice([['N', 'lin'], ['N', 'hold'], ['I', '0']]) for _ in range(n)]])
    env = {'levels': lvls(), 'times': tms(), 'curves': cvs(), 'rel': rng.choice([None, 0, 1]), 'loop': rng.choice([None, 0]),
           'offset': rng.choice(['absent', ['F', '1/2']])}
    ops = []
    for _ in range(rng.randint(1, 5)):
        r = rng.random()
        if r < 0.15:
            ops.append(['set', 'levels', lvls()])
        elif r < 0.3:
            ops.append(['set', 'times', tms()])
        elif r < 0.4:
            ops.append(['set', 'curves', cvs()])
        elif r < 0.5:
            ops.append(['set', rng.choice(['release_node', 'loop_node']), rng.choice([None, 0, 1])])
        elif r < 0.58:
            ops.append(['set', 'offset', rng.choice([['I', '0'], ['F', '1/4'], ['I', '1']])])
        elif r < 0.75:
            ops.append(['duration', rng.choice([['I', '2'], ['F', '1/2'], ['I', '8'], ['F', '3']])])
        elif r < 0.9:
            ops.append([rng.choice(['range', 'range', 'curverange']), ['I', str(rng.randint(-2, 1))], ['I', str(rng.randint(2, 8))]])
        else:
            ops.append(['copy', rng.choice(['copy', 'deepcopy'])])
    return {'k': 'hist', 'env': env, 'ops': ops, 'ts': ['0', '1/2', '1', '3', '100']}


_E = {'levels': [['I', '0'], ['I', '1'], ['I', '0']], 'times': [['I', '1'], ['I', '2']], 'curves': ['N', 'lin'],
      'rel': None, 'loop': None, 'offset': 'absent'}
HIST_FIXED = [
    {'k': 'hist', 'env': _E, 'ops': [['duration', ['I', '6']]], 'ts': ['0', '1', '2']},
    {'k': 'hist', 'env': _E, 'ops': [['set', 'levels', [['I', '5'], ['I', '6'], ['I', '7']]]], 'ts': ['0', '1']},
    {'k': 'hist', 'env': _E, 'ops': [['range', ['I', '0'], ['I', '10']]], 'ts': ['0', '1']},
    {'k': 'hist', 'env': _E, 'ops': [['set', 'times', [['I', '4'], ['I', '4']]], ['set', 'curves', ['N', 'hold']]], 'ts': ['0', '1', '5']},
    {'k': 'hist', 'env': _E, 'ops': [['copy', 'copy'], ['set', 'release_node', 1], ['set', 'offset', ['I', '1']]], 'ts': ['0', '1']},
]


EVAL_LAWS = ['env_at_breakpoints', 'env_at_between_neighbours', 'env_at_holds_last', 'env_at_monotone', 'env_at_reference']


def evaluation_laws(ctx, c):
    """model-free part of the tie, run on EVERY check: the evaluation laws and an independent float
    reference on the real Env._at for every shape name and numeric curve, inside rising and falling segments"""
    res = ctx.impl('c19_laws', {'laws': EVAL_LAWS, 'seed': ctx.seed, 'n_mixed': ctx.n(60, 600)})
    c.count('evaluation_law_probes_run', 1)
    seen = set()
    for b in res['bad']:
        sig = next((s for f, s in SIGNATURES if f(b)), 'C19:%s' % b['law'])
        if sig in seen:
            continue
        seen.add(sig)
        c.failures.append(Failure('correspondence', 'law %s fails on the implementation: %s -> %s, expected %s (%s)' % (
            b['law'], b['call'], b['got'], b['expected'], b['why']), signature=sig, replay=b, found_input=True, theorem=b['law']))


def cexpected_chans(o):
    if isinstance(o, dict):
        e = o['err']
        return '(Err %s)' % (e if e in ERRS else 'OtherError')
    return '(Ok %s)' % clist([clist(['(%s, %s, %s)%%Z' % (t, n if int(n) >= 0 else '(%s)' % n, d) for t, n, d in ch]) for ch in o])


def multichannel_correspondence(ctx, c, mc, mc_out):
    items = []
    for k, o in zip(mc, mc_out):
        term = cmenv(k['env'])
        ats = ' && '.join('mc_at_agrees (mc_env_at %s %s) %s' % (term, cq(Fraction(t)), cexpected(v)) for t, v in zip(k['ts'], o['at']))
        items.append('(mc_fmt_agrees (mc_envgen_format %s) %s && %s)' % (term, cexpected_chans(o['chans']), ats or 'true'))
        c.count('kind:multichannel')
        if not isinstance(o['chans'], dict):
            c.count('channels:%d' % len(o['chans']))
            if len(o['chans']) > 1:
                c.nontriv(('mc', k['env']))
    bad, errs = fw.check_shards(ctx, 'mc', HEADER, items, 'Eval vm_compute in bad_idx (fun b => b) cases.', shard=60)
    for e in errs:
        c.failures.append(Failure('correspondence', 'coq evaluation of multichannel cases failed: ' + e[-1200:]))
    for i in bad[:3]:
        c.failures.append(Failure('correspondence', 'multichannel: model/Env.v (mc_envgen_format / mc_env_at) and the implementation disagree on %s: impl=%s' % (
            json.dumps(mc[i])[:600], json.dumps(mc_out[i])[:600]), replay={'case': mc[i], 'impl': mc_out[i]}))
    c.evaluations_mc = len(mc)


def python_level_checks(c, cases, out, raw, raw_out, hist, hist_out):
    """checks that need no model: the caller's arguments are not modified, the same arguments give the same
    envelope twice, EnvGen / IEnvGen / node-argument sites see the arrays of the same object, explicit
    falsy values are taken as given (type-exact reference), a used and modified object encodes and
    evaluates like a new object with the same attributes"""
    seen = set()
    def fail(sig, text, replay):
        if sig not in seen:
            seen.add(sig)
            c.failures.append(Failure('correspondence', text, signature=sig, replay=replay, found_input=True))
    for k, o in zip(cases, out):
        if k['k'] not in ('fmt', 'ctor'):
            continue
        what = 'Env.%s(**%s)' % (k['name'], json.dumps(k['args'])) if 'name' in k else 'Env(%s)' % json.dumps(k['env'])
        if o.get('args_unchanged') is False:
            sig = 'C19:pairs_mutates_caller' if k.get('name') == 'pairs' else 'C19:ctor_mutates_caller:%s' % k.get('name', 'Env')
            fail(sig, '%s modifies the lists passed by the caller' % what[:400], {'case': k, 'impl': o})
        if 'again' in o and o['again'] != o['env']:
            sig = 'C19:pairs_mutates_caller' if k.get('name') == 'pairs' else 'C19:ctor_not_repeatable:%s' % k.get('name', 'Env')
            fail(sig, 'calling %s a second time with the same argument objects gives %s instead of %s' % (
                what[:400], json.dumps(o['again'])[:200], json.dumps(o['env'])[:200]), {'case': k, 'impl': o})
        st = o.get('sites')
        if st is not None:
            c.count('ugen_sites_compared')
            if 'err' in st:
                fail('C19:sites_raise', 'EnvGen/IEnvGen built from %s raised %s' % (what[:300], st['err']), {'case': k, 'impl': o})
            else:
                for site, want in (('ugen_in', 'env'), ('ugen_in2', 'env'), ('ctl', 'env'), ('iugen_in', 'ienv')):
                    if st[site] != o[want]:
                        fail('C19:site:' + site, '%s: %s receives %s but the envelope encodes as %s' % (
                            what[:300], site, json.dumps(st[site])[:200], json.dumps(o[want])[:200]), {'case': k, 'impl': o})
    from oracles import envgen_layout as ref
    for k, o in zip(raw, raw_out):
        want = ref.reference_formats(k.get('name'), k.get('pos', []), k.get('kw', {}))
        c.count('falsy_sweep_cases')
        for key in ('env', 'ienv'):
            if o.get(key) != want[key]:
                call = 'Env%s(*%r, **%r)' % ('.' + k['name'] if k.get('name') else '', k.get('pos', []), k.get('kw', {}))
                fail('C19:explicit_value:%s:%s' % (k.get('name') or 'Env', key),
                     '%s %s = %s, expected (explicit values taken as given, type-exact) %s' % (
                         call, '_envgen_format' if key == 'env' else '_interpolation_format',
                         json.dumps(o.get(key))[:400], json.dumps(want[key])[:400]), {'case': k, 'impl': o, 'expected': want})
    for k, o in zip(hist, hist_out):
        c.count('object_histories')
        for i, st in enumerate(o.get('steps', [])):
            if st.get('unchanged_original') is False:
                fail('C19:range_modifies_original', 'range()/curverange() changed the envelope it was called on: %s' % json.dumps(k)[:500],
                     {'case': k, 'impl': o})
            fr = st.get('fresh')
            if fr is None or 'ctor' in fr:
                continue
            for key in ('env', 'ienv', 'at'):
                if st[key] != fr[key]:
                    fail('C19:stale_format_cache',
                         'after %s the envelope %s %s but a new Env with the same attributes %s gives %s (history %s)' % (
                             json.dumps(st['op']), {'env': 'encodes as', 'ienv': 'encodes (IEnvGen) as', 'at': 'evaluates to'}[key],
                             json.dumps(st[key])[:200], json.dumps(st['attrs'])[:200], json.dumps(fr[key])[:200], json.dumps(k)[:400]),
                         {'case': k, 'step': i, 'impl': o})


# --------------------------------------------------------------------------- correspondence
HEADER = ('From Coq Require Import ZArith QArith String List Bool. Import ListNotations.\n'
          'Require Import SC3.lib.PyNum SC3.model.Env.\nOpen Scope string_scope.\n')


def parse_lists(out):
    res = []
    for m in re.finditer(r'=\s*\[(.*?)\]\s*:\s*list nat', out, re.S):
        body = m.group(1).strip()
        res.append([int(x.replace('%nat', '').strip()) for x in body.split(';')] if body else [])
    return res


def correspond(ctx):
    c = Corr()
    rng = ctx.rng
    cases = []
    corpus = os.path.join(fw.VERIF, 'corpus', 'C19_cases.json')
    if os.path.exists(corpus):
        cases += json.load(open(corpus))
    # every documented name, alone, and every constructor with its documented defaults
    for nm in DOC_NAMES:
        cases.append({'k': 'fmt', 'env': {'levels': [['I', '0'], ['I', '1']], 'times': [['I', '1']], 'curves': ['N', nm],
                                          'rel': None, 'loop': None, 'offset': 'absent'}})
    for nm in DEFAULTS:
        cases.append({'k': 'ctor', 'name': nm, 'args': {}})
    cases += sweep_cases()
    cases += [{'k': 'fmt', 'env': g_env(rng)} for _ in range(ctx.n(500, 6000))]
    cases += [g_ctor(rng) for _ in range(ctx.n(400, 5000))]
    cases += [g_at(rng) for _ in range(ctx.n(500, 6000))]
    for i, k in enumerate(cases):            # EnvGen / IEnvGen / node-argument sites from the same object
        if k['k'] in ('fmt', 'ctor') and (i % ctx.n(3, 2) == 0 or i < 400):
            k['sites'] = True
    mc = MC_FIXED + [g_mc(rng) for _ in range(ctx.n(250, 3000))]
    raw = raw_cases()
    hist = HIST_FIXED + [g_hist(rng) for _ in range(ctx.n(150, 1500))]
    res = ctx.impl('c19_env', {'cases': cases + raw + hist + mc})
    mc_out = res['out'][len(cases) + len(raw) + len(hist):]
    out, eps = res['out'][:len(cases)], res['eps']
    eps_t = ['F', '%s/%s' % (eps[1], eps[2])]
    python_level_checks(c, cases, out, raw, res['out'][len(cases):len(cases) + len(raw)],
                        hist, res['out'][len(cases) + len(raw):len(cases) + len(raw) + len(hist)])
    multichannel_correspondence(ctx, c, mc, mc_out)
    evaluation_laws(ctx, c)

    items, live = [], []
    for k, o in zip(cases, out):
        term = cctor(k['name'], k['args'], eps_t) if 'name' in k else cenv(k['env'])
        if k['k'] in ('fmt', 'ctor'):
            if 'ctor' in o:                       # the constructor itself raised
                items.append('(env_fmt_agrees %s envgen_format %s, 1%%nat)' % (term, cexpected(o['env'])))
                c.count('error:' + o['env']['err'])
            else:
                if o['repeat'] != o['env']:
                    c.failures.append(Failure('correspondence', 'second call of _envgen_format() differs from the first',
                                              replay={'case': k, 'impl': o}))
                if dyadic_case(k):
                    items.append('(env_fmt_agrees %s envgen_format %s && env_fmt_agrees %s interpolation_format %s, 1%%nat)' % (
                        term, cexpected(o['env']), term, cexpected(o['ienv'])))
                else:       # a documented default such as 0.01 is not dyadic: the float sum of the times is not the exact sum
                    items.append('(env_fmt_agrees %s envgen_format %s, 1%%nat)' % (term, cexpected(o['env'])))
                    c.count('interpolation_total_not_compared(non-dyadic default)')
                if isinstance(o['env'], dict):
                    c.count('error:' + o['env']['err'])
                else:
                    c.count('segments:%d' % ((len(o['env']) - 4) // 4))
                    if len(o['env']) > 4:
                        c.nontriv((k.get('name'), k.get('args'), k.get('env')))
            c.count('kind:' + (k['k'] if k['k'] == 'fmt' else 'ctor:' + k['name']))
        else:
            pairs = ['(%s, %s)' % (cq(Fraction(t)), cexpected1(v)) for t, v in zip(k['ts'], o['at'])]
            items.append('(at_all_agree %s %s, at_count_exact %s %s)' % (term, clist(pairs), term, clist(pairs)))
            c.count('kind:at')
            c.count('at_evaluations', len(pairs))
        live.append((k, o))
    body = ('Eval vm_compute in bad_idx (fun c => fst c) cases.\n'
            'Eval vm_compute in map snd cases.')
    bad, exact_counts = [], []
    for rc, txt, base in ctx.coq_shards('env', HEADER, items, body, shard=150):
        lists = parse_lists(txt) if rc == 0 else []
        if rc != 0 or len(lists) != 2:
            c.failures.append(Failure('correspondence', 'coq evaluation of envelope cases failed: ' + txt[-1500:]))
            continue
        bad.extend(base + i for i in lists[0])
        exact_counts.extend((base + i, n) for i, n in enumerate(lists[1]))
    n_exact = 0
    for i, n in exact_counts:
        k = cases[i]
        if k['k'] == 'at':
            n_exact += n
            if n:
                c.nontriv(('at', k['env']))
    c.count('at_evaluations_exact_in_model', n_exact)
    c.evaluations = len(cases) + len(raw) + len(hist) + len(mc)
    c.rule = ('Env(...)._envgen_format() and _interpolation_format() on generated level/time/curve lists (names, numbers, mixed, '
              'shorter/longer than the segment count, empty, invalid names, release/loop nodes, offsets), every constructor with dyadic '
              'parameters and with its documented defaults, and Env._at(t) on a grid of times (breakpoints, inside segments, before the '
              'offset, after the end), compared exactly (type and value, exceptions as an enum) with model/Env.v evaluated by vm_compute. '
              'Deterministic sweeps: explicit int/float zeros for every optional argument, list lengths below/at/above the segment count with distinct entries, ties in xyc/pairs. '
              'Without a model (Python level, exact): type-exact falsy sweep (0, 0.0, -0.0, False, empty string/list for every argument of Env and of every constructor) against the reference harness/oracles/envgen_layout.reference_formats; '
              'the caller\'s argument lists unchanged and reusable; EnvGen.kr / EnvGen.ar / IEnvGen.kr inputs and _as_control_input of the SAME object equal to its arrays; '
              'object histories (attribute assignment, duration setter, range/curverange, copy) compared step by step with a new Env built from the current attributes. '
              'non-trivial = a format with at least one segment, or an evaluation case on which the model computed at least one exact value')
    c.samples = [{'case': k, 'impl': o} for k, o in live[len(DOC_NAMES):len(DOC_NAMES) + 3]] + \
                [{'case': k, 'impl': o} for k, o in live[-2:]]
    c.count('disagreements', len(bad))
    classes = {}
    for i in bad:
        k = cases[i]
        sig = classify(k, out[i])
        cl = sig or ('ctor:' + k['name'] if 'name' in k else k['k'] + ':' + json.dumps(k['env']['curves'] if k['k'] == 'at' else ''))
        classes.setdefault(cl, (i, sig))
    for i, sig in sorted(classes.values())[:8]:
        k = shrink(ctx, cases[i], eps_t)
        o = ctx.impl('c19_env', {'cases': [k]})['out'][0]
        c.failures.append(Failure('correspondence', 'model/Env.v and the implementation disagree on %s: impl=%s' % (
            json.dumps(k)[:600], json.dumps(o)[:600]), replay={'case': k, 'impl': o}, signature=sig))
    return c


def classify(k, o):
    """signature of a disagreement that is explained by one of the defects this check has found before
    (the law probe of search() reports the same signature with a minimal input)"""
    def curve_names(c):
        cs = c if is_listspec(c) else [c]
        return {x[1] for x in cs if x[0] == 'N'}
    def has_negative(lv):
        return any(Fraction(x[1]) < 0 for x in (lv or []))
    if k['k'] == 'at' and 'env' in k:
        names, neg = curve_names(k['env']['curves']), has_negative(k['env']['levels'])
        if neg and names & {'squared', 'sqr'}:
            return 'C19:sqr_negative_levels'
        if neg and names & {'cub', 'cubed', 'exp', 'exponential'}:
            return 'C19:pow_sign_cub'
    if k.get('name') == 'step' and 'release_level' not in k['args'] and isinstance(o.get('env'), dict) \
            and o['env'].get('err') == 'TypeError':
        return 'C19:step_default_release'
    js = json.dumps(k)
    if '"sqr"' in js and isinstance(o.get('env'), dict) and o['env'].get('err') == 'ValueError':
        return 'C19:shape_name_sqr'
    return None


def disagrees(ctx, k, eps_t):
    o = ctx.impl('c19_env', {'cases': [k]})['out'][0]
    term = cctor(k['name'], k['args'], eps_t) if 'name' in k else cenv(k['env'])
    if k['k'] == 'at':
        pairs = ['(%s, %s)' % (cq(Fraction(t)), cexpected1(v)) for t, v in zip(k['ts'], o['at'])]
        t = 'negb (at_all_agree %s %s)' % (term, clist(pairs))
    elif 'ctor' in o:
        t = 'negb (env_fmt_agrees %s envgen_format %s)' % (term, cexpected(o['env']))
    else:
        t = 'negb (env_fmt_agrees %s envgen_format %s && env_fmt_agrees %s interpolation_format %s)' % (
            term, cexpected(o['env']), term, cexpected(o['ienv']))
    rc, txt = ctx.coq('shrink', HEADER + 'Eval vm_compute in %s.' % t, timeout=120)
    return rc == 0 and re.search(r'=\s*true', txt) is not None


def shrink(ctx, k, eps_t, budget=12):
    """greedy: fewer evaluation times, then fewer levels"""
    k = json.loads(json.dumps(k))
    try:
        if k['k'] == 'at':
            for t in list(k['ts']):
                if budget <= 0:
                    break
                budget -= 1
                cand = dict(k, ts=[t])
                if disagrees(ctx, cand, eps_t):
                    k = cand
                    break
        if 'env' in k and k['env'].get('levels'):
            while budget > 0 and len(k['env']['levels']) > 2:
                budget -= 1
                cand = json.loads(json.dumps(k))
                cand['env']['levels'] = cand['env']['levels'][:-1]
                if disagrees(ctx, cand, eps_t):
                    k = cand
                else:
                    break
    except Exception:
        pass
    return k


# --------------------------------------------------------------------------- search
SIGNATURES = [
    (lambda b: b['law'] == 'shape_numbers_match_server' and "'sqr'" in b['call'], 'C19:shape_name_sqr'),
    (lambda b: b['law'].startswith('env_at') and ("'cub'" in b['call'] or "'cubed'" in b['call']), 'C19:pow_sign_cub'),
    (lambda b: b['law'].startswith('env_at') and ("'squared'" in b['call'] or "'sqr'" in b['call']), 'C19:sqr_negative_levels'),
    (lambda b: b['law'] == 'ctor_breakpoints' and b['call'].startswith('Env.step(') and 'TypeError' in b['got'], 'C19:step_default_release'),
]


def search(ctx, failures):
    """Probe the property's laws directly on the implementation (independent oracle)."""
    res = ctx.impl('c19_laws', {'laws': [], 'seed': ctx.seed, 'n_layout': ctx.n(300, 3000), 'n_ctor': ctx.n(20, 200)})
    found, seen = [], set()
    for b in res['bad']:
        sig = next((s for f, s in SIGNATURES if f(b)), 'C19:%s' % b['law'])
        if sig in seen:
            continue                      # one report (the first = smallest input) per distinct cause
        seen.add(sig)
        found.append(Failure('search', 'law %s fails on the implementation: %s -> %s, expected %s (%s)' % (
            b['law'], b['call'], b['got'], b['expected'], b['why']),
            signature=sig, replay=b, found_input=True, theorem=b['law']))
    return found
