"""C20 -- Definition builds are deterministic, isolated and leave no residue."""
import json, os
import fw
from fw import Corr, Failure
from props import c01_common as cc

TITLE = 'Definition builds are deterministic, isolated and leave no residue'
TRANSLATED = ['Gen_opcodes']
MODEL_TARGETS = ['model/Graph.vo', 'model/BuildCtx.vo', 'gen/Gen_opcodes.vo']
ALLOWED_AXIOMS = []
TRUSTED = [
    'hand-written model coq/model/BuildCtx.v of main._current_synthdef / main._def_build_lock and coq/model/Graph.v of the graph compiler, '
    'tied to the code by the differential harness (harness/impl/c20_builds.py, c01_lib.py)',
    'CPython: threading.Lock mutual exclusion, the `with` statement releasing the lock, set/dict semantics',
    'UGen.__hash__ = hash((type, id)): full 64-bit hash collisions between two unit generators (which would make set membership call the overloaded ==) are not modelled',
]
ASSUMES = [
    'concurrent builds are serialised by main._def_build_lock, so a concurrent execution is one interleaving of whole builds (validated by the 4-thread runs, not proved: OS scheduling)',
    'a build started by the graph function of another build on the same thread (nested SynthDef(...) / sdef.add()) is outside the quantifier: with the non re-entrant lock it dead-locks (probed, reported as an observation)',
]

BASE_KINDS = ('BuildBase', 'SystemExit', 'GeneratorExit', 'KeyboardInterrupt', 'GraphFuncBase')

FAIL_PROGS = [
    {'ins': [['raise', 'exc']]},                                                                            # first statement, nothing created
    {'kr': ['0'], 'ir': ['1'], 'ins': [['raise', 'exc']]},                                                  # after the controls only
    {'ins': [['U', 'Saw', 'control', [['c', '1']]], ['raise', 'exc']]},                                   # graph function raises
    {'ins': [['U', 'Saw', 'control', [['c', '1']]], ['out', 'audio', ['c', '0'], [['v', 0, 0]]]]},          # input check fails
    {'ins': [['U', 'Saw', 'audio', [['c', '1']]], ['U', 'LPF', 'control', [['v', 0, 0], ['c', '3']]], ['out', 'control', ['c', '0'], [['v', 1, 0]]]]},
    {'kr': ['1'], 'ins': [['U', 'WhiteNoise', 'audio', []], ['bin', 'mul', ['v', 0, 0], ['p', 'kr', 0]], ['raise', 'exc']]},
]


def correspond(ctx):
    c = Corr()
    rc, out = cc.ensure_models(MODEL_TARGETS)
    if rc != 0:
        c.failures.append(Failure('correspondence', 'model files do not build: ' + out[-1200:]))
        return c
    nprog = ctx.n(36, 150)
    progs = [p for p in cc.SEED_PROGS if p['ins'][-1][0] != 'raise']
    progs += [cc.gen_prog(ctx.rng, ctx.rng.randint(3, ctx.n(14, 40))) for _ in range(nprog)]
    payload = {'progs': progs, 'fail_progs': FAIL_PROGS, 'threads': 4, 'rounds': ctx.n(1, 3)}
    seeds = ctx.n(['0', '1', '4242'], ['0', '1', '2', '3', '77', '4242', '65535', '123456789'])
    runs = [('nrt', s) for s in seeds] + [('rt', seeds[1])]
    results = {}
    for k_, (mode, hs) in enumerate(runs):
        try:
            results[(mode, hs)] = ctx.impl('c20_builds', dict(payload, order=k_), mode=mode, hashseed=hs, timeout=600)
        except fw.ImplError as e:
            if 'exported buffers' in str(e) or 'rc=-11' in str(e):
                if not any(f.signature == 'C20:gc-segfault-as-bytes' for f in c.failures):
                    c.failures.append(Failure('correspondence',
                                              'the interpreter crashed in the garbage collector while definitions whose as_bytes() had been taken were '
                                              'collected (SynthDef.as_bytes keeps stream.getbuffer()): %s' % ' '.join(str(e)[-300:].split()),
                                              replay={'mode': mode, 'hashseed': hs,
                                                      'repro': "for n in range(200): sd = SynthDef('a%d' % n, lambda: Out.ar(0, Saw.ar(3) * 2)); "
                                                               "b = bytes(sd.as_bytes()); del sd\ngc.collect()"},
                                              found_input=True, signature='C20:gc-segfault-as-bytes', theorem='failed_build_no_residue'))
                continue
            c.failures.append(Failure('correspondence', 'C20 runner failed in mode %s hashseed %s: %s' % (mode, hs, str(e)[-800:]),
                                      replay={'mode': mode, 'hashseed': hs}))
    if not results:
        return c
    ref_key = sorted(results)[0]
    ref = results[ref_key]
    if ref.get('catalogue_bad'):
        c.failures.append(Failure('correspondence', 'UGen catalogue facts no longer hold: %s' % ref['catalogue_bad'],
                                  replay={'catalogue': ref['catalogue_bad']}))
    nbuilds = 0
    # ---- determinism: every build of prog i, in every phase, thread, hash seed and mode gives the same bytes
    for i, p in enumerate(progs):
        allb = {}
        for key, r in results.items():
            for k, b in enumerate(r['progs'][i]['bytes']):
                allb.setdefault(b, []).append((key, k))
                nbuilds += 1
        c.count('prog:' + ('fails' if next(iter(allb)).startswith('FAIL') else 'builds'))
        if len(allb) != 1:
            import hashlib
            kinds = {hashlib.sha1(b.encode()).hexdigest()[:8] + ':' + b[:16]: v[:3] for b, v in allb.items()}
            c.failures.append(Failure('correspondence',
                                      'the same graph function built to different results: %s' % json.dumps(kinds, default=str),
                                      replay={'prog': p, 'variants': {b[:200]: v[:6] for b, v in allb.items()}},
                                      found_input=True, signature='C20:nondeterministic-bytes', theorem='arrange_independent_of_set_order'))
        else:
            if not next(iter(allb)).startswith('FAIL'):
                c.nontriv(('det', i, next(iter(allb))[:64]))
    names = sorted(set(n for r in results.values() for n in r.get('extras', {})))
    for name in names:
        allb = {}
        for key, r in results.items():
            for k, b in enumerate(r.get('extras', {}).get(name, [])):
                allb.setdefault(b, []).append((key, k))
                nbuilds += 1
        c.count('extra:' + name, sum(len(v) for v in allb.values()))
        only = next(iter(allb))
        if len(allb) == 1 and only.startswith('FAIL:') and not only.startswith('FAIL:SilentDrop'):
            c.count('extra-raises-consistently:' + name)      # a build that raises the same error in every history is an outcome
            c.notes.append('Python-level definition %r raises in every history: %s' % (name, only[:120]))
            continue
        if len(allb) != 1 or only.startswith(('FAIL', 'ERR')):
            kinds = {b[:60]: v[:3] for b, v in allb.items()}
            c.failures.append(Failure('correspondence',
                                      'the Python-level definition %r (harness/impl/c20_extras.py) built to different results or failed: %s'
                                      % (name, json.dumps(kinds, default=str)),
                                      replay={'extra': name, 'variants': {b[:200]: v[:6] for b, v in allb.items()}},
                                      found_input=True, signature='C20:nondeterministic-bytes', theorem='arrange_independent_of_set_order'))
        else:
            c.nontriv(('xdet', name, next(iter(allb))[:64]))
    if not names:
        c.failures.append(Failure('correspondence', 'the Python-level scenarios (c20_extras) did not run'))
    # ---- residue: context state after every phase, in every process
    reported = set()
    for key, r in results.items():
        for phase, st, outside in r['ctx']:
            if phase == 'aliasing':
                if not any(f.signature == 'C20:aliasing' for f in c.failures):
                    c.failures.append(Failure('correspondence',
                                              'two definitions share a mutable object that each of them owns (mode, hashseed = %s): %s' % (key, st),
                                              replay={'aliases': st, 'scenario': 'harness/impl/c20_builds.py phase 5c'},
                                              found_input=True, signature='C20:aliasing', theorem='failed_build_no_residue'))
                continue
            if phase == 'class-state':
                c.failures.append(Failure('correspondence',
                                          'class-level mutable state of the synth modules changed during %s (mode, hashseed = %s): added %s removed %s'
                                          % (st[0], key, st[1], st[2]), replay={'phase': st[0], 'added': st[1], 'removed': st[2]},
                                          found_input=True, signature='C20:class-state', theorem='failed_build_no_residue'))
                continue
            if phase in ('writer-result', 'library-use-error'):
                if phase == 'writer-result' and not str(st).startswith('ERR:'):
                    c.notes.append('writer did not raise for a 300-byte name: %s' % str(st)[:40])
                if phase == 'library-use-error':
                    c.notes.append('library-use phase: %s' % st)
                continue
            c.count('ctx-check:' + '-'.join(phase.split('-')[1:3]))
            if (st != [True, True] or outside is not True) and phase in reported:
                c.count('residue-repeated')
            elif st != [True, True] or outside is not True:
                reported.add(phase)
                base = phase.startswith('after-xfail-') and phase.split('-')[-1] in BASE_KINDS
                c.failures.append(Failure('correspondence',
                                          'residue %s (mode, hashseed = %s): _current_synthdef is None / lock free = %s, outside UGen has no def = %s%s'
                                          % (phase, key, st, outside,
                                             ' -- the graph function raised a BaseException that is not an Exception; SynthDef._build only resets the '
                                             'context in `except Exception:`' if base else ''),
                                          replay={'phase': phase, 'mode': key[0], 'hashseed': key[1], 'fail_progs': FAIL_PROGS, 'progs': progs[:3],
                                                  'scenario': 'harness/impl/c20_extras.py fails() ' + '-'.join(phase.split('-')[2:-1]) if phase.startswith('after-xfail-') else None},
                                          found_input=True, signature='C20:baseexception-residue' if base else 'C20:residue',
                                          theorem='ctx_released_on_every_path'))
            else:
                c.nontriv(('ctx', key, phase))
        kinds = dict((a, b) for a, b in r.get('reads', []))
        for label in ('newfrom_unregistered', 'add_unregistered', 'truncated', 'corrupt_classname'):
            if kinds.get(label) == 'ok':
                c.notes.append('description read %s did not raise in %s' % (label, key))
        if kinds.get('newfrom_good') not in (None, 'ok'):
            c.failures.append(Failure('correspondence', 'SynthDesc.new_from of a well-formed definition raised %s (%s)' % (kinds['newfrom_good'], key),
                                      replay={'mode': key[0], 'hashseed': key[1], 'reads': r.get('reads')}))
        if 'newfrom_unregistered' not in kinds:
            c.failures.append(Failure('correspondence', 'description-read phase did not run: %s' % r.get('reads'), replay={'reads': r.get('reads')}))
        if r['thread_errors']:
            c.failures.append(Failure('correspondence', 'thread phase failed (%s): %s' % (key, r['thread_errors'][:2]),
                                      replay={'mode': key[0], 'hashseed': key[1], 'errors': r['thread_errors'][:3]},
                                      found_input=True, signature='C20:threads', theorem='ctx_released_on_every_path'))
        # every failing scenario must fail; a scenario that builds is either a silent miscompilation or a harness error
        for name, kind, msg in r.get('xfails', []):
            c.count('xfail:%s:%s' % (name, kind))
            if kind == 'SilentDrop':
                c.failures.append(Failure('correspondence', 'a unit generator that belongs to another definition was used in a graph function: '
                                          'no error, and the definition lost its output unit (%s)' % msg,
                                          replay={'scenario': 'harness/impl/c20_extras.py _build_foreign', 'mode': key[0], 'hashseed': key[1], 'msg': msg},
                                          found_input=True, signature='C20:foreign-ugen-silent-drop', theorem='failed_build_no_residue'))
            elif kind == 'ok':
                c.failures.append(Failure('correspondence', 'failing scenario %r did not raise (%s)' % (name, key),
                                          replay={'scenario': name, 'mode': key[0], 'hashseed': key[1]}))
        if len(r.get('xfails', [])) < 20:
            c.failures.append(Failure('correspondence', 'the failing Python-level scenarios did not all run: %s' % r.get('xfails')))
        if r.get('args_before') != r.get('args_after') and not any(f.signature == 'C20:args-mutated' for f in c.failures):
            c.failures.append(Failure('correspondence',
                                      'build arguments shared between builds (rates lists, variants, metadata) were modified in place by a build: '
                                      'before %s after %s' % (r.get('args_before'), r.get('args_after')),
                                      replay={'before': r.get('args_before'), 'after': r.get('args_after'), 'scenario': 'harness/impl/c20_extras.py RATES/RATES4/VARIANTS/META'},
                                      found_input=True, signature='C20:args-mutated', theorem='failed_build_no_residue'))
        nb = r.get('nested') or {}
        if nb and not nb.get('finished'):
            note = ('observation (outside the quantifier): SynthDef(...) inside the graph function of another build dead-locks on the non re-entrant '
                    'main._def_build_lock (thread still blocked after 3 s)')
            if note not in c.notes:
                c.notes.append(note)
            c.known_demonstrated.append(('C20:nested-build-deadlock', note))
    # ---- the model: structure of every prog (reference process) and the context machine on the same event sequence
    items = ['(compile_flag T dce_strict dce_guard sub_guard %s, %s)' % (cc.cprog(p), cc.cresult(ref['progs'][i]['desc'])) for i, p in enumerate(progs)]
    body = 'Eval vm_compute in bad_idx (fun c => result_matches (fst c) (snd c)) cases.'
    bad, errs = fw.check_shards(ctx, 'c20', cc.HEADER, items, body, shard=40)
    for e in errs:
        c.failures.append(Failure('correspondence', 'coq evaluation of the graph model failed: ' + e))
    for i in bad[:5]:
        c.failures.append(Failure('correspondence', 'graph model and implementation disagree on the final structure of prog %d: impl=%s'
                                  % (i, json.dumps(ref['progs'][i]['desc'])[:500]),
                                  replay={'prog': progs[i], 'impl': ref['progs'][i]['desc']}))
    # BuildCtx on the sequence phase (1)+(2): builds and outside-ugen probes
    evs, expect = [], []
    n = 0
    for i in range(len(progs)):
        ok = ref['progs'][i]['desc']['ok']
        for _ in range(2):
            n += 1
            evs.append('EBuild %d [%d] %s' % (n, n, 'Succeeds' if ok else 'RaisesException'))
    evs.append('EOutside 0')
    for j in range(len(FAIL_PROGS)):
        n += 1
        evs.append('EBuild %d [%d] RaisesException' % (n, n))
        evs.append('EOutside 0')
    for name, kind, _ in ref.get('xfails', []):
        n += 1
        evs.append('EBuild %d [%d; %d] %s' % (n, n, n + 1000, 'Succeeds' if kind == 'ok' else 'RaisesBase' if kind in BASE_KINDS else 'RaisesException'))
        evs.append('EOutside 0')
    for label, kind in ref.get('reads', []):
        if label.startswith('build'):
            continue
        n += 1
        evs.append('ERead %d [%d] %s' % (n, n, 'Succeeds' if kind == 'ok' else 'RaisesException'))
        evs.append('EOutside 0')
    txt = ('From Coq Require Import List Bool. Import ListNotations.\nRequire Import SC3.model.BuildCtx SC3.gen.Gen_opcodes.\n'
           'Definition evs := [%s].\n'
           'Eval vm_compute in (let r := run build_finally desc_read_finally ctx0 evs in (cur (fst r), locked (fst r), '
           'forallb (fun o => match o with OOutside _ None => true | OOutside _ _ => false | OBlocked _ => false | _ => true end) (snd r))).\n'
           % '; '.join(evs))
    rc, out = ctx.coq('ctxrun', txt)
    if rc != 0 or '(None, false, true)' not in ' '.join(out.split()):
        c.failures.append(Failure('correspondence', 'BuildCtx model disagrees with the observed context on the build sequence: ' + out[-600:]))
    c.evaluations = nbuilds + len(progs)
    c.rule = ('generated graph functions (catalogue of 20 UGen classes, arithmetic with sharing, controls) are built by the real SynthDef: twice in a row, '
              'after failing builds (graph function raising, input check failing), from 4 threads at once interleaved with failing builds, after a '
              'writer error and after other use of the library, in NRT processes under several PYTHONHASHSEEDs and in an RT process; all as_bytes() '
              'of one graph function must be identical and the final structure must equal the model; after every phase _current_synthdef is None, '
              'the lock is free and a UGen created outside has no definition.  non-trivial = a prog that builds (bytes compared) or a context check that ran')
    c.samples = [{'prog': progs[i], 'builds_compared': sum(len(r['progs'][i]['bytes']) for r in results.values()),
                  'bytes_prefix': ref['progs'][i]['bytes'][0][:48]} for i in range(min(4, len(progs)))]
    c.count('processes', len(results))
    return c


def search(ctx, failures):
    """Direct probes on the implementation: rebuild determinism and residue after failing builds."""
    progs = [p for p in cc.SEED_PROGS if p['ins'][-1][0] != 'raise'][:8]
    found = []
    outs = {}
    for hs in ('0', '99'):
        try:
            outs[hs] = ctx.impl('c20_builds', {'progs': progs, 'fail_progs': FAIL_PROGS, 'threads': 4, 'rounds': 1}, hashseed=hs)
        except fw.ImplError:
            continue
    for i, p in enumerate(progs):
        bs = set(b for r in outs.values() for b in r['progs'][i]['bytes'])
        if len(bs) > 1:
            found.append(Failure('search', 'builds of one graph function differ: %s' % sorted(x[:40] for x in bs), signature='C20:nondeterministic-bytes',
                                 replay={'prog': p, 'variants': sorted(x[:200] for x in bs)}, found_input=True, theorem='arrange_independent_of_set_order'))
    for hs, r in outs.items():
        for phase, st, outside in r['ctx']:
            if phase in ('writer-result', 'library-use-error'):
                continue
            if phase in ('class-state', 'aliasing'):
                continue
            if st != [True, True] or outside is not True:
                base = phase.startswith('after-xfail-') and phase.split('-')[-1] in BASE_KINDS
                found.append(Failure('search', 'residue %s: context/lock %s, outside UGen without def %s' % (phase, st, outside),
                                     signature='C20:baseexception-residue' if base else 'C20:residue',
                                     replay={'phase': phase, 'fail_progs': FAIL_PROGS, 'hashseed': hs},
                                     found_input=True, theorem='ctx_released_on_every_path'))
    return found[:5]
