"""C05 -- logical time in routines is exact and independent of physical jitter."""
import json, os
from fractions import Fraction
import fw
from fw import Corr, Failure
from props import _kscript as K

TITLE = 'Logical time in routines is exact and independent of physical jitter'
TRANSLATED = []
MODEL_TARGETS = ['model/KProg.vo', 'model/KNrt.vo', 'model/KRt.vo', 'model/KCmp.vo']
ALLOWED_AXIOMS = []
TRUSTED = [
    'hand-written models coq/model/KProg.v KNrt.v KRt.v (tie: differential correspondence on script programs compiled to real generator functions: NRT exact event logs, RT replay of the recorded interleaving under injected jitter)',
    'floats modelled as rationals; correspondence uses dyadic deltas/latencies, power-of-two tempi and a physical clock quantised to 2^-16 s so every float operation of the run is exact',
    'CPython RLock/Condition give the atomicity of task wake-ups the RT transition system assumes',
]
ASSUMES = ['every clock task runs with the main RLock held (atomic wake-ups)',
           'RT AppClock is outside the statement (the library documents it has no logical time)',
           'Routine.play on a TempoClock is modelled with quant 0 (the default quant rounds up to the next whole beat)']

MINE = ('F20', 'F11')          # defects this property owns; F17 belongs to C07
QUIRK_OF = {0: 'F20', 1: 'F17', 2: 'F11'}


def labels(t):
    return [QUIRK_OF[i] for i in range(3) if t[i]]


def describe(label, p, o):
    mons = K.monitors(p, o) + K.score_monitors(p, o)
    for th, key, text in mons:
        if key == label:
            return th, text
    return None, 'model (repaired behaviour) and implementation disagree'


def nrt_part(ctx, c, n, own, other_note):
    rng = ctx.rng
    cases = [p for _, p in K.DEFECT_PROGS]
    corpus = os.path.join(fw.VERIF, 'corpus', '%s_programs.json' % ctx.pid)
    if os.path.exists(corpus):
        cases += json.load(open(corpus))
    for i in range(n):
        prof = 'mixed' if i % 3 else 'time'
        cases.append(K.gen_prog(rng, prof, malformed=(i % 5 == 4)))
    # scenario class: every (parent clock, child clock) pair, non-zero start, tempi != 1 and different
    for k in range(max(32, n // 4)):
        cases.append(K.gen_cross_prog(rng, k))
    # scenario class: ties (FIFO among equal times on one clock and across clocks, under tempo changes / re-timing)
    for k in range(max(16, n // 8)):
        cases.append(K.gen_ties_prog(rng, k))
    # scenario class: many routines pending on a clock that is re-timed several times (the scheduler queue fills with replaced entries)
    for k in range(max(30, n // 5)):
        cases.append(K.gen_retime_prog(rng))
    outs, bad, explain, errors = K.run_nrt_correspondence(ctx, cases, 'nrt')
    c.evaluations += len(cases)
    for p, o in zip(cases, outs):
        if 'fatal' in o:
            continue
        for e in o['events']:
            if e[0] == 'play' and e[1] is not None:
                par = next((x[3] for x in o['events'] if x[0] == 'resume' and x[1] == e[1][0]), None)
                if par is not None and Fraction(e[4]) != 0:
                    c.count('nrt:play %s<-%s at time>0' % (K.clock_name(e[3]), K.clock_name(par)))
        if any(e[0] == 'send' for e in o['events']):
            c.count('nrt:life of the session sending through address objects: %s' % p.get('addr', 'fresh'))
        nres = sum(1 for e in o['events'] if e[0] == 'resume')
        c.count('nrt:resumptions:%s' % ('0' if nres == 0 else '1-3' if nres <= 3 else '4-9' if nres <= 9 else '10+'))
        for e in o['events']:
            c.count('nrt:event:' + e[0])
        if nres >= 2:
            c.nontriv(('nrt', json.dumps(p, sort_keys=True)))
    for i, e in errors:
        c.failures.append(Failure('correspondence', 'NRT case %d could not be compared: %s' % (i, e[:600]),
                                  replay={'program': cases[i] if i >= 0 else None}))
    seen = set()
    for i in bad:
        t = K.classify(explain.get(i))
        if t is None:
            if 'unexplained' in seen and len([1 for x in seen if str(x).startswith('unexplained')]) >= 3:
                continue
            seen.add('unexplained'); seen.add('unexplained%d' % i)
            # the property statements checked directly on what the library did (no model)
            mons = K.monitors(cases[i], outs[i]) + K.score_monitors(cases[i], outs[i])
            if mons:
                th, _, text = mons[0]
                c.failures.append(Failure('correspondence', '%s fails on the real library (NRT): %s. Program: %s' % (th, text, json.dumps(cases[i])),
                                          theorem=th, found_input=True,
                                          replay={'program': cases[i], 'observed_events': outs[i]['events'], 'observed_score': outs[i]['score'],
                                                  'expected': text, 'all_monitor_findings': [m[2] for m in mons]}))
            else:
                c.failures.append(Failure('correspondence', 'NRT: the model reproduces the implementation under no variant: codes %s. Program: %s'
                                          % (explain.get(i), json.dumps(cases[i])),
                                          replay={'program': cases[i], 'implementation': outs[i]}))
            continue
        ls = labels(t)
        mine = [l for l in ls if l in own]
        if not mine:
            c.count('nrt:disagreement-owned-by-other-property:' + '+'.join(ls))
            continue
        for l in mine:
            if l in seen:
                continue
            seen.add(l)
            th, text = describe(l, cases[i], outs[i])
            c.failures.append(Failure(
                'correspondence',
                '%s on the real library (NRT): %s. Program: %s' % (l, text, json.dumps(cases[i])),
                signature=K.SIGNATURES[l], theorem=th, found_input=True,
                replay={'program': cases[i], 'observed_events': outs[i]['events'], 'observed_score': outs[i]['score'],
                        'observed_elapsed': outs[i]['elapsed'],
                        'how': 'SC3_MODE=nrt PYTHONPATH=$SC3_REPO:/verif/harness python harness/impl/c05_kscript.py <in.json with {"cases":[program]}> out.json',
                        'expected': text, 'model_variant_that_reproduces_it': dict(zip(('appclock_abs', 'tail_early', 'tempo_frozen'), t))}))
    return cases, outs


def rt_part(ctx, c, n):
    cases = [K.gen_prog(ctx.rng, 'rt') for _ in range(n - 2 * (n // 3))]
    # wake-up latency larger than the yielded deltas, on every RT wake-up loop
    cases += [K.gen_late_prog(ctx.rng) for _ in range(max(6, n // 6))]
    cases += [K.gen_cross_prog(ctx.rng, k, rt=True) for k in range(n // 3)]
    # routines ON a TempoClock change its tempo while running late, then yield and send with latency
    cases += [K.gen_rt_tempo_prog(ctx.rng) for _ in range(n // 3)]
    outs, codes = K.run_rt_correspondence(ctx, cases, 'rt', seed=ctx.seed)
    c.evaluations += len(cases)
    for p, o, code in zip(cases, outs, codes):
        if o.get('stuck'):
            c.failures.append(Failure('correspondence', 'RT: running this program the library did not give control back (%s): a clock thread or a lock is stuck '
                                      '(e.g. two clocks whose wake-ups are not serialised by one lock). Program: %s' % (o.get('what'), json.dumps(p)),
                                      theorem='kth_resume_time_rt', found_input=True, replay={'program': p}))
            break
        if o.get('lost_wakeup'):
            c.failures.append(Failure('correspondence', 'RT: %d of %d routines never ended and NO clock holds a wake-up for them (checked with the main lock '
                                      'held; not a matter of time or load): a yield was not re-scheduled. Program: %s'
                                      % (o['nrout'] - o['nended'], o['nrout'], json.dumps(p)), theorem='kth_resume_time', found_input=True,
                                      replay={'program': p, 'observed': o}))
            continue
        if code == -1:
            c.count('rt:not-completed-in-time (machine load); not compared')
            continue
        c.count('rt:wakeups:%d' % min(9, sum(1 for s in o['schedule'] if s[0] == 'wake')))
        c.nontriv(('rt', json.dumps(p, sort_keys=True)))
        for kind, lo, T, hi in o.get('top_bounds', []):
            c.count('rt:main-thread %s: time read checked against the harness own readings' % kind)
            if not (Fraction(lo) <= Fraction(T) <= Fraction(hi)):
                c.failures.append(Failure('correspondence', 'RT: a %s from the main thread used the time %s, but the physical clock read %s just before and %s '
                                          'just after the call (outside routines the current time is the physical time at the call). Program: %s'
                                          % (kind, T, lo, hi, json.dumps(p)), theorem='stamp_outside_is_now_plus_latency', found_input=True,
                                          replay={'program': p, 'bounds': o['top_bounds']}))
                break
        has_tempo = any(a[0] == 'T' for b in p['bodies'] for a in b)
        if has_tempo:
            c.count('rt:program changes a tempo from a routine (late by construction)')
        if code == 0 or (code == 3 and has_tempo):
            continue
        nrep = sum(1 for f in c.failures if f.what.startswith('RT: '))
        if nrep >= 2:
            c.count('rt:further disagreeing programs (not reported one by one)')
            continue
        what = {1: 'the recorded interleaving is not an execution of the RT model (a task ran that was not at the head of its clock queue)',
                2: 'logical times / timetags observed under jitter differ from the model replaying the same oracle',
                3: 'a task was woken before its scheduled time', -2: 'coq evaluation failed'}[code]
        c.failures.append(Failure('correspondence', 'RT: %s. Program: %s' % (what, json.dumps(p)),
                                  replay={'program': p, 'observed': o}, found_input=(code in (2, 3))))
    return cases, outs


def probe_part(ctx, c, only_ops=None, modes=('nrt', 'rt')):
    """Law probes with the harness's own oracle (no model): sched / defer / play / clock.beats = v / etempo issued from a
    routine on every kind of clock (started at a non-zero time, advanced by a yield, tempi != 1), NRT and RT under jitter."""
    for mode, n in (('nrt', ctx.n(len(K.probe_combos(False)), 600)), ('rt', ctx.n(len(K.probe_combos(True)), 120))):
        if mode not in modes:
            continue
        rt = mode == 'rt'
        probes = [K.gen_probe(ctx.rng, k, rt) for k in range(n)]
        if only_ops is not None:
            probes = [pr for pr in probes if pr['op'] in only_ops]
        env = {'SC3_LIB_PORT': str(59500 + (os.getpid() * 11 + ctx.seed) % 400)} if rt else None
        res = ctx.impl('c05_kscript', {'cases': [], 'probes': probes, 'seed': ctx.seed}, mode=mode, timeout=900, extra_env=env)['probes_out']
        c.evaluations += len(probes)
        reported = set()
        for pr, o in zip(probes, res):
            bad = K.probe_expected(pr, o)
            if bad is None:
                c.count('%s:probe not completed in time (machine load); not compared' % mode)
                continue
            c.count('%s:probe:%s %s<-%s' % (mode, pr['op'], K.clock_name(pr['target']), K.clock_name(pr['parent'])))
            c.nontriv(('probe', mode, json.dumps(pr, sort_keys=True)))
            if bad and (mode, pr['op']) not in reported:
                reported.add((mode, pr['op']))
                what, got, exp = bad[0]
                c.failures.append(Failure(
                    'correspondence', '%s: %s is %s, expected %s (all differences: %s). Probe: %s'
                    % (mode.upper(), what, got, exp, bad, json.dumps(pr)),
                    theorem='child_starts_at_parent_time' if pr['op'] in ('play', 'sched', 'defer') else 'kth_resume_time / stamp_is_logical_plus_latency',
                    found_input=True,
                    replay={'probe': pr, 'observed': o, 'differences': bad, 'mode': mode,
                            'how': 'SC3_MODE=%s PYTHONPATH=$SC3_REPO:/verif/harness python harness/impl/c05_kscript.py <in.json with {"cases":[],"probes":[probe]}> out.json' % mode}))


def generic_probe_part(ctx, c, key, outkey, gen, expected, sizes, theorem, label):
    """law probes with the harness's own oracle, NRT and RT; an uncompleted RT probe is counted, never failed"""
    for mode, n in sizes:
        rt = mode == 'rt'
        prs = [gen(ctx.rng, k, rt) for k in range(n)]
        res = ctx.impl('c05_kscript', {key: prs, 'seed': ctx.seed}, mode=mode, timeout=900)[outkey]
        c.evaluations += len(prs)
        nrep = 0
        for pr, o in zip(prs, res):
            bad = expected(pr, o, mode)
            if bad is None:
                c.count('%s:%s not completed in time (machine load); not compared' % (mode, label))
                continue
            c.count('%s:%s:%s' % (mode, label, pr.get('route', '') or ('host %s' % K.clock_name(pr['enders'][0]['clock']) if 'enders' in pr else '')))
            c.nontriv((label, mode, json.dumps(pr, sort_keys=True)))
            if bad and nrep < 2:
                nrep += 1
                what, got, exp = bad[0]
                c.failures.append(Failure(
                    'correspondence', '%s %s: %s is %s, expected %s. Probe: %s' % (mode.upper(), label, what, got, exp, json.dumps(pr)),
                    theorem=theorem, found_input=True,
                    replay={'probe': pr, 'observed': o, 'differences': bad, 'mode': mode, 'payload_key': key,
                            'how': 'SC3_MODE=%s PYTHONPATH=$SC3_REPO:/verif/harness python harness/impl/c05_kscript.py <in.json with {"%s":[probe]}> out.json' % (mode, key)}))


def multi_probe_part(ctx, c, specs):
    """several probe classes in ONE library process per mode (process start-up dominates the quick tier)
    specs: (key, outkey, gen, expected, {mode: n}, theorem, label)"""
    for mode in ('nrt', 'rt'):
        payload, gens = {'seed': ctx.seed}, []
        for key, outkey, gen, expected, sizes, theorem, label in specs:
            n = sizes.get(mode, 0)
            if n:
                prs = [gen(ctx.rng, k, mode == 'rt') for k in range(n)]
                payload[key] = prs
                gens.append((key, outkey, prs, expected, theorem, label))
        if not gens:
            continue
        allres = ctx.impl('c05_kscript', payload, mode=mode, timeout=900)
        for key, outkey, prs, expected, theorem, label in gens:
            res = allres.get(outkey, [])
            c.evaluations += len(prs)
            nrep = 0
            for pr, o in zip(prs, res + [{'fatal': 'not run: the runner stopped at a stuck item'}] * (len(prs) - len(res))):
                bad = expected(pr, o, mode)
                if bad is None:
                    c.count('%s:%s not completed in time (machine load); not compared' % (mode, label))
                    continue
                c.count('%s:%s:%s' % (mode, label, pr.get('route', '') or pr.get('host', '') or ''))
                c.nontriv((label, mode, json.dumps(pr, sort_keys=True)))
                if bad and nrep < 2:
                    nrep += 1
                    what, got, exp = bad[0]
                    c.failures.append(Failure(
                        'correspondence', '%s %s: %s is %s, expected %s. Probe: %s' % (mode.upper(), label, what, got, exp, json.dumps(pr)),
                        theorem=theorem, found_input=True,
                        replay={'probe': pr, 'observed': o, 'differences': bad, 'mode': mode, 'payload_key': key,
                                'how': 'SC3_MODE=%s PYTHONPATH=$SC3_REPO:/verif/harness python harness/impl/c05_kscript.py <in.json with {"%s":[probe]}> out.json' % (mode, key)}))


def alongside_part(ctx, c):
    generic_probe_part(ctx, c, 'alongside', 'alongside_out', K.gen_alongside, lambda pr, o, mode: K.alongside_expected(pr, o),
                       (('nrt', ctx.n(8, 80)), ('rt', ctx.n(8, 48))), 'kth_resume_time',
                       'survivors next to tasks that end or raise')


def correspond(ctx):
    c = Corr()
    cases, outs = nrt_part(ctx, c, ctx.n(150, 1500), MINE, None)
    rt_part(ctx, c, ctx.n(36, 270))
    probe_part(ctx, c)
    alongside_part(ctx, c)
    generic_probe_part(ctx, c, 'clockseq', 'clockseq_out', K.gen_clockseq, K.clockseq_expected,
                       (('nrt', ctx.n(24, 240)), ('rt', ctx.n(12, 96))), 'kth_resume_time', 'clock state changes then resumptions')
    c.rule = ('script programs (nested routines, yields, sends, tempo changes, plays across SystemClock/AppClock/TempoClocks) compiled to real '
              'generator functions; NRT: exact comparison of the whole event log (logical seconds and beats at every resumption, play instants, '
              'stamped bundles), of the score and of elapsed_time() with the model of the repaired behaviour, disagreements classified by the '
              'as-found variants; RT: replay of the recorded interleaving and clock readings (injected jitter + load) in the transition system, '
              'exact comparison. non-trivial = at least two resumptions (NRT) / completed under jitter (RT)')
    c.samples = [{'program': cases[i], 'resumptions': [e for e in outs[i]['events'] if e[0] == 'resume'][:6]} for i in range(3, min(6, len(cases)))]
    return c


def search(ctx, failures):
    """Monitors on the implementation (no model): sum of yields, child start, monotone, elapsed."""
    rng = ctx.rng
    cases = [p for _, p in K.DEFECT_PROGS] + [K.gen_prog(rng, 'mixed') for _ in range(ctx.n(150, 1500))]
    cases += [K.gen_cross_prog(rng, k) for k in range(ctx.n(32, 320))]
    outs = ctx.impl('c05_kscript', {'cases': cases}, mode='nrt')['out']
    found, seen = [], set()
    for p, o in zip(cases, outs):
        if 'fatal' in o:
            continue
        for th, key, text in K.monitors(p, o):
            sig = K.SIGNATURES.get(key) if key in MINE else None
            if (th, sig) in seen:
                continue
            seen.add((th, sig))
            found.append(Failure('search', '%s fails on the real library (NRT): %s. Program: %s' % (th, text, json.dumps(p)),
                                 signature=sig, theorem=th, found_input=True,
                                 replay={'program': p, 'observed_events': o['events'], 'observed_elapsed': o['elapsed'], 'expected': text}))
    return found
