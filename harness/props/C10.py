"""C10 -- real-time and non-real-time modes run the same program identically; seeded runs are deterministic."""
import json, os, copy
from fractions import Fraction
import fw
from fw import Corr, Failure, cz, cq, cnat, cbool, clist
from props import _kscript as K
from props._c10seed import seed_code, main_code, SEED_POOL

TITLE = 'Real-time and non-real-time modes run the same program identically'
TRANSLATED = []
MODEL_TARGETS = ['model/KProg.vo', 'model/KNrt.vo', 'model/KRt.vo', 'model/KCmp.vo', 'model/KRand.vo', 'model/KAgree.vo']
ALLOWED_AXIOMS = []
TRUSTED = [
    'hand-written models coq/model/KRand.v KAgree.v on top of KProg/KNrt/KRt (tie: script programs compiled to real generator functions; NRT: exact comparison of event log, logged values, score and elapsed time with the model; RT: replay of the recorded wake-up order in the transition system, and direct comparison RT run vs NRT run of the real library)',
    'random.Random is a deterministic function of its seed and of the calls made on it (the model quantifies over every such function; the correspondence instantiates it with a table computed on a plain random.Random outside sc3)',
    'floats modelled as rationals; dyadic deltas/latencies, power-of-two tempi, physical clock quantised to 2^-16 s: every float operation of a run is exact',
    'CPython RLock/Condition give the atomicity of task wake-ups the RT transition system assumes',
]
ASSUMES = ['a program is Routine(body 0).play(SystemClock): everything else (clocks, routines, conditions, seeds, sends) happens inside routines, so that real time has one start instant',
           'RT agreement is asserted for programs whose routines communicate (conditions, flow variables, shared generators, pause/resume, tempo changes) only inside a group (a routine played from another clock, or the root, and what it plays on its own clock): across clock threads the order of two wake-ups follows the physical time at which each thread runs',
           'main._m_rgen (the generator of the main thread, which rand_seed cannot seed) is seeded by the harness']

HEADER = ('From Coq Require Import ZArith QArith List Bool. Import ListNotations.\n'
          'Require Import SC3.lib.PyNum SC3.model.KProg SC3.model.KNrt SC3.model.KRt SC3.model.KCmp SC3.model.KRand SC3.model.KAgree.\n')
FUEL = 500
SIG_CROSS = 'C10:cross-clock-order-follows-physical-time'
SIG_DUP = 'C10:nrt-two-pending-wakeups-after-reschedule'
SIG_NEG = 'C10:task-before-score-start-not-sendable-in-nrt'
SIG_INF = 'C10:nrt-inf-delta-rescheduled'
SIG_NAN = 'C10:rt-nan-delta-stalls-clock'
# yielded values the clocks do not re-schedule on (inf = never; nan; not an int/float: None, str ..., but also Fraction, Decimal, other
# numbers.Real types such as numpy scalars, complex) / that are a zero delta
HANG_KINDS = ['inf', 'none', 'true', 'false', 'str', 'list', 'tuple', 'nan', 'frac', 'dec', 'real', 'cplx']
ZERO_KINDS = ['nzero', 'fzero', 'izero']
NREQ = 21


# ------------------------------------------------------------------ printers
def xact(a, p=None):
    k = a[0]
    if k == 'SB':          # the same list object sent again: for the model an ordinary send of that bundle
        t = p['shared'][a[1]]
        return '(XSend %s %s)' % (K.olat(t[0]), clist(t[1], K.elem))
    if k == 'Y':
        return '(XYield %s)' % K.q(a[1])
    if k == 'YV':          # yield of a value that is not a positive finite number
        return 'XHang' if a[1] in HANG_KINDS else '(XYield %s)' % K.q('0')
    if k == 'S':
        return '(XSend %s %s)' % (K.olat(a[1]), clist(a[2], K.elem))
    if k == 'P':
        return '(XPlay %d %s)' % (a[1], K.clock(a[2]))
    if k == 'F':
        return '(XFork %d)' % a[1]
    if k == 'T':
        return '(XSetTempo %d %s)' % (a[1], K.q(a[2]))
    if k == 'sb':
        return '(XSetBeats %d %s)' % (a[1], K.q(a[2]))
    if k == 'seed':
        return '(XSeed %s)' % cz(seed_code(a[1]))
    if k == 'D':
        return '(XDraw %s)' % cz(a[1])
    if k == 'W':
        return '(XWait %d)' % a[1]
    if k == 'sig':
        return '(XSignal %d)' % a[1]
    if k == 'test':
        return '(XSetTest %d %s)' % (a[1], cbool(a[2]))
    if k == 'fget':
        return '(XFlowGet %d)' % a[1]
    if k == 'fset':
        return '(XFlowSet %d %s)' % (a[1], cz(a[2]))
    if k == 'pause':
        return '(XPause %d)' % a[1]
    if k == 'resume':
        return '(XResume %d)' % a[1]
    if k == 'R':
        return 'XReturn'
    if k == 'raise':       # an exception raised by the body: for the model an action that fails (a wait on a condition that does not exist)
        return '(XWait 4999)'
    raise ValueError(a)


def xprog(p):
    return '(mkXP %s %s %d %d %s %s)' % (clist(p['tempos'], K.q), clist(p['bodies'], lambda b: clist(b, lambda a: xact(a, p))),
                                         p['nconds'], p['nflows'], cz(main_code(p['mseed'])), K.q(p['tail']))


def vevent(v):
    if v[0] == 'draw':
        return '(VDraw %d %d %d %s %s)' % (v[1], v[2], v[3], cz(v[4]), cz(v[5]))
    return '(VFlow %d %d %d %s)' % (v[1], v[2], v[3], 'None' if v[4] is None else '(Some %s)' % cz(v[4]))


def table(t):
    return '(%s : list (Z * list Z * Z * Z))' % clist(['(%s, (%s : list Z), %s, %s)' % (cz(s), clist(h, cz), cz(r), cz(v)) for s, h, r, v in t])


# ------------------------------------------------------------------ generator
TEMPI = ['1', '2', '1/2', '4']
DELTAS = ['0', '1/8', '1/4', '3/8', '1/2', '1', '1/16']


def gen_xprog(rng, profile):
    """profile: 'nrt' (anything, also communication across clocks), 'single' (SystemClock only),
    'groups' (several clocks; conditions, flow variables, shared generators, pause/resume and tempo
    changes only inside one GROUP = a routine played across clocks and what it plays on its own clock)"""
    rt = profile != 'nrt'
    ntempo = 0 if profile == 'single' else rng.choice([1, 1, 2])
    tempos = [rng.choice(TEMPI) for _ in range(ntempo)]
    clocks = ['S'] + [['T', i] for i in range(ntempo)]
    nb = rng.randint(2, 5)
    # a GROUP = a routine played across clocks (or the root) and what it plays on its own clock: in the
    # 'groups' profile only the members of one group communicate (the start of a group head is performed
    # by another clock's thread, so its order relative to the OTHER routines of its clock follows physical time)
    home, grp = ['S'], [0]
    for t in range(1, nb):
        if rng.random() < 0.45:
            grp.append(t)
            home.append(rng.choice(clocks))
        else:
            j = rng.randrange(t)
            grp.append(grp[j])
            home.append(home[j])
    nconds = rng.randint(0, 2)
    nflows = rng.choice([0, 1, 1, 2])
    cgrp = [rng.choice(grp) for _ in range(nconds)]
    fgrp = [rng.choice(grp) for _ in range(nflows)]
    scale = Fraction(1, 32) if rt else Fraction(1)
    free = profile == 'nrt'
    needs_seed = set()

    def delta():
        return str(Fraction(rng.choice(DELTAS)) * scale)

    def pick(items, g, grps):
        cands = [i for i in range(items) if free or grps[i] == g]
        return rng.choice(cands) if cands else None

    played = set()          # 'groups': every body is instantiated at most once, so that "the latest instance of body b"
                            # (pause/resume targets) never depends on which clock thread created its instance first

    def play_act(j, t):
        if profile == 'groups':
            if t in played:
                return None
            played.add(t)
        if free:
            return ['F', t] if rng.random() < 0.3 else ['P', t, rng.choice(clocks + (['A'] if rng.random() < 0.2 else []))]
        if grp[t] == grp[j]:
            return ['F', t] if rng.random() < 0.5 else ['P', t, home[j]]
        if grp[t] == t:
            needs_seed.add(t)
            return ['P', t, home[t]]
        return None
    shared = []
    for _ in range(rng.choice([0, 1, 1, 2])):
        lat = rng.choice([l for l in K.LATS if l is not None and Fraction(l) >= 0])
        inner = rng.choice([l for l in K.LATS if l is not None and Fraction(l) >= Fraction(lat)])
        deep = rng.choice([l for l in K.LATS if l is not None and Fraction(l) >= Fraction(inner)])
        shared.append([lat, [['m', rng.randint(0, 99)], ['b', inner, [['m', rng.randint(0, 99)], ['b', deep, [['m', rng.randint(0, 99)]]]]]]])
    bodies = []
    for j in range(nb):
        h, g = home[j], grp[j]
        body = []
        nplay = 0
        for _ in range(rng.randint(3, 9)):
            r = rng.random()
            if r < 0.24:
                body.append(['Y', delta()])
            elif r < 0.38:
                if shared and rng.random() < 0.45:
                    # a template kept in a variable, sent again after a yield (note-off style)
                    k_ = rng.randrange(len(shared))
                    body.append(['SB', k_])
                    if rng.random() < 0.7:
                        body.append(['Y', delta()])
                        body.append(['SB', k_])
                else:
                    lat = rng.choice(K.LATS)
                    body.append(['S', lat, K.gen_elems(rng, lat, 2, valid=rng.random() > 0.1)])
            elif r < 0.52:
                a = play_act(j, rng.randint(j + 1, nb - 1)) if (j + 1 < nb and nplay < 2) else None
                if a is not None:
                    nplay += 1
                    body.append(a)
                else:
                    body.append(['D', rng.randrange(NREQ)])
            elif r < 0.68:
                body.append(['D', rng.randrange(NREQ)])
            elif r < 0.73:
                body.append(['seed', rng.choice(SEED_POOL)])
            elif r < 0.79:
                c = pick(nconds, g, cgrp)
                if c is not None:
                    body.append(['W', c])
            elif r < 0.86:
                c = pick(nconds, g, cgrp)
                if c is not None:
                    if rng.random() < 0.7:
                        body.append(['test', c, True])
                        body.append(['sig', c])
                    elif rng.random() < 0.5:
                        body.append(['sig', c])
                    else:
                        body.append(['test', c, rng.random() < 0.5])
            elif r < 0.905:
                f = pick(nflows, g, fgrp)
                if f is not None:
                    body.append(['fget', f])
            elif r < 0.94:
                f = pick(nflows, g, fgrp)
                if f is not None:
                    body.append(['fset', f, rng.randint(0, 99)])
            elif r < 0.965:
                cands = [t for t in range(1, nb) if (free or (grp[t] == g and t != j))]
                if cands:
                    t = rng.choice(cands)
                    body.append([rng.choice(['pause', 'resume']), t])
                    if rng.random() < 0.5:
                        body.append(['Y', delta()])
                        body.append(['resume', t])
            elif r < 0.995:
                alone = len({grp[t] for t in range(nb) if home[t] == h}) == 1
                if ntempo and (free or (h != 'S' and alone)):
                    i = rng.randrange(ntempo) if free else h[1]
                    if rng.random() < 0.5:
                        body.append(['T', i, rng.choice(TEMPI)])
                    else:
                        # the beats setter, mostly from a routine of that clock inside its own wake-up, followed by a yield.
                        # In the RT profiles only a rewind to 0 (no pending task is moved before the current logical time)
                        body.append(['sb', i, rng.choice(['0', '1/2', '1', '2', '-1', '1/4']) if free else '0'])
                        if rng.random() < 0.7:
                            body.append(['Y', delta()])
            elif rng.random() < 0.5:
                body.append(['R'])
            else:
                body.append(['raise', rng.choice('VSKR')])
        if rng.random() < 0.22:
            # a yield of inf / of something that is not a number (never re-scheduled), or of a zero of another type
            kind = rng.choice(['inf', 'inf', 'inf'] + HANG_KINDS + ZERO_KINDS + ZERO_KINDS)
            body.insert(rng.randint(0, len(body)), ['YV', kind])
        if j + 1 < nb and nplay == 0 and rng.random() < (0.9 if j == 0 else 0.5):
            a = play_act(j, j + 1)
            if a is not None:
                body.insert(rng.randint(0, len(body)), a)
        bodies.append(body)
    for t in needs_seed:
        bodies[t].insert(0, ['seed', 100 + t])
    if rng.random() < 0.8:
        bodies[0].insert(0, ['seed', rng.choice([5, 11, 42] + SEED_POOL)])
    if free and rng.random() < 0.1 and nb > 1:
        bodies[rng.randrange(nb)].append(rng.choice([['W', nconds + 1], ['fget', nflows], ['P', nb + 2, 'S'], ['fset', nflows + 3, 1]]))
    # clocks all of whose routines form ONE group: the order of their wake-ups is fixed in both modes (ties included)
    order_clocks = [cl for cl in clocks if len({grp[t] for t in range(nb) if home[t] == cl}) <= 1] if not free else []
    return {'tempos': tempos, 'bodies': bodies, 'nconds': nconds, 'nflows': nflows, 'shared': shared, 'order_clocks': order_clocks,
            'mseed': rng.randint(0, 1000), 'tail': rng.choice(['0', '0', '1/4'])}


# routines on two clocks draw from one inherited generator at logical times 1/32 and 1/32 + 1/256
CROSS_PROG = {'tempos': ['1'], 'bodies': [[['seed', 5], ['P', 1, 'S'], ['P', 2, ['T', 0]], ['Y', '1/8']],
                                          [['Y', '1/32'], ['D', 0]], [['Y', '9/256'], ['D', 0]]],
              'nconds': 0, 'nflows': 0, 'mseed': 1, 'tail': '0'}
DUP_PROG = {'tempos': [], 'bodies': [[['P', 1, 'S'], ['pause', 1], ['resume', 1]],
                                     [['Y', '1/4'], ['S', '0', [['m', 1]]], ['Y', '1/4'], ['S', '0', [['m', 2]]]]],
            'nconds': 0, 'nflows': 0, 'mseed': 1, 'tail': '0'}
# a nested bundle kept in a variable and sent three times from different logical times
SHARED_PROG = {'tempos': [], 'bodies': [[['SB', 0], ['Y', '1/4'], ['SB', 0], ['Y', '1/4'], ['SB', 0]]],
               'shared': [['1/8', [['m', 1], ['b', '1/4', [['m', 2], ['b', '1/2', [['m', 3]]]]]]]],
               'nconds': 0, 'nflows': 0, 'mseed': 1, 'tail': '0'}
# explicit seeds that are not small non-negative ints: str, bytes, float, negative and large ints
SEEDS_PROG = {'tempos': [], 'bodies': [[['seed', ['s', 'seed']], ['D', 0], ['D', 3], ['P', 1, 'S'], ['P', 2, 'S'], ['P', 3, 'S'], ['P', 4, 'S'], ['Y', '1/8'], ['D', 1]],
                                       [['seed', ['b', '00ff']], ['D', 0], ['D', 2], ['S', '0', [['m', 1]]]],
                                       [['seed', ['f', '1/2']], ['D', 0], ['D', 7]],
                                       [['seed', -7], ['D', 0], ['D', 5]],
                                       [['seed', 2 ** 70 + 5], ['D', 0], ['D', 9]]],
              'nconds': 0, 'nflows': 0, 'mseed': 3, 'tail': '0'}
# twelve routines forked at the same logical instant share their parent's generator, draw, send and yield 0: the order is the
# scheduling order in both modes
STORM_PROG = {'tempos': [], 'bodies': [[['seed', 0]] + [['F', 1]] * 12 + [['Y', '0'], ['D', 10], ['D', 0]],
                                       [['D', 0], ['S', '0', [['m', 7]]], ['Y', '0'], ['D', 13], ['D', 1], ['Y', '0'], ['S', None, [['m', 8]]]]],
              'nconds': 0, 'nflows': 0, 'mseed': 0, 'tail': '0', 'shared': [], 'order_clocks': ['S']}
# a routine on a TempoClock rewinds the clock's beats inside its own wake-up and goes on yielding: the next wake-up is counted
# from the beat it was AWAKEN at in both modes; a second routine of that clock is pending meanwhile
SETBEATS_PROG = {'tempos': ['4'], 'bodies': [[['P', 1, ['T', 0]], ['P', 2, ['T', 0]]],
                                            [['Y', '1/4'], ['Y', '1/4'], ['sb', 0, '0'], ['Y', '1/4'], ['S', '0', [['m', 1]]], ['Y', '1/2'], ['S', '0', [['m', 2]]]],
                                            [['Y', '3/4'], ['S', '0', [['m', 3]]], ['Y', '1/4'], ['S', '0', [['m', 4]]]]],
                 'nconds': 0, 'nflows': 0, 'mseed': 1, 'tail': '0', 'shared': [], 'order_clocks': [['T', 0]]}
# a forward jump of the clock's beats moves the pending task of routine 1 to -77/8 s, before the start of the score
NEG_PROG = {'tempos': ['1'], 'bodies': [[['P', 1, ['T', 0]], ['Y', '1/8'], ['sb', 0, '10'], ['Y', '1/8']],
                                       [['Y', '1/4'], ['S', None, [['m', 1]]], ['Y', '1/4']]],
            'nconds': 0, 'nflows': 0, 'mseed': 1, 'tail': '0', 'shared': []}
# a routine that yields inf is never re-scheduled (in both modes); the root and a sibling on a tempo clock go on
INF_PROG = {'tempos': [], 'bodies': [[['P', 1, 'S'], ['Y', '1/4'], ['S', '0', [['m', 9]]], ['Y', '1/4']],
                                     [['Y', '1/8'], ['S', '0', [['m', 1]]], ['YV', 'inf'], ['S', '0', [['m', 2]]], ['Y', '1/8']]],
            'nconds': 0, 'nflows': 0, 'mseed': 1, 'tail': '0', 'shared': []}
YV_PROG = {'tempos': ['2'], 'bodies': [[['P', 1, 'S'], ['P', 2, ['T', 0]], ['P', 3, 'S'], ['P', 4, ['T', 0]], ['P', 5, 'S'], ['P', 6, ['T', 0]], ['P', 7, 'S'], ['Y', '1/4'],
                                        ['S', '0', [['m', 9]]], ['YV', 'fzero'], ['S', '0', [['m', 10]]], ['Y', '1/4']]] +
                                      [[['Y', '1/%d' % (8 * (1 + i % 2))], ['S', '0', [['m', i]]], ['YV', v], ['S', '0', [['m', 20 + i]]], ['Y', '1/8'], ['S', None, [['m', 40 + i]]]]
                                       for i, v in enumerate(['inf', 'none', 'true', 'false', 'str', 'nzero', 'izero'])],
           'nconds': 0, 'nflows': 0, 'mseed': 1, 'tail': '0', 'shared': [], 'order_clocks': []}
# a routine yields nan (never re-scheduled) while another routine of the same clock goes on yielding
NAN_PROG = {'tempos': ['2'], 'bodies': [[['P', 1, 'S'], ['P', 2, 'S'], ['Y', '1/2']],
                                       [['Y', '1/8'], ['YV', 'nan'], ['S', '0', [['m', 2]]]],
                                       [['Y', '1/4'], ['S', '0', [['m', 4]]], ['Y', '1/4'], ['S', '0', [['m', 5]]], ['Y', '1/4'], ['S', '0', [['m', 6]]]]],
            'nconds': 0, 'nflows': 0, 'mseed': 1, 'tail': '0', 'shared': []}
# same-beat tasks of one TempoClock, one of them re-scheduled for that beat while pending (pause + resume: it now queues behind the
# others), THEN a tempo / beats change of the clock (the non-real-time scheduler re-times the pending tasks): the order of the
# wake-ups at that beat is the order of (last) scheduling in both modes.  Everything on one TempoClock (one thread).
RETIME_PROG = {'tempos': ['2'], 'bodies': [[['P', 1, ['T', 0]], ['Y', '1/2']],
                                          [['F', 2], ['F', 3], ['F', 4], ['pause', 2], ['resume', 2], ['T', 0, '4'], ['Y', '1/8'], ['pause', 3], ['resume', 3], ['sb', 0, '0'], ['Y', '1/8'],
                                           ['pause', 2], ['resume', 2], ['pause', 3], ['resume', 3], ['T', 0, '1']],
                                          [['S', '0', [['m', 1]]], ['Y', '1/8'], ['S', '0', [['m', 2]]], ['Y', '1/8'], ['S', '0', [['m', 3]]]],
                                          [['S', '0', [['m', 4]]], ['Y', '1/8'], ['S', '0', [['m', 5]]], ['Y', '1/8'], ['S', '0', [['m', 6]]]],
                                          [['S', '0', [['m', 7]]], ['Y', '1/8'], ['S', '0', [['m', 8]]], ['Y', '1/8'], ['S', '0', [['m', 9]]]]],
               'nconds': 0, 'nflows': 0, 'mseed': 1, 'tail': '0', 'shared': [], 'order_clocks': [['T', 0]]}


def gen_retime_prog(rng):
    d = rng.choice(['1/32', '1/16', '1/8'])
    n = rng.randint(2, 4)
    kids = list(range(2, 2 + n))
    head = [['F', c] for c in kids]
    for _ in range(rng.randint(1, 3)):
        for c in rng.sample(kids, rng.randint(1, n - 1)):
            head += [['pause', c], ['resume', c]]
            if rng.random() < 0.2:
                head += [['pause', c], ['resume', c]]
        head.append(['T', 0, rng.choice(TEMPI)] if rng.random() < 0.7 else ['sb', 0, '0'])
        if rng.random() < 0.3:
            head.append(['S', '0', [['m', 0]]])
        head.append(['Y', d])
    bodies = [[['P', 1, ['T', 0]], ['Y', '1/4']], head]
    for c in kids:
        b = []
        for i in range(rng.randint(2, 4)):
            b += [['S', rng.choice(['0', '1/8', None]), [['m', 10 * c + i]]], ['Y', d]]
        bodies.append(b)
    return {'tempos': [rng.choice(TEMPI)], 'bodies': bodies, 'nconds': 0, 'nflows': 0, 'mseed': rng.randint(0, 99), 'tail': '0', 'shared': [],
            'order_clocks': [['T', 0]]}


FIXED = [
    DUP_PROG,
    # the example of the documentation guide, inheritance and re-seeding, pause/resume, flow variable across clocks
    {'tempos': ['2'], 'bodies': [[['seed', 7], ['D', 0], ['P', 1, ['T', 0]], ['seed', 7], ['D', 0], ['D', 1], ['Y', '1/4'], ['pause', 1],
                                  ['Y', '1/2'], ['resume', 1], ['Y', '1'], ['fset', 0, 42], ['S', '1/8', [['m', 3]]], ['Y', '1']],
                                 [['D', 2], ['Y', '1/2'], ['D', 3], ['fget', 0], ['S', None, [['m', 5]]]]],
     'nconds': 1, 'nflows': 1, 'mseed': 99, 'tail': '0'},
    CROSS_PROG,
    SHARED_PROG,
    SEEDS_PROG,
    STORM_PROG,
    SETBEATS_PROG,
    NEG_PROG,
    INF_PROG,
    YV_PROG,
    NAN_PROG,
    RETIME_PROG,
]


# ------------------------------------------------------------------ canonical observation of a run (real library)
def canon(p, o, with_tags=True):
    """-> (per-routine traces keyed by path, sorted multiset of (due time - start, bundle), global order)"""
    F = Fraction
    t0 = F(o['t0']) if o.get('t0') is not None else F(0)
    rt = 'offset' in o
    off = int(o['offset']) if rt else 0
    tag0 = off + int(t0 * (1 << 32)) if rt else 0
    paths = [tuple(x) for x in o['paths']]
    per = {pp: [] for pp in paths}
    bundles = []
    order = []

    def tree(node, lat, es):
        """canonical stamped tree: (immediate?, time - start, timetag - timetag of start) walking the sent bundle along"""
        imm = lat is None or F(lat) < 0
        subs = []
        k = 0
        for e in es:
            s = node[4][k]
            k += 1
            if e[0] == 'm':
                subs.append(('m', s[1]))
            else:
                subs.append(tree(s, e[1], e[2]))
        if rt:
            if node[1] != imm:
                return ('BAD-IMMEDIATE-FLAG', node[1], imm)
            if imm:
                return ('b', True, None, None, tuple(subs))
            return ('b', False, str(F(node[2]) - t0), node[3] - tag0 if with_tags else None, tuple(subs))
        if imm:
            return ('b', True, None, None, tuple(subs))
        return ('b', False, str(F(node[2]) - t0), node[3] if with_tags else None, tuple(subs))
    for e in o['events']:
        k = e[0]
        if k == 'resume':
            beats = F(e[5]) - (t0 if e[3] == 'S' else 0)
            it = ('res', e[2], json.dumps(e[3]), str(F(e[4]) - t0), str(beats))
            per[paths[e[1]]].append(it)
            order.append((paths[e[1]], it))
        elif k == 'play':
            if e[1] is None:
                continue
            per[paths[e[1][0]]].append(('play', paths[e[2]], json.dumps(e[3]), str(F(e[4]) - t0)))
        elif k == 'send':
            T = F(e[2]) - t0
            tr = tree(e[5], e[3], e[4]) if e[5] is not None else None
            per[paths[e[1][0]]].append(('send', str(T), e[3], json.dumps(e[4]), tr))
            if tr is not None:
                lv = F(0) if (e[3] is None or F(e[3]) < 0) else F(e[3])
                bundles.append((T + lv, json.dumps([e[3], e[4]])))
        elif k == 'tempo':
            per[paths[e[1][0]]].append(('tempo', e[2], e[3], e[4]))
        elif k == 'end':
            per[paths[e[1]]].append(('end', e[2], e[3]))
    for v in o['vals']:
        if v[0] == 'draw':
            per[paths[v[1]]].append(('draw', v[2], v[4], v[5]))
        elif v[0] == 'q':           # results of the TempoClock quantisation API / scheduled functions (no model: NRT vs RT only)
            per[paths[v[1]]].append(('qfn' if v[3] == 'fn' else 'q', v[2], v[3], json.dumps(v[4:])))
        else:
            per[paths[v[1]]].append(('flow', v[2], v[3], v[4]))
    # per path the events and the values are two interleaved logs: keep them as two lists
    per2 = {}
    for pp, items in per.items():
        per2[pp] = ([i for i in items if i[0] not in ('draw', 'flow', 'q', 'qfn')],
                    [i for i in items if i[0] in ('draw', 'flow', 'q')] + sorted(i for i in items if i[0] == 'qfn'))
    return per2, sorted(bundles), order


def tags_close(a, b):
    """equal stamped trees up to one timetag unit"""
    if a is None or b is None or a[0] != 'b' or b[0] != 'b':
        return a == b
    if a[1] != b[1] or a[2] != b[2] or len(a[4]) != len(b[4]):
        return False
    if a[3] is not None and b[3] is not None and abs(a[3] - b[3]) > 1:
        return False
    return all(tags_close(x, y) for x, y in zip(a[4], b[4]))


def diff_runs(p, a, b, single_clock):
    """first difference between two canonical observations, or None"""
    try:
        pa, ba, oa = canon(p, a)
        pb, bb, ob = canon(p, b)
    except (IndexError, KeyError, TypeError, ValueError) as e:
        return 'the recorded observation is malformed (a stamped bundle does not have the shape of the bundle that was sent): %r' % (e,)
    if set(pa) != set(pb):
        return 'different routines were created: %s vs %s' % (sorted(pa), sorted(pb))
    for pp in sorted(pa):
        (ea, va), (eb, vb) = pa[pp], pb[pp]
        if va != vb:
            return 'routine %s logged the values %s in one run and %s in the other' % (list(pp), va, vb)
        if len(ea) != len(eb):
            return 'routine %s: %d events in one run, %d in the other: %s / %s' % (list(pp), len(ea), len(eb), ea, eb)
        for x, y in zip(ea, eb):
            if x == y:
                continue
            if x[0] == 'send' and y[0] == 'send' and x[:4] == y[:4] and tags_close(x[4], y[4]):
                continue
            return 'routine %s: %s in one run, %s in the other' % (list(pp), x, y)
    if ba != bb:
        return 'the time-sorted bundle sequences differ: %s vs %s' % ([(str(t), s) for t, s in ba], [(str(t), s) for t, s in bb])
    if single_clock and oa != ob:
        return 'the global order of resumptions differs: %s vs %s' % (oa, ob)
    # a clock's order is fixed only if at most ONE task is put into its queue by another thread (its single head): later
    # insertions from another clock's thread land among equal keys according to physical time
    clock_of = {e[1]: json.dumps(e[3]) for e in a['events'] if e[0] == 'resume'}
    cross = {}
    for e in a['events']:
        if e[0] == 'play':
            parent = 'null' if e[1] is None else clock_of.get(e[1][0])
            if parent != json.dumps(e[3]):
                cross[json.dumps(e[3])] = cross.get(json.dumps(e[3]), 0) + 1
    for cl in p.get('order_clocks', []):
        key = json.dumps(cl)
        if cross.get(key, 0) > 1:
            continue
        xa, xb = [x for x in oa if x[1][2] == key], [x for x in ob if x[1][2] == key]
        if xa != xb:
            return 'the order of the wake-ups of clock %s (one group, ties included) differs: %s vs %s' % (key, xa, xb)
    return None


def is_single(p):
    return not p['tempos']


# ------------------------------------------------------------------ quantisation API (TempoClock) from inside routines
# Not in the Coq model: every result is a logged value, every played child's first logical time is observed; two fresh NRT
# runs and the RT run under jitter (where every routine is physically late) must give identical logs.
QUANT_PROG = {'tempos': ['16'], 'bodies': [
    [['P', 1, ['T', 0]], ['Y', '1/2']],
    [['cb', 0], ['nb', 0], ['pnb', 2, 0], ['ntg', 0, '1', '0'], ['ttnb', 0, '1'], ['Y', '1'], ['nb', 0], ['bar', 0], ['ntg', 0, '2', '1/2'],
     ['PQ', 2, ['T', 0], '2', '1/2'], ['Y', '3'], ['cb', 0], ['nb', 0], ['pnb', 2, 0], ['bpb', 0, '2'], ['nb', 0], ['sch', ['T', 0], '1/2'],
     ['scha', 0, '1'], ['Y', '1'], ['nb', 0], ['CP', 2, 0, '1'], ['newc', '32']],
    [['cb', 0], ['Y', '1/2']]], 'nconds': 0, 'nflows': 0, 'mseed': 1, 'tail': '0', 'shared': []}


def gen_quant_prog(rng):
    nt = rng.choice([1, 1, 2])
    tempos = [rng.choice(['16', '32', '64']) for _ in range(nt)]
    bodies = [None]
    idx = {}
    for i in range(nt):
        idx[i] = (1 + 3 * i, 2 + 3 * i, 3 + 3 * i)       # worker, rich leaf (same clock only), plain leaf
        bodies += [None, None, None]
    sleaf = len(bodies)
    bodies.append([['Y', '1/64']])                        # a leaf for SystemClock
    for i in range(nt):
        w, rich, plain = idx[i]
        bodies[rich] = [['cb', i], ['nb', i], ['Y', rng.choice(['1/2', '1'])], ['nb', i], ['bar', i]]
        bodies[plain] = [['cb', i]]
        body = []
        ny = 0
        for _ in range(rng.randint(6, 16)):
            r = rng.random()
            if r < 0.2 and ny < 5:
                ny += 1
                body.append(['Y', rng.choice(['1/4', '1/2', '1', '1', '3/2', '2', '3', '4'])])
            elif r < 0.32:
                body.append(['nb', i])
            elif r < 0.38:
                body.append(['nbb', i, rng.choice(['0', '1', '5/2', '4', '8', '7/2'])])
            elif r < 0.48:
                body.append(['ntg', i, rng.choice(['0', '1', '2', '4', '1/2']), rng.choice(['0', '0', '1/2', '1', '-1/2', '-1'])])
            elif r < 0.54:
                body.append(['ttnb', i, rng.choice(['1', '2', '4'])])
            elif r < 0.6:
                body.append(['bar', i])
            elif r < 0.66:
                body.append(['cb', i])
            elif r < 0.72:
                body.append(['bpb', rng.randrange(nt) if rng.random() < 0.15 else i, rng.choice(['1', '2', '3', '4', '4'])])
            elif r < 0.8:
                body.append(['pnb', rich, i])
            elif r < 0.88:
                q_, ph = rng.choice(['0', '1', '2', '4']), rng.choice(['0', '0', '1/2', '1'])
                t = rng.random()
                if t < 0.6:
                    body.append(['PQ', rich, ['T', i], q_, ph])
                elif t < 0.8 and nt > 1:
                    j = (i + 1) % nt
                    # quant 0 only: a grid on ANOTHER clock depends on that clock's meter, which its own routines change
                    body.append(['PQ', idx[j][2], ['T', j], '0', ph])
                else:
                    body.append(['PQ', sleaf, 'S', q_, ph])
            elif r < 0.91:
                body.append(['CP', rich, i, rng.choice(['0', '1', '2', '4'])])
            elif r < 0.94:
                if nt == 1:     # with a second clock playing onto this one the target beat would depend on which thread ran first
                    body += [['sb', i, rng.choice(['0', '0', '4', '1/2'])], ['cb', i], ['nb', i]]
                else:
                    body.append(['nb', i])
            elif r < 0.97:
                if rng.random() < 0.5:
                    body.append(['sch', rng.choice([['T', i], 'S']), rng.choice(['0', '1/4', '1/2', '1'])])
                else:
                    body.append(['scha', i, rng.choice(['0', '1/2', '1', '2'])])
            else:
                body.append(['newc', rng.choice(['16', '32'])])
        bodies[w] = body
    bodies[0] = [['P', idx[i][0], ['T', i]] for i in range(nt)] + [['Y', '1/64']]
    return {'tempos': tempos, 'bodies': bodies, 'nconds': 0, 'nflows': 0, 'mseed': rng.randint(0, 99), 'tail': '0', 'shared': []}


# stop / reset / replay / play-twice, exceptions of several classes, routines waiting on conditions or paused while they are
# hit, logical-time reads from late routines: one clock, so the order is fixed.  Not in the Coq model.
LIFE_PROG = {'tempos': [], 'bodies': [
    [['seed', 0], ['P', 1, 'S'], ['P', 2, 'S'], ['P', 3, 'S'], ['cbs'], ['Y', '1/64'], ['stop', 1], ['reset', 2], ['Y', '1/64'], ['replay', 2], ['play2', 3],
     ['pause', 3], ['Y', '1/32'], ['replay', 1], ['resume', 3], ['test', 0, True], ['sig', 0], ['Y', '1/16'], ['D', 0], ['cbs']],
    [['D', 0], ['Y', '1/32'], ['D', 1], ['S', '0', [['m', 1]]], ['Y', '1/32'], ['D', 2]],
    [['D', 10], ['cbs'], ['Y', '1/32'], ['D', 3], ['raise', 'S'], ['D', 4]],
    [['seed', ['s', '']], ['D', 0], ['W', 0], ['D', 1], ['cbs'], ['Y', '0'], ['raise', 'K']]],
    'nconds': 1, 'nflows': 0, 'mseed': 5, 'tail': '0', 'shared': [], 'order_clocks': ['S']}


# the same task object pending on two clocks at once: a routine paused and resumed (or played, or reset and played) on ANOTHER clock
# while its wake-up on the first is still pending, one Function scheduled on two clocks.  Every clock serves its own wake-up.
# Coarse grid (wake-ups of one routine performed by different threads are never closer than 1/8 s): every chain of wake-ups has
# a period of 1/2 s (or 1 s); the home chain runs on multiples of 1/2 s, the controller acts at 1/8, 3/4, 11/8 s (1/8, 1/4, 3/8
# modulo 1/2) and a chain started by the controller keeps that offset.  Victims seed themselves (no shared generator).
TWO_PROG = {'tempos': ['2'], 'bodies': [
    [['P', 1, ['T', 0]], ['P', 2, 'S'], ['Y', '1/8'], ['pause', 1], ['resumeon', 1, 'S'], ['sch2', [['S', '1/2'], [['T', 0], '1']]],
     ['Y', '5/8'], ['pause', 2], ['playon', 2, ['T', 0]], ['Y', '5/8'], ['replayon', 1, 'S']],
    [['seed', 11], ['cb', 0], ['S', '0', [['m', 1]]], ['Y', '1'], ['cb', 0], ['S', '0', [['m', 2]]], ['Y', '1'], ['D', 0], ['S', '0', [['m', 3]]], ['Y', '1'], ['S', '0', [['m', 4]]]],
    [['seed', 12], ['S', '0', [['m', 5]]], ['Y', '1'], ['D', 1], ['S', '0', [['m', 6]]], ['Y', '1'], ['S', '0', [['m', 7]]], ['Y', '1'], ['S', '0', [['m', 8]]]]],
    'nconds': 0, 'nflows': 0, 'mseed': 1, 'tail': '0', 'shared': []}


def gen_two_prog(rng):
    tempo = rng.choice(['1', '2'])
    d = '1/2' if tempo == '1' else '1'          # 1/2 s on the TempoClock, 1/2 s or 1 s on SystemClock
    nv = rng.choice([1, 1, 2])
    homes = [rng.choice(['S', ['T', 0]]) for _ in range(nv)]
    others = [['T', 0] if h == 'S' else 'S' for h in homes]
    root = [['P', j + 1, homes[j]] for j in range(nv)]
    for gap in ['1/8', '5/8', '5/8'][:rng.randint(1, 3)]:
        root.append(['Y', gap])
        j = rng.randrange(nv)
        r = rng.random()
        if r < 0.35:
            root += [['pause', j + 1], ['resumeon', j + 1, others[j]]]
        elif r < 0.55:
            root += [['pause', j + 1], ['playon', j + 1, others[j]]]
        elif r < 0.75:
            root += [['replayon', j + 1, others[j]]]
        else:
            root += [['sch2', [['S', '1/2'], [['T', 0], d]]]]
    bodies = [root]
    for j in range(nv):
        body = [['seed', 20 + j]]
        for i in range(rng.randint(3, 4)):
            if rng.random() < 0.4:
                body.append(['cb', 0])
            if rng.random() < 0.4:
                body.append(['D', rng.randrange(NREQ)])
            body.append(['S', rng.choice(['0', '1/8']), [['m', 10 * j + i]]])
            if rng.random() < 0.3:
                body.append(gen_msg(rng, 10 * j + i, ['0', '1/8', '1/4']))
            body.append(['Y', d])
        bodies.append(body)
    return {'tempos': [tempo], 'bodies': bodies, 'nconds': 0, 'nflows': 0, 'mseed': rng.randint(0, 99), 'tail': '0', 'shared': []}


def gen_msg(rng, ident, lats):
    """a plain message whose argument is a completion bundle (numeric latencies only: None = IMMEDIATELY is written as time 0 in a score)"""
    lat = rng.choice(lats)
    es = [['m', rng.randint(0, 9)]]
    if rng.random() < 0.4:
        es.append(['b', rng.choice([l for l in lats if Fraction(l) >= Fraction(lat)]), [['m', rng.randint(0, 9)]]])
    return ['M', ident, lat, es]


MSG_PROG = {'tempos': ['2'], 'bodies': [[['P', 1, ['T', 0]], ['Y', '1/64'], ['M', 1, '1/4', [['m', 5]]], ['Y', '1/32'], ['M', 2, '0', [['m', 6], ['b', '1/8', [['m', 7]]]]], ['Y', '1/64'], ['M', 3, '1/8', [['m', 8]]]],
                                        [['Y', '1/16'], ['M', 4, '1/2', [['m', 9]]], ['Y', '1/16'], ['M', 5, '1/8', [['b', '1/4', [['m', 1]]]]], ['Y', '1/16'], ['M', 6, '0', [['m', 2]]]]],
            'nconds': 0, 'nflows': 0, 'mseed': 1, 'tail': '0', 'shared': []}


def gen_life_prog(rng):
    tempo = rng.random() < 0.4
    cl = ['T', 0] if tempo else 'S'
    nb = rng.randint(3, 5)
    ds = ['0', '1/4', '1/2', '1', '2'] if tempo else ['0', '1/128', '1/64', '1/32']

    def common(body, j):
        r = rng.random()
        if r < 0.3:
            body.append(['Y', rng.choice(ds)])
        elif r < 0.5:
            body.append(['D', rng.randrange(NREQ)])
        elif r < 0.6:
            body.append(['S', rng.choice(['0', None, '1/8']), [['m', rng.randint(0, 9)]]])
        elif r < 0.66:
            body.append(gen_msg(rng, rng.randint(0, 99), ['0', '1/8', '1/4']))
        elif r < 0.7:
            body.append(['cbs'])
        elif r < 0.78:
            body.append(['W', 0])
        elif r < 0.86:
            body += [['test', 0, True], ['sig', 0]] if rng.random() < 0.7 else [['test', 0, False]]
        elif r < 0.9:
            body.append(['seed', rng.choice(SEED_POOL)])
        else:
            t = rng.choice([x for x in range(1, nb) if x != j] or [1])
            body.append([rng.choice(['pause', 'resume', 'play2'] if tempo else ['pause', 'resume', 'stop', 'play2']), t])
    bodies = []
    root = [['seed', rng.choice(SEED_POOL)]] + [['P' if tempo else 'F', j] + ([cl] if tempo else []) for j in range(1, nb)]
    if not tempo:
        root = [root[0]] + [['F', j] for j in range(1, nb)]
    for _ in range(rng.randint(5, 12)):
        r = rng.random()
        if r < 0.3:
            # reset() and stop() set the routine's _clock to SystemClock even while it is still queued on a TempoClock; a later
            # Condition.signal then re-schedules it on SystemClock (another thread): on a TempoClock only replay (reset + play) is used
            # (stop() too: a stopped routine still in a waiting list is put on SystemClock's queue by signal(); harmless unless it is re-played meanwhile)
            root.append([rng.choice(['replay', 'replay', 'replay', 'play2', 'pause', 'resume'] if tempo else
                                    ['stop', 'reset', 'replay', 'replay', 'play2', 'pause', 'resume']), rng.randint(1, nb - 1)])
        else:
            common(root, 0)
    bodies.append(root)
    for j in range(1, nb):
        body = []
        for _ in range(rng.randint(3, 8)):
            common(body, j)
        if rng.random() < 0.35:
            body.insert(rng.randint(0, len(body)), ['raise', rng.choice('VSKR')])
        bodies.append(body)
    if tempo:                      # the root lives on SystemClock: move the whole family onto the TempoClock through one head
        bodies = [[['P', 1, cl]]] + [[a if a[0] not in ('F', 'P', 'pause', 'resume', 'stop', 'reset', 'replay', 'play2') else
                                      ([a[0], a[1] + 1] + ([cl] if a[0] == 'P' else [])) for a in b] for b in bodies]
    return {'tempos': ['32'] if tempo else [], 'bodies': bodies, 'nconds': 1, 'nflows': 0, 'mseed': rng.randint(0, 99), 'tail': '0',
            'shared': [], 'order_clocks': [cl]}


def check_post(c, p, o, mode):
    post = o.get('post') or {}
    want = {'current_is_main': True, 'no_parent_left': True, 'none_running': True}
    if mode == 'rt':
        want.update({'in_awake_call': False, 'main_time_refreshes': True})
    bad = {k: post.get(k) for k, v in want.items() if post.get(k) != v}
    if bad:
        c.failures.append(Failure('correspondence', 'after the %s run the next operation of the main thread finds leaked state: %s. Program: %s'
                                  % (mode.upper(), bad, json.dumps(p)), theorem='rt_nrt_agree', found_input=True,
                                  replay={'program': p, 'post': post}))
        return False
    return True


def quant_part(ctx, c):
    cases = [QUANT_PROG, LIFE_PROG, TWO_PROG, MSG_PROG] + [gen_quant_prog(ctx.rng) for _ in range(ctx.n(45, 400))] + \
            [gen_life_prog(ctx.rng) for _ in range(ctx.n(45, 400))] + [gen_two_prog(ctx.rng) for _ in range(ctx.n(8, 48))]
    A, B = par([lambda: impl_tagged(ctx, 'qA', {'cases': cases}, 'nrt', hashseed='77'),
                lambda: impl_tagged(ctx, 'qB', {'cases': cases}, 'nrt', hashseed='88')])
    R = run_rt(ctx, cases, k=5)
    c.evaluations += 3 * len(cases)
    for p, a, b, r in zip(cases, A, B, R):
        if 'fatal' in a or 'fatal' in b or 'fatal' in r:
            c.failures.append(Failure('correspondence', 'quantisation program could not be run: %s' % (a.get('fatal') or b.get('fatal') or r.get('fatal'))[:600],
                                      replay={'program': p}))
            continue
        for key in ('events', 'vals', 'errors'):
            if a[key] != b[key]:
                c.failures.append(Failure('correspondence', 'two fresh NRT runs of a program using the TempoClock quantisation API differ in %s. Program: %s'
                                          % (key, json.dumps(p)), theorem='seeded_run_deterministic', found_input=True,
                                          replay={'program': p, 'first': a[key], 'second': b[key]}))
                break
        for v in a['vals']:
            if v[0] == 'q':
                c.count('quant:' + v[3])
        for b_ in p['bodies']:
            for act in b_:
                if act[0] in ('stop', 'reset', 'replay', 'play2', 'raise', 'cbs', 'resumeon', 'playon', 'replayon', 'sch2', 'M'):
                    c.count('life:' + act[0])
        check_post(c, p, a, 'nrt')
        for text in a['stream_errors']:
            c.failures.append(Failure('correspondence', 'random stream: %s. Program: %s' % (text, json.dumps(p)),
                                      theorem='own_seed_stream_independent', found_input=True, replay={'program': p, 'vals': a['vals']}))
        if not r.get('completed'):
            c.count('quant:rt not-completed-in-time (machine load); not compared')
            continue
        c.nontriv(('quant', json.dumps(p, sort_keys=True)))
        check_post(c, p, r, 'rt')
        if any(v[0] == 'q' and v[3] == 'not-early' and v[4] is not True for v in r['vals']):
            c.failures.append(Failure('correspondence', 'a task ran before its logical time had come (RT). Program: %s' % json.dumps(p),
                                      found_input=True, replay={'program': p, 'rt_vals': r['vals']}))
        r = dict(r, vals=[v for v in r['vals'] if not (v[0] == 'q' and v[3] == 'not-early')])
        d = diff_runs(p, a, r, False)
        if d is None and a['errors'] != r['errors']:
            d = 'errors differ: %s vs %s' % (a['errors'], r['errors'])
        acts_ = {act[0] for b_ in p['bodies'] for act in b_}
        if d and acts_ & {'resumeon', 'playon', 'replayon', 'sch2'}:
            # wake-ups of one routine performed by two threads 1/8 s apart: under heavy machine load their order can flip; run it once more alone
            r2 = run_rt(ctx, [p], k=9)[0]
            if 'fatal' not in r2 and r2.get('completed'):
                r2 = dict(r2, vals=[v for v in r2['vals'] if not (v[0] == 'q' and v[3] == 'not-early')])
                d2 = diff_runs(p, a, r2, False)
                if d2 is None and a['errors'] == r2['errors']:
                    c.count('two-clock: differed once, agreed when run again alone (machine load)')
                    d = None
                else:
                    r = r2
        if d:
            fam = ('a plain message (send_msg) carrying a completion bundle: the time tags inside the blob' if any(v[0] == 'q' and v[3] == 'msg' for v in a['vals']) and 'msg' in d else
                   'a task pending on two clocks at once (routine resumed / played on another clock, one Function scheduled on two clocks)'
                   if acts_ & {'resumeon', 'playon', 'replayon', 'sch2'} else
                   'routine life cycle (stop / reset / replay / exceptions)' if acts_ & {'stop', 'reset', 'replay', 'play2', 'raise', 'cbs'} else
                   'TempoClock quantisation API called from inside routines')
            c.failures.append(Failure('correspondence', '%s: the RT run under jitter differs from the NRT run: %s. Program: %s'
                                      % (fam, d[:1500], json.dumps(p)), theorem='rt_nrt_agree', found_input=True,
                                      replay={'program': p, 'nrt_vals': a['vals'], 'rt_vals': r['vals'], 'nrt_events': a['events'],
                                              'rt_events': r['events'], 'difference': d,
                                              'how': 'SC3_MODE=nrt|rt PYTHONPATH=$SC3_REPO:/verif/harness python harness/impl/c10_script.py in.json out.json'}))


# ------------------------------------------------------------------ correspondence
def nrt_item(p, o):
    return '(%s, %s, mkXO %s %s %s %s)' % (xprog(p), table(o['table']), clist(o['events'], K.event), clist(o['vals'], vevent),
                                           clist(o['score'], K.selem), K.q(o['elapsed']))


def rt_item(p, o):
    return '(%s, %s, %s, %s, %s, %s, %s)' % (xprog(p), table(o['table']), cz(int(o['offset'])), K.q(o['t0']),
                                             '(%s : list (nat * Q))' % clist(o['schedule'], lambda s: '(%d%%nat, %s)' % (s[0], K.q(s[1]))),
                                             '(%s : list event)' % clist(o['events'], K.event), '(%s : list vevent)' % clist(o['vals'], vevent))


def impl_tagged(ctx, tag, payload, mode, hashseed='0', extra_env=None, timeout=900):
    """ctx.impl with its own file names, so that several runs can go on at the same time"""
    inp = os.path.join(ctx.work, 'impl_c10_%s_%d_in.json' % (tag, os.getpid()))
    outp = os.path.join(ctx.work, 'impl_c10_%s_%d_out.json' % (tag, os.getpid()))
    with open(inp, 'w') as f:
        json.dump(payload, f)
    env = dict(os.environ)
    env.update({'PYTHONPATH': fw.REPO + os.pathsep + os.path.join(fw.VERIF, 'harness'), 'PYTHONHASHSEED': str(hashseed),
                'SC3_MODE': mode, 'PYTHONWARNINGS': 'ignore'})
    if extra_env:
        env.update(extra_env)
    if os.path.exists(outp):
        os.remove(outp)
    rc, out = fw.sh([fw.PY, '-W', 'ignore', os.path.join(fw.VERIF, 'harness', 'impl', 'c10_script.py'), inp, outp],
                    timeout=timeout, cwd=ctx.work, env=env)
    if rc != 0 or not os.path.exists(outp):
        raise fw.ImplError('impl runner c10_script (%s) failed rc=%s\n%s' % (tag, rc, out[-3000:]))
    with open(outp) as f:
        return json.load(f)['out']


def par(jobs):
    """run thunks concurrently, return their results in order (exceptions re-raised)"""
    import concurrent.futures as cf
    with cf.ThreadPoolExecutor(max_workers=max(1, len(jobs))) as ex:
        futs = [ex.submit(j) for j in jobs]
        return [f.result() for f in futs]


def port(ctx, k):
    return 60000 + (os.getpid() * 13 + ctx.seed * 101 + k * 57) % 4500


def run_rt(ctx, cases, k=0, delay=None, nproc=6):
    """RT runs take real time: split the cases over nproc processes (own port ranges)"""
    if delay or len(cases) < 2 * nproc:
        payload = {'cases': cases, 'seed': ctx.seed + k}
        if delay:
            payload['delay'] = delay
        return impl_tagged(ctx, 'rt%d' % k, payload, 'rt', hashseed=str(31415 + k), extra_env={'SC3_LIB_PORT': str(port(ctx, k))})
    chunks = [cases[i::nproc] for i in range(nproc)]
    outs = par([(lambda i=i: impl_tagged(ctx, 'rt%d_%d' % (k, i), {'cases': chunks[i], 'seed': ctx.seed + k + i}, 'rt', hashseed=str(9001 + 17 * i + k),
                                         extra_env={'SC3_LIB_PORT': str(port(ctx, 10 * k + i + 3))})) for i in range(nproc)])
    res = [None] * len(cases)
    for i in range(nproc):
        for j, o in enumerate(outs[i]):
            res[i + j * nproc] = o
    return res


def correspond(ctx):
    c = Corr()
    rng = ctx.rng
    nrt_cases = list(FIXED)
    corpus = os.path.join(fw.VERIF, 'corpus', 'C10_programs.json')
    if os.path.exists(corpus):
        nrt_cases += json.load(open(corpus))
    nrt_cases += [gen_xprog(rng, 'nrt') for _ in range(ctx.n(600, 3000))]
    retime_cases = [gen_retime_prog(rng) for _ in range(ctx.n(40, 200))]
    nrt_cases += retime_cases
    rt_cases = [SHARED_PROG, SEEDS_PROG, STORM_PROG, SETBEATS_PROG, INF_PROG, YV_PROG, NAN_PROG, RETIME_PROG] + retime_cases[:ctx.n(12, 60)] + [gen_xprog(rng, 'single' if i % 2 == 0 else 'groups') for i in range(ctx.n(150, 900))]
    cases = nrt_cases + rt_cases
    first_rt = len(nrt_cases)

    # (a) two fresh non-real-time processes (different hash seeds): byte-identical scores, same values
    A, B = par([lambda: impl_tagged(ctx, 'nrtA', {'cases': cases}, 'nrt', hashseed='101'),
                lambda: impl_tagged(ctx, 'nrtB', {'cases': cases}, 'nrt', hashseed='2718')])
    c.evaluations += 2 * len(cases)
    items, idx = [], []
    for i, (p, a, b) in enumerate(zip(cases, A, B)):
        if 'fatal' in a or 'fatal' in b or not a.get('raw_ok'):
            why = a.get('fatal') or b.get('fatal') or 'raw score malformed'
            if any(act[:2] == ['YV', 'inf'] for b_ in p['bodies'] for act in b_) and ('OverflowError' in why or 'infinity' in why):
                c.failures.append(Failure('correspondence', 'NRT: a routine that yields inf is put back in the queue at time inf (resumed once more after everything else, elapsed time '
                                          'inf) and main.process() fails with OverflowError; in real time (and for sched(inf, f)) inf means never. Program: %s -- %s'
                                          % (json.dumps(p), why.strip().splitlines()[0][:200]), signature=SIG_INF, theorem='rt_nrt_agree', found_input=True, replay={'program': p}))
                continue
            if any(act[:2] == ['YV', 'nan'] for b_ in p['bodies'] for act in b_) and 'NaN' in why:
                c.failures.append(Failure('correspondence', 'NRT: a routine that yields nan is put back in the queue with key nan; when that entry is performed the logical time becomes nan '
                                          'and main.process() fails with ValueError (in real time the entry blocks the clock for good). Program: %s -- %s'
                                          % (json.dumps(p), why.strip().splitlines()[0][:200]), signature=SIG_NAN, theorem='rt_nrt_agree', found_input=True, replay={'program': p}))
                continue
            c.failures.append(Failure('correspondence', 'NRT case %d could not be run: %s' % (i, why[:600]), found_input=True,
                                      replay={'program': p}))
            continue
        for key in ('raw_sha1', 'list_repr_sha1', 'events', 'vals', 'elapsed'):
            if a[key] != b[key]:
                c.failures.append(Failure('correspondence', 'two fresh NRT runs of the same seeded program differ in %s. Program: %s' % (key, json.dumps(p)),
                                          theorem='seeded_run_deterministic', found_input=True,
                                          replay={'program': p, 'first': a[key], 'second': b[key],
                                                  'how': 'SC3_MODE=nrt PYTHONPATH=$SC3_REPO:/verif/harness python harness/impl/c10_script.py in.json out.json, twice'}))
                break
        for text in a['stream_errors']:
            c.failures.append(Failure('correspondence', 'random stream: %s. Program: %s' % (text, json.dumps(p)),
                                      theorem='own_seed_stream_independent', found_input=True, replay={'program': p, 'vals': a['vals']}))
        check_post(c, p, a, 'nrt')
        if a.get('twosite'):
            c.failures.append(Failure('correspondence', 'the list view of the score and its binary form disagree: %s. Program: %s' % (a['twosite'][0], json.dumps(p)),
                                      found_input=True, replay={'program': p, 'disagreements': a['twosite'], 'score': a['score']}))
        nres = sum(1 for e in a['events'] if e[0] == 'resume')
        c.count('nrt:resumptions:%s' % ('1-3' if nres <= 3 else '4-9' if nres <= 9 else '10+'))
        for e in a['events']:
            c.count('nrt:event:' + e[0])
        for v in a['vals']:
            c.count('nrt:value:' + v[0])
        for b_ in p['bodies']:
            for act in b_:
                c.count('act:' + act[0])
        if nres >= 2 and (a['vals'] or any(e[0] == 'send' for e in a['events'])):
            c.nontriv(('nrt', json.dumps(p, sort_keys=True)))
        items.append(nrt_item(p, a))
        idx.append(i)
    body = 'Eval vm_compute in bad_idx (fun c => match c with (p, tab, o) => Nat.eqb (xnrt_compare true tab p %d o) 0 end) cases.' % FUEL
    bad, errs = fw.check_shards(ctx, 'nrt', HEADER, items, body, shard=40)
    for e in errs:
        c.failures.append(Failure('correspondence', 'coq evaluation failed: ' + e[-1500:]))
    names = {1: 'the model does not terminate within the fuel', 2: 'event logs differ (logical times, plays, stamped bundles)',
             3: 'scores differ', 4: 'elapsed_time() differs', 5: 'logged values (draws, flow variables) differ'}
    as_found = set()          # cases the implementation runs as the model of the code AS FOUND does
    if bad:
        items2 = [items[j] for j in bad]
        body2 = ('Eval vm_compute in flat_map (fun c => match c with (p, tab, o) => '
                 '[xnrt_compare true tab p %d o; xnrt_compare false tab p %d o] end) cases.' % (FUEL, FUEL))
        codes = []
        for rc, out, base in ctx.coq_shards('nrt_explain', HEADER, items2, body2, shard=30):
            cs = fw.parse_nat_list(out) if rc == 0 else None
            n_here = min(30, len(items2) - base)
            codes.extend(cs if cs is not None and len(cs) == 2 * n_here else [None] * (2 * n_here))
        reported = False
        for n_, j in enumerate(bad):
            i = idx[j]
            code = codes[2 * n_]
            code_found = codes[2 * n_ + 1]
            if code_found == 0:
                as_found.add(i)
                c.count('nrt:runs-as-the-code-as-found (two pending wake-ups after a re-schedule)')
                if not reported:
                    reported = True
                    ra = [(e[1], e[2], e[4]) for e in A[i]['events'] if e[0] == 'resume']
                    c.failures.append(Failure(
                        'correspondence',
                        'NRT: a routine that is scheduled again while it has a pending wake-up (pause(); resume(), or a signal after a resume) '
                        'is woken TWICE in non-real-time mode (every sched() makes a new ClockTask) and once in real time (TaskQueue keeps one entry '
                        'per task): the score differs from what real time sends. Resumptions (routine, k, seconds): %s. Program: %s'
                        % (ra[:12], json.dumps(cases[i])),
                        signature=SIG_DUP, theorem='rt_nrt_agree_partial', found_input=True,
                        replay={'program': cases[i], 'observed_events': A[i]['events'], 'observed_score': A[i]['score'],
                                'expected': 'the model of the repaired code (obs_nrt) and the real-time run: one wake-up',
                                'how': 'SC3_MODE=nrt PYTHONPATH=$SC3_REPO:/verif/harness python harness/impl/c10_script.py in.json out.json '
                                       '(in.json = {"cases": [program]}); compare with SC3_MODE=rt'}))
                continue
            c.failures.append(Failure('correspondence', 'NRT: model and implementation disagree (%s). Program: %s' % (names.get(code, code), json.dumps(cases[i])),
                                      replay={'program': cases[i], 'observed_events': A[i]['events'], 'observed_vals': A[i]['vals'],
                                              'observed_score': A[i]['score'], 'code': code}, theorem='rt_nrt_agree_partial'))

    # (b) real time under injected jitter
    R = run_rt(ctx, rt_cases)
    c.evaluations += len(rt_cases)
    ritems, ridx = [], []
    for j, (p, r) in enumerate(zip(rt_cases, R)):
        a = A[first_rt + j]
        if 'fatal' in r:
            c.failures.append(Failure('correspondence', 'RT case could not be run: %s' % r['fatal'][:600], replay={'program': p}))
            continue
        if not r.get('completed') or 'fatal' in a:
            c.count('rt:not-completed-in-time (machine load); not compared')
            continue
        if any(a_[0] == 'SB' for b_ in p['bodies'] for a_ in b_):
            c.count('rt:programs sending a shared nested bundle again')
        c.count('rt:%s:wakeups:%d' % ('single-clock' if is_single(p) else 'several-clocks', min(12, len(r['schedule']))))
        c.nontriv(('rt', json.dumps(p, sort_keys=True)))
        check_post(c, p, r, 'rt')
        d = diff_runs(p, a, r, is_single(p))
        if d and (first_rt + j) in as_found:
            c.count('rt:differs-from-NRT because of the two pending wake-ups (reported once)')
        elif d:
            c.failures.append(Failure('correspondence', 'RT run under jitter differs from the NRT run of the same program: %s. Program: %s' % (d[:1500], json.dumps(p)),
                                      theorem='rt_nrt_agree', found_input=True,
                                      replay={'program': p, 'nrt_events': a['events'], 'nrt_vals': a['vals'], 'rt_events': r['events'],
                                              'rt_vals': r['vals'], 'rt_schedule': r['schedule'], 'difference': d}))
        for text in r['stream_errors']:
            c.failures.append(Failure('correspondence', 'random stream (RT): %s. Program: %s' % (text, json.dumps(p)),
                                      theorem='own_seed_stream_independent', found_input=True, replay={'program': p, 'vals': r['vals']}))
        ritems.append(rt_item(p, r))
        ridx.append(j)
    body = ('Eval vm_compute in map (fun c => match c with (p, tab, off, t0, sch, evs, vals) => '
            'xrt_compare tab off p t0 sch evs vals end) cases.')
    for rc, out, base in ctx.coq_shards('rt', HEADER, ritems, body, shard=20):
        cs = fw.parse_nat_list(out) if rc == 0 else None
        if cs is None:
            c.failures.append(Failure('correspondence', 'coq evaluation of the RT replay failed: ' + out[-1500:]))
            continue
        for n_, code in enumerate(cs):
            p = rt_cases[ridx[base + n_]]
            has_tempo = any(a_[0] in ('T', 'sb') for b_ in p['bodies'] for a_ in b_)
            if code == 0 or (code == 3 and has_tempo):
                continue
            what = {1: 'the recorded order of wake-ups is not an execution of the RT model', 2: 'events differ from the model replaying the recorded order',
                    5: 'logged values differ from the model replaying the recorded order', 3: 'a task was woken before its time'}[code]
            c.failures.append(Failure('correspondence', 'RT: %s. Program: %s' % (what, json.dumps(p)),
                                      replay={'program': p, 'observed': R[ridx[base + n_]]}, found_input=(code in (2, 3, 5))))

    # (c) the cross-clock witness on the real library: the SystemClock thread is made late
    try:
        W = run_rt(ctx, [CROSS_PROG], k=1, delay={'clock': 'S', 'seconds': 0.05})[0]
        a = A[2]
        if W.get('completed') and 'fatal' not in W:
            d = diff_runs(CROSS_PROG, a, W, False)
            c.count('cross-clock experiment: RT %s NRT' % ('differs from' if d else 'agrees with'))
            rc, out = ctx.coq('cross', HEADER + 'Definition cases := [%s].\n' % rt_item(CROSS_PROG, W) +
                              'Eval vm_compute in map (fun c => match c with (p, tab, off, t0, sch, evs, vals) => xrt_compare tab off p t0 sch evs vals end) cases.')
            codes = fw.parse_nat_list(out) if rc == 0 else None
            if codes != [0] and codes != [3]:
                c.failures.append(Failure('correspondence', 'the RT model does not reproduce the cross-clock execution recorded on the real library (code %s)' % codes,
                                          replay={'program': CROSS_PROG, 'observed': W}))
            if d:
                text = ('two routines on different clocks share an inherited generator and draw at logical times 1/32 and 9/256; with a late '
                        'SystemClock thread the later one draws first in real time: ' + d[:400])
                c.notes.append('rt_nrt_cross_clock_refuted reproduced on the real library (signature %s): %s' % (SIG_CROSS, text))
                c.known_demonstrated.append((SIG_CROSS, text))
    except fw.ImplError as e:
        c.notes.append('cross-clock experiment not run: %s' % str(e)[:200])

    # (c2) a task moved before the start of the score (rt_nrt_before_start_refuted): RT sends, NRT cannot pack the timetag
    try:
        W = run_rt(ctx, [NEG_PROG], k=7)[0]
        a = A[FIXED.index(NEG_PROG)]
        if W.get('completed') and 'fatal' not in W and 'fatal' not in a:
            rc, out = ctx.coq('neg', HEADER + 'Definition cases := [%s].\n' % rt_item(NEG_PROG, W) +
                              'Eval vm_compute in map (fun c => match c with (p, tab, off, t0, sch, evs, vals) => xrt_compare tab off p t0 sch evs vals end) cases.')
            codes = fw.parse_nat_list(out) if rc == 0 else None
            if codes != [0] and codes != [3]:
                c.failures.append(Failure('correspondence', 'the RT model does not reproduce the before-start execution recorded on the real library (code %s)' % codes,
                                          replay={'program': NEG_PROG, 'observed': W}))
            nrt_raised = ['end', 1, 1, True] in a.get('events', [])
            rt_sent = any(e[0] == 'send' and e[1] == [1, 1] and e[5] is not None for e in W.get('events', []))
            rt_raised = any(e[0] == 'end' and e[3] for e in W.get('events', []))
            c.count('before-start experiment: NRT send %s, RT send %s' % ('raises' if nrt_raised else 'does not raise', 'goes out' if rt_sent and not rt_raised else 'fails'))
            if nrt_raised and rt_sent and not rt_raised:
                text = ('a forward jump of TempoClock.beats moves a pending task to logical time -77/8 s (before the start): real time performs it at once and the '
                        'bundle goes out, the non-real-time score cannot pack the negative timetag (OscBundleBuildError) and the routine ends')
                c.notes.append('rt_nrt_before_start_refuted reproduced on the real library (signature %s): %s' % (SIG_NEG, text))
                c.known_demonstrated.append((SIG_NEG, text))
            else:
                c.failures.append(Failure('correspondence', 'before-start witness (theorem rt_nrt_before_start_refuted) not reproduced: NRT raised=%s RT sent=%s RT raised=%s' % (nrt_raised, rt_sent, rt_raised),
                                          replay={'program': NEG_PROG, 'observed': W, 'nrt': a}))
    except fw.ImplError as e:
        c.notes.append('before-start experiment not run: %s' % str(e)[:200])

    # (c3) a yield of nan: never re-scheduled in either mode, and the other routines of that clock go on (before /repo 04ba3de
    # the nan entry blocked the real-time clock's queue for good)
    try:
        an = A[FIXED.index(NAN_PROG)]
        res = lambda o: sorted((e[1], e[2]) for e in o.get('events', []) if e[0] == 'resume')
        for attempt in range(2):            # a run not completed in time is repeated once (machine load)
            W = run_rt(ctx, [NAN_PROG], k=8 + attempt)[0]
            if 'fatal' in W or (W.get('completed') and res(an) == res(W)):
                break
        if 'fatal' in an or 'fatal' in W:
            c.notes.append('nan experiment not run: %s' % str(an.get('fatal') or W.get('fatal'))[:200])
        else:
            same = bool(W.get('completed')) and res(an) == res(W)
            c.count('nan experiment: RT %s NRT' % ('agrees with' if same else 'differs from'))
            if not same:
                c.failures.append(Failure('correspondence', 'a routine that yields nan: in non-real-time the task is not re-scheduled and the other routines go on (resumptions %s); '
                                          'in real time the clock performs no further task: resumptions %s, completed=%s. Program: %s'
                                          % (res(an), res(W), W.get('completed'), json.dumps(NAN_PROG)), signature=SIG_NAN, theorem='rt_nrt_agree', found_input=True,
                                          replay={'program': NAN_PROG, 'nrt_events': an.get('events'), 'rt_events': W.get('events'), 'rt_completed': W.get('completed')}))
    except fw.ImplError as e:
        c.notes.append('nan experiment not run: %s' % str(e)[:200])

    # (d) the quantisation API of TempoClock (logged values; no model)
    quant_part(ctx, c)
    # concrete failing inputs (the property itself fails on the real library) before model disagreements
    c.failures.sort(key=lambda f: (not f.found_input, f.signature is None, f.replay.get('program') is not NAN_PROG))

    c.rule = ('script programs (nested routines on SystemClock/TempoClocks, tempo changes, pause/resume, Condition wait/signal, FlowVar, rand_seed and draws '
              'through the builtin random functions, bundle sends) compiled to real generator functions; (a) two fresh NRT processes: scores byte-identical, '
              'logs and values equal, equal to the model (event log, values, score, elapsed), every generator object serves the stream of a plain '
              'random.Random(seed); (b) RT under injected jitter: per-routine traces (logical time - start, stamped bundles up to one timetag unit, values) and '
              'the time-sorted bundle multiset equal to the NRT run, and the model replays the recorded wake-up order. non-trivial = two or more '
              'resumptions with a send or a logged value (NRT) / completed under jitter (RT)')
    c.samples = [{'program': cases[i], 'values': A[i].get('vals', [])[:6]} for i in range(3, min(6, len(cases)))]
    return c


# ------------------------------------------------------------------ search: monitors on the implementation, no model
def indep_prog(rng, extra):
    """root plays children that seed themselves; `extra` adds draws to the OTHER routines"""
    nb = rng.randint(2, 4)
    bodies = [[['seed', 3]] + [['P', j, 'S'] for j in range(1, nb + 1)] + ([['D', 0]] * extra) + [['Y', '1/8']] + ([['D', 1]] * extra)]
    for j in range(1, nb + 1):
        b = [['seed', 40 + j]]
        for _ in range(rng.randint(2, 5)):
            b.append(['D', rng.randrange(NREQ)])
            if rng.random() < 0.5:
                b.append(['Y', str(Fraction(rng.randint(0, 4), 16))])
        bodies.append(b)
    return {'tempos': [], 'bodies': bodies, 'nconds': 0, 'nflows': 0, 'mseed': 4, 'tail': '0'}


def search(ctx, failures):
    rng = ctx.rng
    found = []
    # 1. two NRT runs; 2. RT vs NRT
    cases = [gen_xprog(rng, 'single' if i % 2 else 'groups') for i in range(ctx.n(30, 200))]
    cases = [DUP_PROG] + cases
    A, B = par([lambda: impl_tagged(ctx, 'sA', {'cases': cases}, 'nrt', hashseed='404'),
                lambda: impl_tagged(ctx, 'sB', {'cases': cases}, 'nrt', hashseed='505')])
    for p, a, b in zip(cases, A, B):
        if 'fatal' in a or 'fatal' in b:
            continue
        if any(a[k] != b[k] for k in ('raw_sha1', 'vals', 'events')):
            found.append(Failure('search', 'two fresh NRT runs differ. Program: %s' % json.dumps(p), theorem='seeded_run_deterministic',
                                 found_input=True, replay={'program': p, 'first': a['vals'], 'second': b['vals']}))
            break
        if a['stream_errors']:
            found.append(Failure('search', 'a generator does not serve the stream of its seed: %s. Program: %s' % (a['stream_errors'][0], json.dumps(p)),
                                 theorem='inherited_generator_interleaves_deterministically', found_input=True, replay={'program': p, 'vals': a['vals']}))
            break
    R = run_rt(ctx, cases, k=2)
    for p, a, r in zip(cases, A, R):
        if 'fatal' in a or 'fatal' in r or not r.get('completed'):
            continue
        d = diff_runs(p, a, r, is_single(p))
        if d:
            found.append(Failure('search', 'RT and NRT runs of one program differ: %s. Program: %s' % (d[:1200], json.dumps(p)), theorem='rt_nrt_agree',
                                 signature=SIG_DUP if p is DUP_PROG else None, found_input=True, replay={'program': p, 'difference': d, 'nrt_events': a['events'], 'rt_events': r['events'],
                                                           'nrt_vals': a['vals'], 'rt_vals': r['vals']}))
            break
    # 3. a self-seeded routine's draws do not change when the others draw more
    pairs = []
    for _ in range(ctx.n(20, 100)):
        st = rng.getstate()
        p0 = indep_prog(rng, 0)
        rng.setstate(st)
        p1 = indep_prog(rng, 2)
        pairs.append((p0, p1))
    outs = impl_tagged(ctx, 'sC', {'cases': [x for pr in pairs for x in pr]}, 'nrt')
    for n_, (p0, p1) in enumerate(pairs):
        a, b = outs[2 * n_], outs[2 * n_ + 1]
        if 'fatal' in a or 'fatal' in b:
            continue
        for rid in range(1, len(p0['bodies'])):
            da = [v[4:] for v in a['vals'] if v[0] == 'draw' and v[1] == rid]
            db = [v[4:] for v in b['vals'] if v[0] == 'draw' and v[1] == rid]
            if da != db:
                found.append(Failure('search', 'routine %d seeds itself and draws %s; when the other routines draw more it draws %s. Program: %s'
                                     % (rid, da, db, json.dumps(p0)), theorem='own_seed_stream_independent', found_input=True,
                                     replay={'program': p0, 'program_with_more_draws_elsewhere': p1, 'first': da, 'second': db}))
                return found
    return found
