"""C02 -- emitted definitions are well-formed, topologically ordered SCgf v2 (FORMAT side).

Real graph functions generated from a catalogue are built by the REAL SynthDef; on the real bytes
  (1) the model parser (coq/model/Scgf.v, written from the format description) must consume them
      completely and wf_def must hold (every input = existing constant or output of a strictly earlier
      unit; counts/rates/slots consistent), width-first units precede every unit created after them;
  (2) the model writer applied to the parsed structure must reproduce the bytes exactly;
  (3) the library's own SynthDesc reader must agree with the model's read_desc;
  (4) invalid graphs must raise and produce no bytes;
  (5) names up to 255 ASCII characters are written, longer / non-ASCII names raise (model guard = impl).
"""
import json, os, sys
import fw
from fw import Corr, Failure, cz, cbool, clist, copt, cpair

sys.path.insert(0, os.path.join(fw.VERIF, 'harness', 'oracles'))
import scgf as oracle  # noqa: E402  (independent parser; used by search() and to word violation reports)

TITLE = 'Emitted definitions are well-formed, topologically ordered SCgf v2'
TRANSLATED = ['Gen_scgftables', 'Gen_opcodes']
MODEL_TARGETS = ['model/Scgf.vo', 'model/GraphScgf.vo']
ALLOWED_AXIOMS = []
TRUSTED = [
    'SCgf version-2 layout transcribed by hand from the SuperCollider "Synth Definition File Format" description (parser in coq/model/Scgf.v; independent Python transcription in harness/oracles/scgf.py)',
    'float32 fields are opaque 32-bit words: struct.pack(">f") rounding is CPython\'s',
    'class tables of the description reader (control / In / Out classes and their fixed argument counts) are transcribed by hand and validated by the correspondence only',
    'harness/impl/c02_build.py: program interpreter, creation-index stamps (SynthDef._add_ugen / _replace_ugen replaced from the harness process), canonicalisation of SynthDesc',
    'topological order of the COMPILER (for all graphs) is C01/C20\'s theorem; here wf_def is evaluated on every real emitted definition',
]
ASSUMES = ['the UGen catalogue of the generator (74 classes) stands for all unit classes: every class writes itself through SynthObject._write_def',
           'SynthDesc reader mirror: unit classes are installed (class lookup by name is not modelled)']

HEADER = ('From Coq Require Import ZArith List Bool. Import ListNotations.\n'
          'Require Import SC3.lib.PyNum SC3.model.Scgf.\nOpen Scope Z_scope.\n')

# ---------------------------------------------------------------------------
# catalogue: class, methods, argument kinds
#   sig     any signal / constant / list (multichannel expansion)
#   same    must have the unit's rate (classes that check the first input)
#   audio   must be audio rate when the unit is audio rate
#   num     a constant        int:a:b  an integer constant
#   buf     a LocalBuf        chain    an FFT chain       dlist  list of demand units / constants
#   env     an Env            nch      literal channel count
CAT = [
    ('SinOsc', ['ar', 'kr'], ['sig', 'sig'], 6), ('LFSaw', ['ar', 'kr'], ['sig', 'num'], 2),
    ('Saw', ['ar', 'kr'], ['sig'], 2), ('Pulse', ['ar', 'kr'], ['sig', 'sig'], 2),
    ('Impulse', ['ar', 'kr'], ['sig', 'num'], 2), ('WhiteNoise', ['ar', 'kr'], [], 2),
    ('PinkNoise', ['ar'], [], 1), ('Dust', ['ar', 'kr'], ['sig'], 2), ('LFNoise0', ['ar', 'kr'], ['sig'], 2),
    ('LFNoise1', ['ar', 'kr'], ['sig'], 1), ('Crackle', ['ar'], ['num'], 1),
    ('LPF', ['ar', 'kr'], ['same', 'sig'], 3), ('BPF', ['ar', 'kr'], ['same', 'sig', 'sig'], 2),
    ('RLPF', ['ar', 'kr'], ['same', 'sig', 'sig'], 1), ('Lag', ['ar', 'kr'], ['same', 'num'], 2),
    ('Decay', ['ar', 'kr'], ['same', 'num'], 1), ('Decay2', ['ar'], ['same', 'num', 'num'], 1),
    ('LeakDC', ['ar'], ['same', 'num'], 1), ('OnePole', ['ar', 'kr'], ['same', 'num'], 1),
    ('Latch', ['ar', 'kr'], ['same', 'sig'], 1), ('Gate', ['ar', 'kr'], ['same', 'sig'], 1),
    ('DelayN', ['ar', 'kr'], ['same', 'num', 'sig'], 2), ('CombN', ['ar'], ['same', 'num', 'sig', 'sig'], 1),
    ('Pan2', ['ar'], ['audio', 'sig', 'sig'], 4), ('Balance2', ['ar'], ['audio', 'audio', 'sig', 'sig'], 1),
    ('Rotate2', ['ar'], ['audio', 'audio', 'sig'], 1), ('Pan4', ['ar'], ['audio', 'sig', 'sig', 'num'], 1),
    ('In', ['ar', 'kr'], ['bus', 'nch'], 3), ('InFeedback', ['ar'], ['bus', 'nch'], 1),
    ('LagIn', ['kr'], ['bus', 'nch', 'num'], 1), ('InTrig', ['kr'], ['bus', 'nch'], 1),
    ('LocalIn', ['ar', 'kr'], ['nch', 'num'], 1),
    ('Line', ['ar', 'kr'], ['num', 'num', 'num', 'int:0:2'], 2), ('EnvGen', ['ar', 'kr'], ['env', 'sig1', 'num', 'num', 'num', 'int:0:2'], 3),
    ('Linen', ['kr'], ['sig1', 'num', 'num', 'num', 'int:0:2'], 1),
    ('Rand', ['new'], ['num', 'num'], 2), ('IRand', ['new'], ['int:0:9', 'int:10:99'], 1), ('ExpRand', ['new'], ['num', 'num'], 1),
    ('TRand', ['ar', 'kr'], ['sig', 'sig', 'sig'], 1), ('SampleRate', ['ir'], [], 1), ('ControlRate', ['ir'], [], 1),
    ('LocalBuf', ['new'], ['int:64:2048', 'int:1:2'], 3), ('FFT', ['kr'], ['buf', 'audio1'], 3),
    ('PV_MagAbove', ['new'], ['chain', 'sig1'], 2), ('PV_MagSmear', ['new'], ['chain', 'num'], 1),
    ('PV_BinWipe', ['new'], ['chain', 'chain', 'sig1'], 1), ('PV_MagMul', ['new'], ['chain', 'chain'], 1),
    ('IFFT', ['ar', 'kr'], ['chain'], 2), ('RandSeed', ['kr', 'ir'], ['sig1', 'int:1:99999'], 2),
    ('RandID', ['ir', 'kr'], ['int:0:7'], 1), ('ClearBuf', ['new'], ['buf'], 1), ('SetBuf', ['new'], ['buf', 'numlist', 'int:0:3'], 1),
    ('Dseq', ['dr'], ['dlist', 'int:1:4'], 2), ('Drand', ['dr'], ['dlist', 'int:1:4'], 1),
    ('Dseries', ['dr'], ['num', 'num', 'int:1:9'], 1), ('Dwhite', ['dr'], ['num', 'num', 'int:1:9'], 1),
    ('Demand', ['ar', 'kr'], ['same1', 'num', 'dlist'], 2), ('Duty', ['ar', 'kr'], ['dsig', 'num', 'dsig'], 2),
    ('TDuty', ['ar', 'kr'], ['dsig', 'num', 'dsig'], 1),
    ('Select', ['ar', 'kr'], ['sig1', 'siglist'], 2), ('K2A', ['ar'], ['notaudio'], 1), ('A2K', ['kr'], ['sig1'], 1),
    ('DC', ['ar', 'kr'], ['num'], 1), ('SendTrig', ['kr'], ['sig1', 'int:0:9', 'sig1'], 1), ('FreeSelf', ['kr'], ['sig1'], 1),
    ('Amplitude', ['ar', 'kr'], ['sig1', 'num', 'num'], 1), ('Klang', ['ar'], ['klang', 'num', 'num'], 1),
    ('Mix', ['new'], ['siglist'], 2), ('Limiter', ['ar'], ['audio', 'num', 'num'], 1),
    ('Out', ['ar', 'kr'], ['bus', 'outsig'], 4), ('ReplaceOut', ['ar'], ['bus', 'outsig'], 1),
    ('OffsetOut', ['ar'], ['bus', 'outsig'], 1), ('XOut', ['ar'], ['bus', 'sig1', 'outsig'], 1),
    ('LocalOut', ['ar'], ['outsig'], 1),
]
CAT_BY_NAME = {c[0]: c for c in CAT}
IO_CLASSES = ('In', 'InFeedback', 'LagIn', 'InTrig', 'LocalIn', 'Out', 'ReplaceOut', 'OffsetOut', 'XOut', 'LocalOut')
BINOPS = ['+', '-', '*', '/', '<', '>', 'min', 'max', '%']
UNOPS = ['neg', 'abs', 'midicps', 'squared', 'tanh', 'reciprocal']
CONSTS = [0, 1, -1, 0.5, 2, 440, 0.1, 0.25, 100, 3, 1000, -0.5, 0.001, 7, 1e-9, 16777217, 0.3, 1.5, 220.5, 12, 64]
PNAMES = ['freq', 'amp', 'gate', 'pan', 'out', 'bus', 'trig', 'rate', 'cutoff', 'rq', 'dur', 'mix', 'room', 'pos',
          'width', 'detune', 'att', 'rel', 'sus', 'dec', 'lvl', 'bufnum', 'thresh', 'fb', 'mod']


class Gen:
    """Generates one program (a dict, see harness/impl/c02_build.py)."""

    def __init__(self, rng, size, nparams, nest=0.2):
        self.rng = rng
        self.size = size
        self.nparams = nparams
        self.nest = nest
        self.body = []
        self.sigs, self.bufs, self.chains, self.demands = [], [], [], []

    def const(self):
        r = self.rng
        if r.random() < 0.8:
            return r.choice(CONSTS)
        return r.choice([r.randint(-50, 5000), round(r.uniform(-10, 10), 3), r.random()])

    def ref(self, need=None, single=False):
        r = self.rng
        pool = []
        if self.sigs:
            pool.append('v')
        if self.nparams:
            pool.append('p')
        if not pool or r.random() < 0.25:
            return {'k': self.const(), 'need': need} if need else {'k': self.const()}
        a = {'need': need} if need else {}
        if r.choice(pool) == 'v':
            # prefer recent values (deep chains) but reach back too (shared sub-expressions)
            j = self.sigs[-1 - min(int(r.expovariate(0.5)), len(self.sigs) - 1)] if r.random() < 0.7 else r.choice(self.sigs)
            a['v'] = j
        else:
            a['p'] = r.randrange(self.nparams)
        if single:
            a['pick'] = r.randrange(8)
        elif r.random() < 0.5:
            a['pick'] = r.randrange(8)
        return a

    def sig(self, need=None, depth=0, single=False):
        r = self.rng
        if not single and depth < 2 and r.random() < self.nest:
            n = r.choice([2, 2, 3])
            return {'l': [self.sig(need, depth + 1) for _ in range(n)]}
        return self.ref(need, single)

    def arg(self, kind):
        r = self.rng
        if kind == 'sig':
            return self.sig()
        if kind == 'sig1':
            return self.sig(need='nodemand', single=True)
        if kind == 'same':
            return self.sig(need='same')
        if kind == 'same1':
            return self.sig(need='same', single=True)
        if kind == 'audio':
            return self.sig(need='audio')
        if kind == 'audio1':
            return self.sig(need='audio', single=True)
        if kind == 'notaudio':
            return self.sig(need='notaudio', single=True)
        if kind == 'outsig':
            a = self.sig(need='same')
            return a
        if kind == 'num':
            return {'k': self.const()}
        if kind.startswith('int:'):
            _, lo, hi = kind.split(':')
            return {'k': r.randint(int(lo), int(hi))}
        if kind == 'nch':
            return {'k': r.choice([1, 1, 2, 2, 3, 4, 8])}
        if kind == 'bus':
            if self.nparams and r.random() < 0.4:
                return {'p': r.randrange(self.nparams), 'pick': 0, 'need': 'notaudio'}
            return {'k': r.choice([0, 0, 1, 2, 8, 16])}
        if kind == 'buf':
            if self.bufs:
                return {'v': r.choice(self.bufs), 'single': 1}
            return {'k': r.choice([0, 1, 10])}
        if kind == 'chain':
            return {'v': r.choice(self.chains), 'single': 1}
        if kind == 'env':
            return {'env': r.randrange(4)}
        if kind == 'numlist':
            return {'l': [{'k': self.const()} for _ in range(r.randint(1, 4))]}
        if kind == 'dlist':
            items = []
            for _ in range(r.randint(1, 4)):
                if self.demands and r.random() < 0.5:
                    items.append({'v': r.choice(self.demands), 'single': 1})
                else:
                    items.append({'k': self.const()})
            return {'l': items}
        if kind == 'dsig':
            if self.demands and r.random() < 0.6:
                return {'v': r.choice(self.demands), 'single': 1}
            return {'k': abs(self.const()) + 0.01}
        if kind == 'siglist':
            return {'l': [self.sig(need='same', depth=2, single=True) for _ in range(r.randint(2, 4))]}
        if kind == 'klang':
            n = r.randint(1, 3)
            return {'t': [{'l': [{'k': self.const()} for _ in range(n)]} for _ in range(3)]}
        raise ValueError(kind)

    def unit(self, cls=None):
        r = self.rng
        while True:
            c = CAT_BY_NAME[cls] if cls else r.choices(CAT, weights=[x[3] for x in CAT])[0]
            if 'chain' in c[2] and not self.chains:
                if cls:
                    self.unit('FFT')
                    continue
                continue
            break
        name, meths, kinds, _ = c
        ins = {'cls': name, 'meth': r.choice(meths), 'args': [self.arg(k) for k in kinds]}
        idx = len(self.body)
        self.body.append(ins)
        if name == 'LocalBuf':
            self.bufs.append(idx)
        elif name in ('FFT',) or name.startswith('PV_'):
            self.chains.append(idx)
        elif ins['meth'] == 'dr':
            self.demands.append(idx)
        elif name in ('Out', 'ReplaceOut', 'OffsetOut', 'XOut', 'LocalOut', 'ClearBuf', 'SetBuf', 'RandSeed', 'RandID',
                      'SendTrig', 'FreeSelf'):
            pass
        else:
            self.sigs.append(idx)
        return idx

    def arith(self):
        r = self.rng
        k = r.random()
        if k < 0.6:
            ins = {'op': 'bin', 'sel': r.choice(BINOPS), 'a': self.sig(need='nodemand'), 'b': self.sig(need='nodemand')}
            if r.random() < 0.05:
                ins['b'] = dict(ins['a'])          # a op a
        elif k < 0.75:
            ins = {'op': 'un', 'sel': r.choice(UNOPS), 'a': self.sig(need='nodemand')}
        elif k < 0.9:
            ins = {'op': 'madd', 'a': self.sig(need='nodemand'), 'mul': self.ref('nodemand', True), 'add': self.ref('nodemand', True)}
        else:
            ins = {'op': 'sum', 'a': {'l': [self.sig(need='nodemand') for _ in range(r.randint(2, 5))]}}
        self.sigs.append(len(self.body))
        self.body.append(ins)

    def program(self, name):
        r = self.rng
        for _ in range(self.size):
            if r.random() < 0.3 and self.sigs:
                self.arith()
            else:
                self.unit()
        if self.sigs and (self.size >= 40 or r.random() < 0.3):
            # keep everything alive (no dead code): one output reads the sum of all signals
            self.body.append({'op': 'sum', 'a': {'l': [{'v': j, 'need': 'nodemand'} for j in self.sigs]}})
            self.body.append({'cls': 'Out', 'meth': 'ar', 'args': [{'k': 0}, {'v': len(self.body) - 1, 'need': 'audio'}]})
        for _ in range(r.randint(1, 3)):
            self.unit(r.choice(['Out', 'Out', 'Out', 'ReplaceOut', 'XOut', 'OffsetOut', 'LocalOut']))
        return {'name': name, 'params': [], 'variants': None, 'body': self.body, 'base': False}


def gen_params(rng, n):
    names = rng.sample(PNAMES, min(n, len(PNAMES)))
    while len(names) < n:
        names.append('p%d' % len(names))
    if n and rng.random() < 0.5 and 'gate' not in names:
        names[rng.randrange(n)] = 'gate'
    out = []
    for nm in names:
        p = {'name': nm}
        k = rng.random()
        if k < 0.6:
            p['default'] = rng.choice(CONSTS)
        elif k < 0.85:
            p['default'] = [rng.choice(CONSTS) for _ in range(rng.randint(2, 4))]
        else:
            p['default'] = None
        a = rng.random()
        if a < 0.55:
            p['annot'] = None
        else:
            p['annot'] = rng.choice(['ar', 'kr', 'ir', 'tr'])
        if p['annot'] in (None, 'kr') and rng.random() < 0.25:
            p['lag'] = rng.choice([0.1, 0.5, 2])
        out.append(p)
    return out


def gen_variants(rng, params, name, valid=True):
    if not params:
        return None
    keys = rng.sample(['a', 'b', 'low', 'hi', 'x1'], rng.randint(1, 3))
    vs = []
    for k in keys:
        if len(name) + 1 + len(k) > 32:
            continue
        pairs = []
        for p in rng.sample(params, rng.randint(1, min(3, len(params)))):
            d = p.get('default')
            ch = len(d) if isinstance(d, list) else 1
            if ch > 1 and rng.random() < 0.7:
                val = [rng.choice(CONSTS) for _ in range(rng.randint(1, ch))]
            else:
                val = rng.choice(CONSTS)
            pairs.append([p['name'], val])
        vs.append([k, pairs])
    return vs or None


FIXED_BODIES = [
    [{'cls': 'SinOsc', 'meth': 'ar', 'args': [{'p': 0, 'pick': 0}, {'k': 0}]},
     {'cls': 'Out', 'meth': 'ar', 'args': [{'k': 0}, {'v': 0, 'single': 1}]}],
    [{'cls': 'WhiteNoise', 'meth': 'ar', 'args': []},
     {'cls': 'LPF', 'meth': 'ar', 'args': [{'v': 0, 'single': 1}, {'p': 0, 'pick': 0}]},
     {'cls': 'Pan2', 'meth': 'ar', 'args': [{'v': 1, 'single': 1}, {'k': 0.25}, {'p': 1, 'pick': 0}]},
     {'cls': 'Out', 'meth': 'ar', 'args': [{'k': 0}, {'v': 2}]}],
    [{'cls': 'LocalBuf', 'meth': 'new', 'args': [{'k': 512}, {'k': 1}]},
     {'cls': 'In', 'meth': 'ar', 'args': [{'k': 2}, {'k': 1}]},
     {'cls': 'FFT', 'meth': 'kr', 'args': [{'v': 0, 'single': 1}, {'v': 1, 'single': 1}]},
     {'cls': 'PV_MagAbove', 'meth': 'new', 'args': [{'v': 2, 'single': 1}, {'p': 0, 'pick': 0, 'need': 'notaudio'}]},
     {'cls': 'IFFT', 'meth': 'ar', 'args': [{'v': 3, 'single': 1}]},
     {'cls': 'Out', 'meth': 'ar', 'args': [{'p': 1, 'pick': 0, 'need': 'notaudio'}, {'v': 4, 'single': 1}]}],
]


def fixed_prog(rng, name='x'):
    """A small graph that always compiles (the name / variant streams must not depend on the compiler)."""
    return {'name': name, 'params': [], 'variants': None, 'body': json.loads(json.dumps(rng.choice(FIXED_BODIES))), 'base': False}


def ascii_name(rng, n):
    return ''.join(rng.choice('abcdefghijklmnopqrstuvwxyzABCXYZ0123456789_-. ') for _ in range(n))


def make_cases(ctx):
    rng = ctx.rng
    cases = []

    def add(kind, prog, expect='ok', **kw):
        prog = dict(prog)
        prog['kind'] = kind
        prog['expect'] = expect
        prog.update(kw)
        cases.append(prog)

    # corpus first
    corpus = os.path.join(fw.VERIF, 'corpus', 'C02_cases.json')
    if os.path.exists(corpus):
        for k in json.load(open(corpus)):
            cases.append(k)

    # (a) valid graphs of growing size
    sizes = [1, 2, 3, 4, 6, 8, 12, 16, 24, 32] * ctx.n(6, 60) + ctx.n([60, 120], [60, 120, 200, 300, 400, 250, 150, 500] * 3)
    for i, size in enumerate(sizes):
        np_ = rng.choice([0, 1, 2, 3, 4, 6]) if size < 100 else rng.choice([8, 20, 40])
        g = Gen(rng, size, np_, nest=rng.choice([0.0, 0.15, 0.3]))
        nm = ascii_name(rng, rng.choice([1, 3, 5, 8, 12]))
        prog = g.program(nm)
        prog['params'] = gen_params(rng, np_)
        if np_ and rng.random() < 0.35:
            prog['variants'] = gen_variants(rng, prog['params'], nm)
            prog['base'] = bool(prog['variants'])
        add('valid', prog)

    # (a0) explicit zeros and empties: bus 0, no units at all, no constants, no controls, empty name,
    #      zero / -0.0 / False defaults, empty variant key, variant of nothing
    add('zero', {'name': 'z', 'params': [], 'variants': None, 'base': False,
                 'body': [{'cls': 'SinOsc', 'meth': 'ar', 'args': [{'k': 440}, {'k': 0}]},
                          {'cls': 'Out', 'meth': 'ar', 'args': [{'k': 0}, {'v': 0, 'single': 1}]}]},
        python="SynthDesc.new_from(SynthDef('z', lambda: Out.ar(0, SinOsc.ar(440)))).outputs[0].starting_channel")
    add('zero', {'name': 'e0', 'params': [], 'variants': None, 'body': [], 'base': False})
    add('zero', {'name': '', 'params': [], 'variants': None, 'body': [], 'base': False})
    add('zero', {'name': 'e1', 'params': [{'name': 'a', 'default': 0, 'annot': None}, {'name': 'b', 'default': -0.0, 'annot': 'ir'},
                                          {'name': 'c', 'default': False, 'annot': 'tr'}, {'name': 'gate', 'default': 0.0, 'annot': None}],
                 'variants': [['', [['a', 0]]], ['0', [['gate', -0.0]]]], 'body': [], 'base': True})
    add('zero', {'name': 'e2', 'params': [{'name': 'bus', 'default': 0, 'annot': None}], 'variants': None, 'base': False,
                 'body': [{'cls': 'In', 'meth': 'ar', 'args': [{'k': 0}, {'k': 1}]},
                          {'cls': 'WhiteNoise', 'meth': 'ar', 'args': []},
                          {'cls': 'Out', 'meth': 'ar', 'args': [{'k': -0.0}, {'v': 1, 'single': 1}]},
                          {'cls': 'ReplaceOut', 'meth': 'ar', 'args': [{'p': 0, 'pick': 0, 'need': 'raw'}, {'v': 0, 'single': 1}]},
                          {'cls': 'LocalIn', 'meth': 'ar', 'args': [{'k': 1}, {'k': 0}]},
                          {'cls': 'XOut', 'meth': 'ar', 'args': [{'k': 0}, {'k': 0}, {'v': 1, 'single': 1}]}]})
    # every operator of the unary and of the binary table (indices are taken modulo the length of the
    # library's own tables at run time), on ar and kr signals, read back by the library's reader
    idxs = list(range(0, 64))
    rng.shuffle(idxs)
    per = ctx.n(8, 4)
    for j in range(0, len(idxs), per):
        body = [{'cls': 'SinOsc', 'meth': 'ar', 'args': [{'p': 0, 'pick': 0}, {'k': 0}]},
                {'cls': 'LFSaw', 'meth': 'kr', 'args': [{'k': 0.5}, {'k': 0}]}]
        for i_ in idxs[j:j + per]:
            body.append({'op': 'unidx', 'idx': i_, 'a': {'v': rng.choice([0, 1]), 'single': 1}})
            body.append({'op': 'binidx', 'idx': i_, 'a': {'v': rng.randrange(len(body)), 'single': 1},
                         'b': {'v': rng.choice([0, 1]), 'single': 1}})
        body.append({'op': 'sum', 'a': {'l': [{'v': q, 'single': 1} for q in range(2, len(body))]}})
        body.append({'cls': 'Out', 'meth': 'ar', 'args': [{'p': 1, 'pick': 0, 'need': 'raw'}, {'v': len(body) - 1, 'need': 'audio'}]})
        add('ops', {'name': 'ops%d' % j, 'params': [{'name': 'freq', 'default': [220, 330], 'annot': None},
                                                    {'name': 'out', 'default': 0, 'annot': None},
                                                    {'name': 'gate', 'default': 1, 'annot': None}],
                    'variants': None, 'body': body, 'base': False})

    # wide units: more than 255 outputs / inputs on one unit
    add('wide', {'name': 'w1', 'params': [{'name': 'arr', 'default': [float(i) for i in range(300)], 'annot': None},
                                          {'name': 'out', 'default': 0, 'annot': 'ir'}],
                 'variants': None, 'base': False,
                 'body': [{'cls': 'SinOsc', 'meth': 'ar', 'args': [{'k': 440}, {'k': 0}]},
                          {'cls': 'Out', 'meth': 'ar', 'args': [{'p': 1, 'pick': 0, 'need': 'raw'},
                                                               {'l': [{'v': 0, 'single': 1} for _ in range(300)]}]},
                          {'cls': 'Out', 'meth': 'kr', 'args': [{'k': 0}, {'p': 0, 'need': 'raw'}]}]})
    # float32 edge constants: denormal, largest, smallest normal, -0.0 next to 0.0, inf
    edge = [1e-45, -1e-45, 3.4028234e38, -3.4028234e38, 1.17549435e-38, -0.0, 0.0, 16777217, 0.1, float('inf'), -float('inf')]
    for j in range(0, len(edge), 3):
        vals = edge[j:j + 3]
        add('edge', {'name': 'ed%d' % j, 'params': [{'name': 'p', 'default': vals[0], 'annot': None}], 'variants': None, 'base': False,
                     'body': [{'cls': 'SinOsc', 'meth': 'ar', 'args': [{'k': vals[0]}, {'k': vals[-1]}]},
                              {'cls': 'LPF', 'meth': 'ar', 'args': [{'v': 0, 'single': 1}, {'k': vals[len(vals) // 2]}]},
                              {'cls': 'Out', 'meth': 'ar', 'args': [{'k': 0}, {'v': 1, 'single': 1}]}]})
    if not ctx.quick:
        # counts at the int16 edge: the special index of the second control unit is 32767 (written) / 32768 (must raise)
        for n, exp in [(32767, 'ok'), (32768, 'raise')]:
            add('edge16', {'name': 'big%d' % n, 'params': [{'name': 'a', 'default': [0.5] * n, 'annot': 'ir'},
                                                           {'name': 'b', 'default': 1, 'annot': None}],
                           'variants': None, 'base': False,
                           'body': [{'cls': 'Out', 'meth': 'kr', 'args': [{'k': 0}, {'p': 1, 'pick': 0, 'need': 'raw'}]}]}, expect=exp)

    # definitions that BUILD but cannot be WRITTEN (a value that does not fit a float32, a non-numeric variant
    # value, ...): as_bytes() must raise, and raise again when it is called again on the same object
    for tag_, kw in (('default', {'params': [{'name': 'big', 'default': 1e40, 'annot': None}]}),
                     ('array-default', {'params': [{'name': 'arr', 'default': [1.0, -1e39, 2.0], 'annot': 'ir'}]}),
                     ('variant-value', {'params': [{'name': 'freq', 'default': 440, 'annot': None}], 'variants': [['a', [['freq', 1e40]]]]}),
                     ('variant-str', {'params': [{'name': 'freq', 'default': 440, 'annot': None}], 'variants': [['a', [['freq', 'abc']]]]}),
                     ('lag', {'params': [{'name': 'freq', 'default': 440, 'annot': None, 'lag': 1e40}]})):
        p = fixed_prog(rng, 'uw')
        p.update(kw)
        add('unwritable', p, expect='raise', label='unwritable:' + tag_)

    # (b) names: boundary lengths, non-ASCII
    small = lambda: fixed_prog(rng)
    for n in [0, 1, 2, 31, 32, 33, 127, 128, 254, 255, 255, 256, 257, 300, 1000]:
        p = small()
        p['params'] = gen_params(rng, 2)
        p['name'] = ascii_name(rng, n)
        add('name', p, expect='ok' if n <= 255 else 'raise', base=True)
    for nm in ['é', 'naïve', 'a名', 'x\x7f', 'tab\tname', '\x80']:
        p = small()
        p['name'] = nm
        add('name', p, expect='model', base=True)
    # parameter names: long and non-ASCII identifiers
    for pn, exp in [('p' * 255, 'ok'), ('q' * 256, 'raise'), ('fréq', 'raise'), ('µ', 'raise'), ('r' * 127, 'ok'), ('s' * 128, 'ok'),
                    ('t' * 254, 'ok')]:
        p = small()
        p['params'] = [{'name': pn, 'default': 1, 'annot': None}, {'name': 'gate', 'default': 1, 'annot': None}]
        add('pname', p, expect=exp)

    # unit (class) names of length 127, 128, 255 (and 256: must raise) through both readers
    for n, exp in [(127, 'ok'), (128, 'ok'), (255, 'ok'), (256, 'raise'), (1, 'ok')]:
        uname = 'U' + ''.join(rng.choice('abcdefghijklmnopqrstuvwxyz0123456789_') for _ in range(n - 1))
        p = {'name': 'un%d' % n, 'params': [{'name': 'freq', 'default': 440, 'annot': None}], 'variants': None, 'base': False,
             'body': [{'dyncls': uname, 'basecls': rng.choice(['SinOsc', 'Saw', 'LFNoise0']), 'meth': 'ar', 'args': [{'p': 0, 'pick': 0}]},
                      {'cls': 'Out', 'meth': 'ar', 'args': [{'k': 0}, {'v': 0, 'single': 1}]}]}
        add('uname', p, expect=exp)

    # several control units: ir / tr / ar groups and more than 16 lagged kr parameters (LagControl is
    # built in clumps of 16); In/Out units take their bus from parameters living in any of them
    for _ in range(ctx.n(6, 40)):
        params = []
        for r_, pre in (('ir', 'i'), ('tr', 't'), ('ar', 'a')):
            for j in range(rng.choice([0, 1, 2, 3])):
                d = rng.choice(CONSTS) if rng.random() < 0.7 else [rng.choice(CONSTS) for _ in range(rng.randint(2, 3))]
                params.append({'name': '%s%d' % (pre, j), 'default': d, 'annot': r_})
        nk = rng.choice([1, 5, 16, 17, 18, 24, 33, 40])
        lagged = rng.random() < 0.8
        for j in range(nk):
            d = rng.choice(CONSTS) if rng.random() < 0.8 else [rng.choice(CONSTS) for _ in range(rng.randint(2, 3))]
            q = {'name': 'k%d' % j, 'default': d, 'annot': None}
            if lagged and rng.random() < 0.9:
                q['lag'] = rng.choice([0.1, 0.5, 2])
            params.append(q)
        if rng.random() < 0.5:
            params[rng.randrange(len(params))]['name'] = 'gate'
        rng.shuffle(params)
        body = [{'cls': 'SinOsc', 'meth': 'ar', 'args': [{'p': rng.randrange(len(params)), 'pick': 0}, {'k': 0}]}]
        for _u in range(rng.randint(2, 6)):
            busarg = {'p': rng.randrange(len(params)), 'pick': rng.randrange(3), 'need': 'raw'}
            if rng.random() < 0.4:
                body.append({'cls': rng.choice(['In', 'In', 'InFeedback', 'LagIn', 'InTrig']), 'meth': None, 'args': [busarg, {'k': rng.choice([1, 2])}]})
                body[-1]['meth'] = {'In': rng.choice(['ar', 'kr']), 'InFeedback': 'ar', 'LagIn': 'kr', 'InTrig': 'kr'}[body[-1]['cls']]
                if body[-1]['cls'] == 'LagIn':
                    body[-1]['args'].append({'k': 0.1})
            else:
                cls_ = rng.choice(['Out', 'Out', 'ReplaceOut', 'OffsetOut', 'XOut'])
                args = [busarg] + ([{'k': 0.5}] if cls_ == 'XOut' else []) + [{'v': 0, 'single': 1}]
                body.append({'cls': cls_, 'meth': 'ar', 'args': args})
        add('multictl', {'name': ascii_name(rng, 6), 'params': params, 'variants': None, 'body': body, 'base': False}, expect='ok')

    # several GROUPS of controls in one definition: the function's own parameters (lagged or not, arrays of
    # more than 16 lagged slots), then SynthDef.wrap(inner function with parameters) and controls registered
    # by hand (<Class>.add_name + constructor), in any order; every default value is distinct, so a name
    # pointing at the wrong slot shows
    for _ in range(ctx.n(10, 60)):
        cnt = [0]

        def val():
            cnt[0] += 1
            return float(cnt[0])

        def plist(prefix, n, lagp):
            ps = []
            for j in range(n):
                d = val() if rng.random() < 0.7 else [val() for _ in range(rng.choice([2, 3, 17, 18]))]
                q = {'name': '%s%d' % (prefix, j), 'default': d, 'annot': rng.choice([None, None, None, 'kr', 'ir', 'tr', 'ar'])}
                if q['annot'] in (None, 'kr') and rng.random() < lagp:
                    q['lag'] = rng.choice([0.1, 0.2, 0.5])
                ps.append(q)
            return ps
        params = plist('a', rng.randint(0, 3), rng.choice([0.0, 0.9, 0.9]))
        body = [{'cls': 'SinOsc', 'meth': 'ar', 'args': [{'k': 440}, {'k': 0}]}]
        names_used = set(p_['name'] for p_ in params)
        for gi in range(rng.randint(1, 4)):
            if rng.random() < 0.5:
                inner = plist('w%d_' % gi, rng.randint(1, 3), rng.choice([0.0, 0.8]))
                ibody = [{'cls': 'SinOsc', 'meth': 'ar', 'args': [{'p': 0, 'pick': 0, 'need': 'notaudio'}, {'k': 0}]}]
                for j in range(len(inner)):
                    ibody.append({'op': 'bin', 'sel': '*', 'a': {'v': len(ibody) - 1, 'single': 1}, 'b': {'p': j, 'pick': rng.randrange(3)}})
                body.append({'wrap': {'params': inner, 'body': ibody}})
            else:
                cls_ = rng.choice(['Control', 'Control', 'TrigControl', 'AudioControl', 'LagControl'])
                n = rng.choice([1, 1, 2, 3, 17])
                k_ = {'cls': cls_, 'name': 'm%d' % gi, 'values': [val() for _ in range(n)],
                      'meth': {'Control': rng.choice(['kr', 'ir']), 'TrigControl': 'kr', 'AudioControl': 'ar', 'LagControl': 'kr'}[cls_]}
                if cls_ == 'LagControl':
                    k_['lags'] = [rng.choice([0.1, 0.3]) for _ in range(n)]
                body.append({'ctl': k_})
            body.append({'op': 'bin', 'sel': '*', 'a': {'v': 0, 'single': 1}, 'b': {'v': len(body) - 1, 'pick': rng.randrange(4), 'need': 'nodemand'}})
            body.append({'cls': 'Out', 'meth': 'ar', 'args': [{'k': gi}, {'v': len(body) - 1, 'need': 'audio'}]})
        for j in range(len(params)):
            body.append({'cls': 'Out', 'meth': 'kr', 'args': [{'k': 10 + j}, {'p': j, 'need': 'notaudio'}]})
        add('groups', {'name': ascii_name(rng, 5), 'params': params, 'variants': None, 'body': body, 'base': False}, expect='ok')

    # (c) variants: valid boundary (full name exactly 32) and invalid ones (F19): the valid prefix is written,
    # the count must be the number of variants that follow
    def vprog():
        p = fixed_prog(rng, 'v')
        p['params'] = [{'name': 'freq', 'default': 440, 'annot': None}, {'name': 'amps', 'default': [0.1, 0.2, 0.3], 'annot': rng.choice([None, 'ir'])},
                       {'name': 'gate', 'default': 1, 'annot': None}]
        p['base'] = True
        return p
    pmin = {'name': 'v', 'params': [{'name': 'freq', 'default': 440, 'annot': None}], 'base': True,
            'variants': [['a', [['nope', 1]]]],
            'body': [{'cls': 'SinOsc', 'meth': 'ar', 'args': [{'p': 0}, {'k': 0}]},
                     {'cls': 'Out', 'meth': 'ar', 'args': [{'k': 0}, {'v': 0, 'single': 1}]}]}
    add('variant', pmin, expect='model',
        python="SynthDef('v', lambda freq=440: Out.ar(0, SinOsc.ar(freq)), variants={'a': {'nope': 1}}).as_bytes()")
    p = vprog(); p['name'] = 'n' * 28; p['variants'] = [['abc', [['freq', 220]]]]; add('variant', p, expect='ok')
    p = vprog(); p['name'] = 'n' * 29; p['variants'] = [['abc', [['freq', 220]]]]; add('variant', p, expect='model')
    p = vprog(); p['variants'] = [['a', [['nope', 1]]]]; add('variant', p, expect='model')
    p = vprog(); p['variants'] = [['a', [['freq', 220]]], ['b', [['nope', 1]]]]; add('variant', p, expect='model')
    p = vprog(); p['variants'] = [['a', [['freq', [1, 2]]]]]; add('variant', p, expect='model')
    p = vprog(); p['variants'] = [['a', [['amps', [1, 2, 3, 4]]]]]; add('variant', p, expect='model')
    p = vprog(); p['variants'] = [['a', [['amps', [1, 2, 3]], ['gate', 0]]], ['b', [['amps', 9]]]]; add('variant', p, expect='ok')
    for _ in range(ctx.n(4, 20)):
        p = vprog()
        p['variants'] = gen_variants(rng, p['params'], 'v')
        if p['variants'] and rng.random() < 0.5:
            bad = rng.choice(['unknown', 'size', 'long'])
            if bad == 'unknown':
                p['variants'][-1][1].append(['zz', 1])
            elif bad == 'size':
                p['variants'][-1][1].append(['freq', [1, 2, 3]])
            else:
                p['variants'].append(['k' * 31, [['freq', 1]]])
            add('variant', p, expect='model')
        else:
            add('variant', p, expect='ok')

    # (d) invalid graphs: must raise, no bytes
    def host():
        g = Gen(rng, rng.randint(0, 6), 2)
        g.program('bad')
        return g
    invalid = [
        ('rate:LPF.kr(audio)', [{'cls': 'SinOsc', 'meth': 'ar', 'args': [{'k': 440}, {'k': 0}]},
                                {'cls': 'LPF', 'meth': 'kr', 'args': [{'v': -1, 'single': 1, 'need': 'raw'}, {'k': 300}]},
                                {'cls': 'Out', 'meth': 'kr', 'args': [{'k': 0}, {'v': -1, 'single': 1, 'need': 'raw'}]}]),
        ('rate:LPF.ar(control)', [{'cls': 'SinOsc', 'meth': 'kr', 'args': [{'k': 3}, {'k': 0}]},
                                  {'cls': 'LPF', 'meth': 'ar', 'args': [{'v': -1, 'single': 1, 'need': 'raw'}, {'k': 300}]},
                                  {'cls': 'Out', 'meth': 'ar', 'args': [{'k': 0}, {'v': -1, 'single': 1, 'need': 'raw'}]}]),
        ('rate:Out.ar(control)', [{'cls': 'SinOsc', 'meth': 'kr', 'args': [{'k': 3}, {'k': 0}]},
                                  {'cls': 'Out', 'meth': 'ar', 'args': [{'k': 0}, {'v': -1, 'single': 1, 'need': 'raw'}]}]),
        ('rate:Pan2.ar(control)', [{'cls': 'LFNoise0', 'meth': 'kr', 'args': [{'k': 3}]},
                                   {'cls': 'Pan2', 'meth': 'ar', 'args': [{'v': -1, 'single': 1, 'need': 'raw'}, {'k': 0}, {'k': 1}]},
                                   {'cls': 'Out', 'meth': 'ar', 'args': [{'k': 0}, {'v': -1, 'need': 'raw'}]}]),
        ('rate:Lag.kr(audio)', [{'cls': 'WhiteNoise', 'meth': 'ar', 'args': []},
                                {'cls': 'Lag', 'meth': 'kr', 'args': [{'v': -1, 'single': 1, 'need': 'raw'}, {'k': 0.1}]},
                                {'cls': 'Out', 'meth': 'kr', 'args': [{'k': 0}, {'v': -1, 'single': 1, 'need': 'raw'}]}]),
        ('nan:SinOsc', [{'cls': 'SinOsc', 'meth': 'ar', 'args': [{'bad': 'nan'}, {'k': 0}]},
                        {'cls': 'Out', 'meth': 'ar', 'args': [{'k': 0}, {'v': -1, 'single': 1}]}]),
        ('nan:binop', [{'cls': 'SinOsc', 'meth': 'ar', 'args': [{'k': 440}, {'k': 0}]},
                       {'op': 'bin', 'sel': '*', 'a': {'v': -1, 'single': 1}, 'b': {'bad': 'nan'}},
                       {'cls': 'Out', 'meth': 'ar', 'args': [{'k': 0}, {'v': -1, 'single': 1}]}]),
        ('nan:Out.bus', [{'cls': 'SinOsc', 'meth': 'ar', 'args': [{'k': 440}, {'k': 0}]},
                         {'cls': 'Out', 'meth': 'ar', 'args': [{'bad': 'nan'}, {'v': -1, 'single': 1}]}]),
        ('nan:list', [{'cls': 'SinOsc', 'meth': 'ar', 'args': [{'l': [{'k': 440}, {'bad': 'nan'}]}, {'k': 0}]},
                      {'cls': 'Out', 'meth': 'ar', 'args': [{'k': 0}, {'v': -1}]}]),
        ('str:SinOsc', [{'cls': 'SinOsc', 'meth': 'ar', 'args': [{'bad': 'str'}, {'k': 0}]},
                        {'cls': 'Out', 'meth': 'ar', 'args': [{'k': 0}, {'v': -1, 'single': 1}]}]),
        ('none:SinOsc', [{'cls': 'SinOsc', 'meth': 'ar', 'args': [{'bad': 'none'}, {'k': 0}]},
                         {'cls': 'Out', 'meth': 'ar', 'args': [{'k': 0}, {'v': -1, 'single': 1}]}]),
        ('none:LPF.freq', [{'cls': 'WhiteNoise', 'meth': 'ar', 'args': []},
                           {'cls': 'LPF', 'meth': 'ar', 'args': [{'v': -1, 'single': 1}, {'bad': 'none'}]},
                           {'cls': 'Out', 'meth': 'ar', 'args': [{'k': 0}, {'v': -1, 'single': 1}]}]),
        ('obj:SinOsc', [{'cls': 'SinOsc', 'meth': 'ar', 'args': [{'bad': 'obj'}, {'k': 0}]},
                        {'cls': 'Out', 'meth': 'ar', 'args': [{'k': 0}, {'v': -1, 'single': 1}]}]),
        ('str:Out.bus', [{'cls': 'SinOsc', 'meth': 'ar', 'args': [{'k': 440}, {'k': 0}]},
                         {'cls': 'Out', 'meth': 'ar', 'args': [{'bad': 'str'}, {'v': -1, 'single': 1}]}]),
        ('big:SinOsc', [{'cls': 'SinOsc', 'meth': 'ar', 'args': [{'bad': 'big'}, {'k': 0}]},
                        {'cls': 'Out', 'meth': 'ar', 'args': [{'k': 0}, {'v': -1, 'single': 1}]}]),
        # non-numeric (a tuple is the library's "do not expand" sequence) left in a unit's inputs
        ('seq:SinOsc((0,0))', [{'cls': 'SinOsc', 'meth': 'ar', 'args': [{'t': [{'k': 0.0}, {'k': 0.0}]}, {'k': 0.0}]},
                               {'cls': 'Out', 'meth': 'ar', 'args': [{'k': 0}, {'v': -1, 'single': 1}]}]),
        ('seq:Out(0,(a,b))', [{'cls': 'SinOsc', 'meth': 'ar', 'args': [{'k': 440}, {'k': 0}]},
                              {'cls': 'Saw', 'meth': 'ar', 'args': [{'k': 440}]},
                              {'cls': 'Out', 'meth': 'ar', 'args': [{'k': 0}, {'t': [{'v': -2, 'single': 1}, {'v': -1, 'single': 1}]}]}]),
        ('seq:LPF((a,b))', [{'cls': 'SinOsc', 'meth': 'ar', 'args': [{'k': 440}, {'k': 0}]},
                            {'cls': 'LPF', 'meth': 'ar', 'args': [{'t': [{'v': -1, 'single': 1}, {'v': -1, 'single': 1}]}, {'k': 300}]},
                            {'cls': 'Out', 'meth': 'ar', 'args': [{'k': 0}, {'v': -1, 'single': 1}]}]),
        ('seq:SinOsc((440,0))', [{'cls': 'SinOsc', 'meth': 'ar', 'args': [{'t': [{'k': 440}, {'k': 0.0}]}, {'k': 0.0}]},
                                 {'cls': 'Out', 'meth': 'ar', 'args': [{'k': 0}, {'v': -1, 'single': 1}]}]),
    ]
    for rep_ in range(ctx.n(2, 6)):
        for label, tail in invalid:
            g = host() if rep_ else Gen(rng, 0, 0)
            base_len = len(g.body)
            body = list(g.body)
            for ins in tail:
                ins = json.loads(json.dumps(ins))
                # relative references (-1 = previous instruction) -> absolute indices
                def fix(a):
                    if isinstance(a, dict):
                        if 'v' in a and a['v'] < 0:
                            a['v'] = len(body) + a['v']
                        for k in ('l', 't'):
                            if k in a:
                                for x in a[k]:
                                    fix(x)
                for a in ins.get('args', []):
                    fix(a)
                for k in ('a', 'b'):
                    if k in ins:
                        fix(ins[k])
                body.append(ins)
            prog = {'name': 'bad', 'params': gen_params(rng, 2) if rep_ else [], 'variants': None, 'body': body, 'base': False}
            add('invalid', prog, expect='raise', label=label, host=base_len)
    return cases


# ---------------------------------------------------------------------------
# Coq term printers for one case

def cb(s):
    """bytes / str -> list Z literal (str as UTF-8)."""
    if isinstance(s, str):
        s = s.encode('utf8')
    return '[' + ';'.join(str(x) for x in bytes(s)) + ']'


def f32w(x):
    import struct
    try:
        return struct.unpack('>I', struct.pack('>f', x))[0]
    except (OverflowError, struct.error, TypeError):
        return 0x7fc00001


def c_desc(d):
    if d is None:
        return 'None'
    ctls = clist(['(mkCtl %s %s %s)' % (copt(c[0], cb), cz(c[1]), clist(c[2], cz)) for c in d['ctls']])

    def st(s):
        if s[0] == 'q':
            return 'SQ'
        if s[0] == 'c':
            return '(SConst %s)' % cz(s[1])
        if s[0] == 'n':
            return '(SName %s)' % cb(s[1])
        if s[0] == 'u':
            return '(SUgen %s %s)' % (cz(s[1]), cz(s[2]))
        return '(SUgen (-7) (-7))'

    def io(x):
        return '(mkIo %s %s %s %s)' % (cz(x[0]), cz(x[1]), st(x[2]), cb(x[3]))
    return '(Some (mkDesc %s %s %s %s %s %s %s))' % (
        cb(d['name']), clist(d['cnames'], cb), ctls, cbool(d['gate']), cbool(d['hasvar']),
        clist(d['ins'], io), clist(d['outs'], io))


def c_libops(recon):
    """operators of the units rebuilt by the library reader (None: the reader raised)."""
    if recon is None:
        return 'None'
    return '(Some %s)' % clist([copt(u[5], cb) for u in recon])


def recon_mismatch(o):
    """the units the library reader rebuilds from the emitted bytes against the live units (Python level)."""
    if o.get('recon') is None:
        if o.get('desc') is None and not o.get('recon_exc'):
            return None
        return 'raised %s' % (o.get('recon_exc') or o.get('desc_exc'),)
    truth = o.get('truth') or []
    if len(truth) != len(o['recon']):
        return 'rebuilt %d units from %d' % (len(o['recon']), len(truth))
    names = ['scalar', 'control', 'audio', 'demand']
    for pos, (t, r) in enumerate(zip(truth, o['recon'])):
        cls_, rate, special, ins, nch, oper = r
        if cls_ != t[0]:
            return 'rebuilt unit %d as %r instead of %r' % (pos, cls_, t[0])
        if rate != names[t[1]]:
            return 'rebuilt unit %d (%s) with rate %r instead of %r' % (pos, cls_, rate, names[t[1]])
        if nch is not None and nch != len(t[3]):
            return 'rebuilt unit %d (%s) with %d channels instead of %d' % (pos, cls_, nch, len(t[3]))
        if len(ins) != len(t[2]):
            return 'rebuilt unit %d (%s) with %d inputs instead of %d' % (pos, cls_, len(ins), len(t[2]))
        for a, b in zip(ins, t[2]):
            want = ['c', o['truthk'][b[1]]] if b[0] == -1 else ['u', b[0], b[1]]
            if a != want:
                return 'rebuilt unit %d (%s) with input %r instead of %r' % (pos, cls_, a, want)
        if t[5] is not None and oper != t[5]:
            return 'rebuilt operator unit %d (%s, special index %d) with operator %r instead of %r' % (pos, cls_, t[4], oper, t[5])
        if nch is None and special != t[4]:
            return 'rebuilt unit %d (%s) with special index %r instead of %r' % (pos, cls_, special, t[4])
    return None


def make_item(k, o, b):
    """the Coq term that evaluates every byte-level stage on one real definition."""
    decl = clist(['(%s, %s, %s, %s)' % (cb(n), cz(i), cz(r), clist(ws, cz)) for n, i, r, ws in o.get('decl', [])])

    def c_in(i):
        return '(IConst %s)' % cz(i[1]) if i[0] == -1 else '(IOut %s %s)' % (cz(i[0]), cz(i[1]))
    truth = clist(['(mkUgen %s %s %s %s %s)' % (cb(u[0]), cz(u[1]), clist(u[2], c_in), clist(u[3], cz), cz(u[4]))
                   for u in o.get('truth', [])])
    light = sum(len(d_[3]) for d_ in o.get('decl', [])) > 4000
    fn = 'check_case_light' if light else 'check_case'
    if light:
        decl = clist(['(%s, %s, %s, [])' % (cb(n), cz(i), cz(r)) for n, i, r, ws in o.get('decl', [])])
    return '(' + fn + ' %s %s %s %s %s %s %s %s %s %s %s)' % (
        cb(b), c_order(o['order']), 'None' if light else c_desc(o['desc']), c_names3(o['names3']),
        c_vsrc(k.get('variants')), decl, copt(o.get('defname'), cb), cb(k['name']), truth,
        clist(o.get('truthk', []), cz), c_libops(o.get('recon')))


def c_names3(n3):
    return clist(['(%s, %s, %s)' % (cb(n), cz(i), cz(ch)) for n, i, ch in n3])


def c_vsrc(vs):
    def vals(v):
        v = v if isinstance(v, list) else [v]
        return clist([cz(f32w(x)) for x in v])
    return clist(['(%s, %s)' % (cb(k), clist(['(%s, %s)' % (cb(cn), vals(v)) for cn, v in pairs]))
                  for k, pairs in (vs or [])])


def c_order(order):
    return clist(['(%s, %s)' % (cz(b), cbool(w)) for b, w in order])


def short(prog):
    """The replayable part of a case (the program itself)."""
    return {k: prog[k] for k in ('name', 'params', 'variants', 'body', 'base', 'kind', 'expect', 'label', 'python') if k in prog}


STAGE = {1: 'the real bytes do not parse completely as one SCgf-2 definition (model parser)',
         2: 'wf_def fails on the parsed real definition (an input does not refer to an existing constant / an output of a strictly earlier unit, or counts/rates/slots are inconsistent)',
         3: 'the model writer applied to the parsed structure does not reproduce the real bytes',
         4: 'a width-first unit does not precede a unit created after it (or the creation list does not match the units)',
         5: 'the library\'s SynthDesc reader and the model\'s read_desc disagree',
         6: 'the variants section differs from the valid prefix of the declared variants',
         8: 'SynthDesc.def_name_from_bytes and the model disagree on the definition name',
         9: 'the parsed units / constants differ from what the live unit objects say (class, rate number, inputs as (unit, output) or constant index, output rates, special index, in order)',
         10: 'the definition name in the bytes is not the name the SynthDef was given',
         11: 'the operators the library reader gives to the Unary/BinaryOpUGen units it rebuilds differ from the operator tables (or it raised on them)',
         7: 'the description read back from the bytes does not recover the declared parameters (name / slot / rate / default values / gate flag)'}

SIGS = {'variant': 'C02:variant-count-without-variants', 'seq': 'C02:sequence-input-bytes', 'bus0': 'C02:iodesc-bus-zero'}


def correspond(ctx):
    c = Corr()
    cases = make_cases(ctx)
    # several impl processes in parallel (deterministic split)
    nproc = 4 if ctx.quick else 8
    chunks = [cases[i::nproc] for i in range(nproc)]
    import concurrent.futures as cf
    outs = [None] * len(cases)

    def run(i):
        pid_tag = 'c02_build'
        # ctx.impl names its files with os.getpid(): give each worker its own scratch dir
        import copy
        sub = copy.copy(ctx)
        sub.work = os.path.join(ctx.work, 'w%d' % i)
        os.makedirs(sub.work, exist_ok=True)
        return i, sub.impl(pid_tag, {'cases': chunks[i]}, timeout=1200)['out']
    with cf.ThreadPoolExecutor(nproc) as ex:
        for i, out in ex.map(run, range(nproc)):
            for j, o in enumerate(out):
                outs[i + j * nproc] = o

    bus0_reported = set()
    opseen = set()
    reader_reported = set()
    bus0_fail = []
    items, item_case = [], []       # check_case items (real bytes)
    eitems, eitem_case = [], []     # check_expect items (writer guard: names / variants)
    for idx, (k, o) in enumerate(zip(cases, outs)):
        kind, expect = k.get('kind', 'valid'), k.get('expect', 'ok')
        c.count('kind:' + kind)
        c.count('status:' + o['status'])
        if o['status'] == 'harness_exc':
            c.failures.append(Failure('correspondence', 'harness interpreter failed: %s' % o['exc'], replay={'case': short(k)}))
            continue
        got_bytes = o['bytes'] is not None
        if got_bytes:
            b = bytes.fromhex(o['bytes'])
            c.count('units:%s' % ('0-9' if o['nunits'] < 10 else '10-49' if o['nunits'] < 50 else '50-199' if o['nunits'] < 200 else '200+'))
            c.count('bytes:%s' % ('<1k' if len(b) < 1024 else '<8k' if len(b) < 8192 else '8k+'))
            if any(w for _, w in o['order']):
                c.count('has-width-first')
            for t_ in o.get('truth') or []:
                if t_[0] in ('UnaryOpUGen', 'BinaryOpUGen') and o.get('recon') is not None:
                    opseen.add((t_[0], t_[4]))
            if o['desc'] and o['desc']['gate']:
                c.count('has-gate')
            if kind == 'groups':
                c.count('groups:controls-checked-against-received-slots', o.get('decl_from_graph', 0))
            if o['desc'] and (o['desc']['ins'] or o['desc']['outs']):
                c.count('has-io-desc')
            if o['desc_exc']:
                c.count('libreader-exc')
            try:
                pd = oracle.parse(b)
                ctl_units = [u for u in pd['units'] if u['cls'] in oracle.CONTROL_CLASSES]
                if len(ctl_units) >= 2:
                    c.count('control-units>=2')
                if len(ctl_units) >= 4:
                    c.count('control-units>=4')
                if o['desc'] and len(ctl_units) >= 2:
                    first = len(ctl_units[0]['outs'])
                    slot = {n: i for n, i, _r, _w in o.get('decl', [])}
                    for io in o['desc']['ins'] + o['desc']['outs']:
                        if io[2][0] == 'n' and slot.get(io[2][1], 0) >= first:
                            c.count('bus-named-by-later-control-unit')
                            break
            except oracle.FormatError:
                pass
            items.append(make_item(k, o, b))
            bad_r = recon_mismatch(o)
            if bad_r:
                c.failures.append(Failure(
                    'correspondence', 'definition %r: the library reader, applied to the bytes the library emitted, %s' % (k['name'][:30], bad_r),
                    found_input=True, theorem='reader_recovers',
                    replay={'case': short(k), 'bytes': o['bytes'], 'observed': bad_r}))
                reader_reported.add(idx)
            item_case.append(idx)
            if o['nunits'] >= 2:
                c.nontriv((k['name'], o['bytes'][:4000]))
        else:
            for e in o['exc'][:1]:
                c.count('exc:' + e.split(':')[0])
        # (falsy zero) an In/Out unit whose bus is a constant must be described by that constant, 0 included
        if o.get('desc') and o.get('truth'):
            io_units = [u for u in o['truth'] if u[0] in IO_CLASSES and u[2]]
            descs = {}
            for io in o['desc']['ins'] + o['desc']['outs']:
                descs.setdefault(io[3], []).append(io)
            for u in io_units:
                lst = descs.get(u[0]) or []
                if not lst:
                    continue
                io = lst.pop(0)
                if u[2][0][0] == -1 and 0 <= u[2][0][1] < len(o['truthk']):
                    w = o['truthk'][u[2][0][1]]
                    if io[2] != ['c', w]:
                        bus0_reported.add(idx)
                        bus0_fail.append(Failure(
                            'correspondence',
                            'definition %r: the %s unit on constant bus %s is described with starting channel %r (the description does not recover the bus)' % (
                                k['name'][:30], u[0], 'word 0x%08x' % w, '?' if io[2] == ['q'] else io[2]),
                            signature=SIGS['bus0'] if (io[2] == ['q'] and w in (0, 0x80000000)) else None, found_input=True,
                            theorem='reader_io_units',
                            replay={'case': short(k), 'bytes': o['bytes'], 'observed': io, 'expected': ['c', w],
                                    'python': k.get('python')}))
                        break
        if got_bytes and expect != 'raise':
            nanw = [w for w in (o.get('truthk') or []) if (w & 0x7f800000) == 0x7f800000 and (w & 0x007fffff)]
            nonwire = [u[0] for u in (o.get('truth') or []) if any(i[0] == -9 for i in u[2])]
            if nanw or nonwire:
                c.failures.append(Failure('correspondence', 'definition %r was emitted with %s' % (
                    k['name'][:30], 'a NaN constant' if nanw else 'a non-wire input on %s' % nonwire[0]),
                    found_input=True, theorem='invalid_rejected', replay={'case': short(k), 'bytes': o['bytes']}))
        for what, how, val in o.get('retry') or []:
            if how == 'returned' and what == 'as_bytes':
                rb = bytes.fromhex(val)
                why_r = oracle.check_bytes(rb)
                c.failures.append(Failure(
                    'correspondence',
                    'definition %r: as_bytes() raised (%s) and the SAME call repeated returned %d bytes%s' % (
                        k['name'][:30], (o['exc'] or ['?'])[0][:80], len(rb),
                        (' that are not a definition: ' + why_r) if why_r else ' (a complete definition)'),
                    found_input=True, theorem='invalid_rejected',
                    replay={'case': short(k), 'bytes': val, 'observed': 'second as_bytes() returned bytes', 'first_call': o['exc'],
                            'expected': 'the second call raises like the first one'}))
                break
            if how == 'returned' and what == 'add':
                c.failures.append(Failure('correspondence', 'definition %r: as_bytes() raised (%s) but add() on the same object succeeded' % (
                    k['name'][:30], (o['exc'] or ['?'])[0][:80]), found_input=True, replay={'case': short(k)}))
                break
            if how == 'leak':
                c.failures.append(Failure('correspondence', 'definition %r: %s left set after a failing %s' % (k['name'][:30], val, what),
                                          found_input=True, replay={'case': short(k)}))
                break
        if o.get('retry'):
            c.count('failed-as_bytes-retried')
        for msg in o.get('cache') or []:
            c.failures.append(Failure('correspondence', 'as_bytes() caching / aliasing, definition %r: %s' % (k['name'][:30], msg),
                                      found_input=True, replay={'case': short(k), 'observed': msg}))
        if o.get('leak'):
            c.failures.append(Failure('correspondence', 'state leaked after definition %r (%s): %s' % (k['name'][:30], o['status'], o['leak']),
                                      found_input=True, replay={'case': short(k), 'observed': o['leak']}))
        if expect == 'raise' and got_bytes:
            # an invalid graph / name / variant produced bytes: is the output at least a definition?
            why = oracle.check_bytes(b, [tuple(x) for x in o['order']])
            label = k.get('label', kind)
            sig = SIGS['variant'] if kind == 'variant' else (SIGS['seq'] if label.startswith('seq:') else None)
            if why is not None:
                c.failures.append(Failure(
                    'correspondence',
                    '%s: the library emitted bytes for a definition it cannot compile and they are not a well-formed SCgf-2 definition: %s (%d bytes)' % (label, why, len(b)),
                    signature=sig, found_input=True, theorem='scgf_roundtrip',
                    replay={'case': short(k), 'bytes': o['bytes'], 'observed': why,
                            'expected': 'an exception and no bytes (or bytes that parse completely)'}))
            else:
                c.failures.append(Failure(
                    'correspondence', '%s: expected an exception, the library produced %d well-formed bytes' % (label, len(b)),
                    found_input=True, replay={'case': short(k), 'bytes': o['bytes']}))
        if expect == 'ok' and not got_bytes and kind != 'valid':
            c.failures.append(Failure('correspondence', '%s case expected bytes, the library raised %s' % (kind, o['exc']),
                                      found_input=True, replay={'case': short(k), 'exc': o['exc']}))
        if kind == 'valid' and not got_bytes:
            c.count('valid-stream-build-error')
        if k.get('base') and o.get('base'):
            eitems.append('(check_expect %s %s %s %s %s)' % (
                cb(bytes.fromhex(o['base'])), cb(k['name']), c_names3(o['names3']), c_vsrc(k.get('variants')),
                ('(Some %s)' % cb(bytes.fromhex(o['bytes']))) if got_bytes else 'None'))
            eitem_case.append(idx)

    bus0_fail.sort(key=lambda f: len(f.replay.get('bytes') or ''))
    c.failures.extend(bus0_fail[:3])
    body = 'Eval vm_compute in bad_idx (fun c => c =? 0) cases.'
    bad, errs = fw.check_shards(ctx, 'real', HEADER, items, body, shard=ctx.n(12, 10), timeout=1500)
    body2 = 'Eval vm_compute in bad_idx (fun c => c) cases.'
    bad2, errs2 = fw.check_shards(ctx, 'guard', HEADER, eitems, body2, shard=8, timeout=900)
    for e in errs + errs2:
        c.failures.append(Failure('correspondence', 'coq evaluation of cases failed: ' + e))

    already = {id(f.replay.get('case')) for f in c.failures}
    reported = set()
    for f in c.failures:
        if f.replay.get('case'):
            reported.add(json.dumps(f.replay['case'], sort_keys=True))
    for i in bad[:12]:
        idx = item_case[i]
        k, o = cases[idx], outs[idx]
        key = json.dumps(short(k), sort_keys=True)
        if key in reported:
            continue
        if idx in bus0_reported and len(bus0_reported) > 3:
            continue                  # same finding, already reported with its own message
        if idx in reader_reported:
            continue
        rc, out = ctx.coq('diag', HEADER + 'Eval vm_compute in %s.\n' % items[i], timeout=300)
        import re
        m = re.search(r'=\s*(\d+)', out)
        stage = int(m.group(1)) if m else -1
        b = bytes.fromhex(o['bytes'])
        why = oracle.check_bytes(b, [tuple(x) for x in o['order']])
        sig = SIGS['variant'] if (stage in (1, 6) and k.get('variants')) else None
        c.failures.append(Failure(
            'correspondence',
            'definition %r (%d units, %d bytes%s): %s; independent reader: %s' % (
                k['name'], o['nunits'], len(b), (', variants=%r' % (k['variants'],)) if k.get('variants') else '',
                STAGE.get(stage, 'stage %s' % stage), why or 'accepts the bytes'),
            signature=sig, found_input=(stage in (1, 2, 4, 7, 9, 10, 11) or why is not None), theorem='scgf_roundtrip' if stage == 1 else None,
            replay={'case': short(k), 'bytes': o['bytes'], 'stage': stage, 'order': o['order'], 'libdesc': o['desc'],
                    'libdesc_exc': o['desc_exc'], 'independent_reader': why}))
    for i in bad2[:12]:
        idx = eitem_case[i]
        k, o = cases[idx], outs[idx]
        key = json.dumps(short(k), sort_keys=True)
        if key in reported:
            continue
        c.failures.append(Failure(
            'correspondence',
            'writer guard: definition name %r / variants %r: the model writer (names <= 255 ASCII bytes, valid variants) and the library disagree; library: %s' % (
                k['name'][:40], k.get('variants'), 'bytes' if o['bytes'] else o['exc']),
            signature=SIGS['variant'] if k.get('kind') == 'variant' else None,
            found_input=True, replay={'case': short(k), 'bytes': o['bytes'], 'exc': o['exc']}))

    # smallest concrete input of every distinct finding first (the driver prints five)
    def fkey(f):
        return (0 if f.found_input else 1, len(f.replay.get('bytes') or '') or 10 ** 9)
    c.failures.sort(key=fkey)
    seen, first, rest = set(), [], []
    for f in c.failures:
        (first if f.signature not in seen else rest).append(f)
        seen.add(f.signature)
    c.failures = first + rest

    c.count('distinct-unary-operators-read-back', len([1 for a_, _ in opseen if a_ == 'UnaryOpUGen']))
    c.count('distinct-binary-operators-read-back', len([1 for a_, _ in opseen if a_ == 'BinaryOpUGen']))
    nbridge = bridge_correspond(ctx, c)
    nsweep = badsweep_correspond(ctx, c)
    nsyn = synthetic_correspond(ctx, c)
    nhash = hashseed_correspond(ctx, c, cases, outs)

    c.evaluations = len(cases) + nbridge + nsyn + nhash + nsweep
    c.rule = ('real SynthDef builds of generated graph programs (catalogue of %d unit classes + arithmetic, controls, variants); '
              'model parser/wf_def/writer/read_desc evaluated by vm_compute on the real bytes; non-trivial = bytes were '
              'emitted for a definition with at least two units' % len(CAT))
    ok_cases = [(k, o) for k, o in zip(cases, outs) if o['bytes']]
    c.samples = [{'name': k['name'][:20], 'units': o['nunits'], 'bytes': len(o['bytes']) // 2,
                  'controls': o['desc']['cnames'] if o['desc'] else None} for k, o in ok_cases[:6]]
    nvalid = sum(1 for k in cases if k.get('kind', 'valid') == 'valid')
    nbuilt = sum(1 for k, o in zip(cases, outs) if k.get('kind', 'valid') == 'valid' and o['bytes'])
    c.notes.append('valid stream: %d of %d programs compiled' % (nbuilt, nvalid))
    if nvalid and nbuilt < 0.6 * nvalid:
        c.failures.append(Failure('correspondence', 'generator degenerated: only %d of %d valid-stream programs compiled' % (nbuilt, nvalid)))
    ctx.c02_cases = (cases, outs)
    return c


# ---------------------------------------------------------------------------
# hand-made definitions: every field carries its own value, so that two swapped fields cannot cancel

SYN_PLAIN = ['SinOsc', 'LPF', 'WhiteNoise', 'MulAdd', 'Saw', 'Lag']
SYN_MULTI = ['Pan2', 'DC', 'Demand', 'Balance2']
SYN_IN = ['In', 'InFeedback', 'LagIn', 'InTrig', 'LocalIn']
SYN_OUT = ['Out', 'ReplaceOut', 'OffsetOut', 'XOut', 'LocalOut']
SYN_CTL = ['Control', 'TrigControl', 'LagControl', 'AudioControl']
SYN_WORDS = [0, 0x80000000, 0x3f800000, 0x43dc0000, 0x7f800000, 0xff800000, 1, 0x00800000, 0x7f7fffff, 0xbf000000]


_OPTABS = []


def OPTABS():
    """(unary names, binary names) read from the tree under test (sc3/synth/_specialindex.py)."""
    if not _OPTABS:
        import ast
        from translator import t_opcodes
        tree = ast.parse(open(os.path.join(fw.REPO, 'sc3/synth/_specialindex.py')).read())
        _OPTABS.extend([[r[0] for r in t_opcodes._table(tree, '_unops_list')], [r[0] for r in t_opcodes._table(tree, '_binops_list')]])
    return _OPTABS


def gen_struct(rng):
    name = ascii_name(rng, rng.choice([0, 1, 2, 5, 31, 127, 128, 255]))
    consts = [rng.choice(SYN_WORDS) for _ in range(rng.choice([0, 1, 2, 5, 9]))]
    nctl = rng.choice([0, 1, 2, 3, 7, 20])
    ctl = [rng.choice(SYN_WORDS) for _ in range(nctl)]
    # name table: distinct indices, slot 0 named (almost always), table order shuffled
    idxs = [i for i in range(nctl) if i == 0 or rng.random() < 0.6]
    if nctl and rng.random() < 0.06:
        idxs = idxs[1:]                      # first slot unnamed: the reader raises
    rng.shuffle(idxs)
    pool = ['freq', 'amp', 'gate', 'out', 'bus', 'pan'] + ['c%d' % i for i in range(40)]
    rng.shuffle(pool)
    names = [[pool[j], i] for j, i in enumerate(idxs)]
    units = []
    multi = {}        # position -> number of outputs of multi-output units
    # control units covering the slots in 1..3 groups
    pos = 0
    while pos < nctl:
        n = rng.randint(1, nctl - pos)
        units.append({'cls': rng.choice(SYN_CTL), 'rate': rng.choice([0, 1, 2]), 'ins': [], 'outs': None, 'nouts': n, 'special': pos})
        multi[len(units) - 1] = n
        pos += n
    for _ in range(rng.choice([0, 1, 3, 6, 12])):
        kind = rng.choice(['plain', 'plain', 'multi', 'in', 'out', 'unop', 'binop'])

        def wire():
            if consts and (not units or rng.random() < 0.35):
                return [-1, rng.randrange(len(consts))]
            if not units:
                return None
            u = rng.randrange(len(units))
            if units[u]['nouts'] == 0:
                return [-1, rng.randrange(len(consts))] if consts else None
            return [u, rng.randrange(multi[u]) if u in multi else 0]
        nin = {'unop': 1, 'binop': 2}.get(kind) or rng.choice([1, 2, 3, 4, 5])
        ins = [w for w in (wire() for _ in range(nin)) if w is not None]
        if kind in ('unop', 'binop'):
            u = {'cls': 'UnaryOpUGen' if kind == 'unop' else 'BinaryOpUGen', 'nouts': 1}
        elif kind == 'plain':
            u = {'cls': rng.choice(SYN_PLAIN), 'nouts': 1}
        elif kind == 'multi':
            u = {'cls': rng.choice(SYN_MULTI), 'nouts': rng.choice([1, 2, 3, 6, 130, 300])}
        elif kind == 'in':
            u = {'cls': rng.choice(SYN_IN), 'nouts': rng.choice([1, 2, 4])}
        else:
            u = {'cls': rng.choice(SYN_OUT), 'nouts': 0}
        if kind in ('in', 'out') and not ins:
            continue
        u['rate'] = rng.choice([0, 1, 2, 3])
        u['ins'] = ins
        # special index: its own value, negative and > 127 included (signed 16 bit field)
        u['special'] = rng.choice([0, 1, 7, 46, 127, 128, 255, 256, 32767, -1, -2, -32768, 9])
        if kind in ('unop', 'binop'):
            # the whole range of the operator table, its last entries and (rarely) just beyond it
            n = len(OPTABS()[0 if kind == 'unop' else 1])
            u['special'] = rng.choice([0, 1, n - 1, n - 2, rng.randrange(n), rng.randrange(n), rng.randrange(n)]
                                      + ([n, n + 6] if rng.random() < 0.15 else []))
        units.append(u)
        if kind in ('multi', 'in'):
            multi[len(units) - 1] = u['nouts']
    for u in units:
        u['outs'] = [u['rate'] if rng.random() < 0.8 else rng.choice([0, 1, 2, 3]) for _ in range(u['nouts'])]
    variants = []
    for j in range(rng.choice([0, 0, 1, 3])):
        variants.append([name[:20] + '.v%d' % j, [rng.choice(SYN_WORDS) for _ in range(nctl)]])
    return {'name': name, 'consts': consts, 'ctl': ctl, 'names': names, 'units': units, 'variants': variants}


def enc_struct(S):
    import struct

    def ps(x):
        b = x.encode('ascii')
        return bytes([len(b)]) + b
    out = b'SCgf' + struct.pack('>ih', 2, 1) + ps(S['name'])
    out += struct.pack('>i', len(S['consts'])) + b''.join(struct.pack('>I', w) for w in S['consts'])
    out += struct.pack('>i', len(S['ctl'])) + b''.join(struct.pack('>I', w) for w in S['ctl'])
    out += struct.pack('>i', len(S['names'])) + b''.join(ps(n) + struct.pack('>i', i) for n, i in S['names'])
    out += struct.pack('>i', len(S['units']))
    for u in S['units']:
        out += ps(u['cls']) + struct.pack('>biih', u['rate'], len(u['ins']), len(u['outs']), u['special'])
        out += b''.join(struct.pack('>ii', a, b) for a, b in u['ins'])
        out += b''.join(struct.pack('>b', r) for r in u['outs'])
    out += struct.pack('>h', len(S['variants']))
    for n, vals in S['variants']:
        out += ps(n) + b''.join(struct.pack('>I', w) for w in vals)
    return out


def c_sdef(S):
    def c_in(i):
        return '(IConst %s)' % cz(i[1]) if i[0] == -1 else '(IOut %s %s)' % (cz(i[0]), cz(i[1]))
    us = clist(['(mkUgen %s %s %s %s %s)' % (cb(u['cls']), cz(u['rate']), clist(u['ins'], c_in), clist(u['outs'], cz), cz(u['special']))
                for u in S['units']])
    return '(mkSdef %s %s %s %s %s %s)' % (
        cb(S['name']), clist(S['consts'], cz), clist(S['ctl'], cz),
        clist(['(%s, %s)' % (cb(n), cz(i)) for n, i in S['names']]), us,
        clist(['(mkVariant %s %s)' % (cb(n), clist(v, cz)) for n, v in S['variants']]))


RATE_NAMES = ['scalar', 'control', 'audio', 'demand']
SYN_STAGE = {11: 'the operators the library reader gives to rebuilt Unary/BinaryOpUGen units differ from the operator tables',
             1: 'the model parser does not return the structure the bytes were made from (or accepts damaged bytes)',
             3: 'the model writer does not reproduce the hand-made bytes', 5: 'SynthDesc reader <> read_desc on hand-made bytes',
             8: 'def_name_from_bytes <> def_name_of on hand-made bytes'}


def syn_field_mismatch(S, o):
    """text describing the first field of S the library reader did not recover (None = all recovered)."""
    if o['desc'] and o['desc']['name'] != S['name']:
        return 'definition name %r read back as %r' % (S['name'][:30], o['desc']['name'][:30])
    if o['desc'] and o['desc']['cnames'] != [n for n, _ in S['names']]:
        return 'name table %r read back as %r' % ([n for n, _ in S['names']][:6], o['desc']['cnames'][:6])
    if len(o['units']) != len(S['units']):
        return '%d units read back from %d' % (len(o['units']), len(S['units']))
    for pos, (u, r_) in enumerate(zip(S['units'], o['units'])):
        cls_, rate, special, ins, nch = r_[:5]
        want_ins = [['c', S['consts'][b_]] if a == -1 else ['u', a, b_] for a, b_ in u['ins']]
        if cls_ != u['cls']:
            return 'unit %d class %r read back as %r' % (pos, u['cls'], cls_)
        if rate != RATE_NAMES[u['rate']]:
            return 'unit %d rate %d read back as %r' % (pos, u['rate'], rate)
        if special != u['special'] and u['cls'] not in tuple(SYN_MULTI) + tuple(SYN_IN):
            return 'unit %d (%s) special index %d read back as %r' % (pos, u['cls'], u['special'], special)
        if u['cls'] in ('UnaryOpUGen', 'BinaryOpUGen'):
            tab = OPTABS()[0 if u['cls'] == 'UnaryOpUGen' else 1]
            if 0 <= u['special'] < len(tab) and r_[5] != tab[u['special']]:
                return 'unit %d (%s) special index %d rebuilt with operator %r instead of %r' % (
                    pos, u['cls'], u['special'], r_[5], tab[u['special']])
        if nch is not None and nch != len(u['outs']):
            return 'unit %d has %d outputs, %r read back' % (pos, len(u['outs']), nch)
        if ins != want_ins:
            return 'unit %d inputs %r read back as %r' % (pos, want_ins[:4], ins[:4])
    return None


def synthetic_correspond(ctx, c):
    """hand-made bytes -> model parser / writer / read_desc and the LIBRARY reader (SynthDesc._read_stream)."""
    rng = ctx.rng
    structs, blobs, ods = [], [], []
    for _ in range(ctx.n(60, 600)):
        S = gen_struct(rng)
        b = enc_struct(S)
        structs.append(S); blobs.append(b); ods.append(S)
        r = rng.random()
        if r < 0.15 and len(b) > 12:
            cut = rng.randrange(10, len(b))
            structs.append(S); blobs.append(b[:cut]); ods.append(None)        # truncated anywhere
        elif r < 0.22:
            structs.append(S); blobs.append(b + bytes([rng.randrange(256)] * rng.randint(1, 5))); ods.append(None)   # trailing bytes
    outs = ctx.impl('c02_read', {'cases': [b.hex() for b in blobs]}, timeout=900)['out']
    items = []
    for S, b, od, o in zip(structs, blobs, ods, outs):
        c.count('synthetic:' + ('intact' if od else 'damaged') + ':' + ('lib-accepts' if o['desc'] else 'lib-raises'))
        items.append('(synth_check %s %s %s %s %s)' % (cb(b), copt(od, c_sdef), c_desc(o['desc']), copt(o.get('defname'), cb),
                                                     c_libops(o.get('units'))))
        if od and o['desc']:
            c.nontriv(('syn', b.hex()[:3000]))
        if o.get('leak'):
            c.failures.append(Failure('correspondence', 'state leaked by the description reader: %s (library: %s)' % (o['leak'], o['exc'] or 'accepted'),
                                      found_input=True, replay={'bytes': b.hex(), 'observed': o['leak']}))
        # field by field against the structure (Python level, independent of the Coq model)
        if od and o['units'] is not None:
            bad = syn_field_mismatch(S, o)
            if bad:
                c.failures.append(Failure('correspondence', 'the library reader does not recover a field of a hand-made definition: ' + bad,
                                          found_input=True, theorem='reader_recovers', replay={'bytes': b.hex(), 'struct': S, 'observed': bad}))
        if False:
            bad = None
            if len(o['units']) != len(S['units']):
                bad = '%d units read back from %d' % (len(o['units']), len(S['units']))
            for pos, (u, r_) in enumerate(zip(S['units'], o['units'])):
                if bad:
                    break
                cls_, rate, special, ins, nch = r_
                want_ins = [['c', S['consts'][b_]] if a == -1 else ['u', a, b_] for a, b_ in u['ins']]
                if cls_ != u['cls']:
                    bad = 'unit %d class %r read back as %r' % (pos, u['cls'], cls_)
                elif rate != RATE_NAMES[u['rate']]:
                    bad = 'unit %d rate %d read back as %r' % (pos, u['rate'], rate)
                elif special != u['special'] and u['cls'] not in ('Pan2', 'DC', 'Demand', 'Balance2') + tuple(SYN_IN):
                    bad = 'unit %d (%s) special index %d read back as %r' % (pos, u['cls'], u['special'], special)
                elif nch is not None and nch != len(u['outs']):
                    bad = 'unit %d has %d outputs, %r read back' % (pos, len(u['outs']), nch)
                elif ins != want_ins:
                    bad = 'unit %d inputs %r read back as %r' % (pos, want_ins[:4], ins[:4])
            if bad:
                c.failures.append(Failure('correspondence', 'the library reader does not recover a field of a hand-made definition: ' + bad,
                                          found_input=True, theorem='reader_recovers', replay={'bytes': b.hex(), 'struct': S, 'observed': bad}))
    body = 'Eval vm_compute in bad_idx (fun c => c =? 0) cases.'
    bad, errs = fw.check_shards(ctx, 'syn', HEADER, items, body, shard=ctx.n(15, 40), timeout=900)
    for e in errs:
        c.failures.append(Failure('correspondence', 'coq evaluation of hand-made cases failed: ' + e))
    import re
    for i in bad[:6]:
        rc, out = ctx.coq('sdiag', HEADER + 'Eval vm_compute in %s.\n' % items[i], timeout=300)
        mm = re.search(r'=\s*(\d+)', out)
        stage = int(mm.group(1)) if mm else -1
        ld = outs[i]['desc']
        zero_bus = bool(stage == 5 and ld and any(io[2] == ['q'] for io in ld['ins'] + ld['outs'])
                        and any(w in (0, 0x80000000) for w in structs[i]['consts']))
        c.failures.append(Failure('correspondence', 'hand-made definition (%d bytes, %s): %s; library reader: %s%s' % (
            len(blobs[i]), 'intact' if ods[i] else 'damaged', SYN_STAGE.get(stage, 'stage %s' % stage),
            'accepts' if outs[i]['desc'] else outs[i]['exc'],
            ' (an In/Out unit on a zero constant bus is described with starting channel \'?\')' if zero_bus else ''),
            signature=SIGS['bus0'] if zero_bus else None,
            found_input=(stage in (5, 8, 11)), replay={'bytes': blobs[i].hex(), 'struct': structs[i], 'damaged': ods[i] is None,
                                                   'libdesc': outs[i]['desc'], 'libexc': outs[i]['exc'], 'stage': stage}))
    return len(blobs)


BRIDGE_STAGE = {1: 'the compiler model and the library disagree on whether the program compiles',
                2: 'a unit input constant is not in the constant table of the compiler model\'s output',
                3: 'graph_ok fails on the compiler model\'s output (an input is not a collected constant / an output of a strictly earlier unit, or a field is out of range)',
                4: 'wf_def fails on to_sdef of the compiler model\'s output',
                5: 'write_def (to_sdef (compile p)) differs from the bytes the real SynthDef emits'}


def badsweep_correspond(ctx, c):
    """NaN / str / None in every numeric argument position of every constructor of every installed unit
    class: must raise; a violation is a definition that WAS emitted and contains NaN or a non-wire input."""
    res = ctx.impl('c02_badsweep', {'kinds': ['nan', 'str', 'none'], 'shard': 0, 'nshards': 1}, timeout=900)
    if res.get('crash'):
        c.failures.append(Failure('correspondence', 'the sweep script itself failed (harness error, not a verdict): ' + res['crash']))
    for k_, v in res['stats'].items():
        c.count('sweep:' + k_, v)
    seen = set()
    for b in sorted(res['bad'], key=lambda x: len(x['bytes'])):
        if b['checker'] in seen:
            continue
        seen.add(b['checker'])
        why = oracle.check_bytes(bytes.fromhex(b['bytes']))
        c.failures.append(Failure(
            'correspondence',
            'invalid input accepted: %s with %s=%s builds and as_bytes() emits %d bytes: %s (input check: %s); independent reader: %s' % (
                b['cls'] + '.' + b['meth'], b['arg'], {'nan': 'NaN', 'str': "'abc'", 'none': 'None'}[b['kind']],
                len(b['bytes']) // 2, b['what'], b['checker'], why or 'parses (the NaN is a constant of the definition)'),
            signature='C02:unvalidated-input:' + b['checker'], found_input=True, theorem='invalid_rejected',
            replay={'python': b['python'], 'bytes': b['bytes'], 'observed': b['what'],
                    'expected': 'an exception (ValueError: ... has bad input) and no bytes'}))
    seen_r = set()
    for b in res.get('ratebad', []):
        if b['checker'] in seen_r:
            continue
        seen_r.add(b['checker'])
        rejected = [r_ for r_, ok_ in b['single'].items() if not ok_ and r_ in b['mix']]
        c.failures.append(Failure(
            'correspondence',
            'rate rule not applied element by element: %s accepts %s=[%s] and emits bytes, although a %s signal alone in that '
            'argument is rejected (input check: %s)' % (b['ctor'], b['arg'], ', '.join(b['mix']), ' / '.join(rejected), b['checker']),
            signature='C02:rate-rule-not-elementwise:' + b['checker'], found_input=True, theorem='invalid_rejected',
            replay={'python': b['python'], 'observed': 'accepted', 'single_element_lists': b['single'],
                    'expected': 'rejected like its worst element'}))
    c.count('sweep:rate-lists-tried', res['stats'].get('rate-singletons', 0) + res['stats'].get('rate-mixes', 0))

    # every constructor that builds: the definition around it goes through the same byte-level stages as the
    # generated programs (model parser, wf_def, model writer, library reader vs mirror, live objects, operators)
    # and through the independent reader -- every installed class with its own writer/reader hooks is emitted
    built = [r for r in res.get('built', []) if r.get('bytes')]
    items, reported = [], set()
    for r in built:
        b = bytes.fromhex(r['bytes'])
        k = {'name': 'bs', 'variants': None}
        items.append(make_item(k, r, b))
        why = oracle.check_bytes(b, [tuple(x) for x in r['order']])
        bad_r = recon_mismatch(r)
        if why or bad_r:
            reported.add(r['ctor'])
            c.failures.append(Failure(
                'correspondence',
                'the definition built around %s (%d units, %d bytes): %s' % (
                    r['ctor'], r['nunits'], len(b),
                    ('independent reader: ' + why) if why else ('the library reader, applied to the emitted bytes, ' + bad_r)),
                found_input=True, theorem='scgf_roundtrip' if why else 'reader_recovers',
                replay={'python': 'the SynthDef built by harness/impl/c02_badsweep.py around %s (arguments from its signature)' % r['ctor'],
                        'bytes': r['bytes'], 'observed': why or bad_r}))
    c.count('sweep:definitions-through-byte-level-stages', len(built))
    body = 'Eval vm_compute in bad_idx (fun c => c =? 0) cases.'
    badi, errs = fw.check_shards(ctx, 'sweepdefs', HEADER, items, body, shard=40, timeout=900)
    for e in errs:
        c.failures.append(Failure('correspondence', 'coq evaluation of sweep definitions failed: ' + e))
    import re
    for i in badi:
        if built[i]['ctor'] in reported or len(reported) >= 8:
            continue
        reported.add(built[i]['ctor'])
        rc, out = ctx.coq('swdiag', HEADER + 'Eval vm_compute in %s.\n' % items[i], timeout=300)
        mm = re.search(r'=\s*(\d+)', out)
        stage = int(mm.group(1)) if mm else -1
        c.failures.append(Failure(
            'correspondence', 'the definition built around %s (%d units, %d bytes): %s' % (
                built[i]['ctor'], built[i]['nunits'], len(built[i]['bytes']) // 2, STAGE.get(stage, 'stage %s' % stage)),
            found_input=(stage in (1, 2, 4, 7, 9, 10, 11)),
            replay={'python': 'the SynthDef built by harness/impl/c02_badsweep.py around %s' % built[i]['ctor'],
                    'bytes': built[i]['bytes'], 'stage': stage, 'libdesc': built[i]['desc'], 'libdesc_exc': built[i]['desc_exc']}))
    c.failures.sort(key=lambda f: 0)     # keep order
    if res['stats'].get('baseline-built', 0) < 300:
        c.failures.append(Failure('correspondence', 'invalid-input sweep degenerated: only %s constructors could be called' % res['stats'].get('baseline-built')))
    return res['stats'].get('substitutions', 0)


def hashseed_correspond(ctx, c, cases, outs):
    """units / name table / variants order must not depend on PYTHONHASHSEED: same bytes, same order."""
    pick = [i for i, (k, o) in enumerate(zip(cases, outs)) if o.get('bytes') and k.get('kind') in ('valid', 'multictl', 'variant')]
    pick = pick[:ctx.n(25, 200)]
    sub = [cases[i] for i in pick]
    n = 0
    for seed in (('987654',) if ctx.quick else ('1', '987654')):
        res = ctx.impl('c02_build', {'cases': sub}, timeout=900, hashseed=seed)['out']
        for i, r in zip(pick, res):
            n += 1
            if r.get('bytes') != outs[i]['bytes'] or r.get('order') != outs[i]['order']:
                c.failures.append(Failure('correspondence', 'definition %r: bytes / unit order differ between PYTHONHASHSEED=0 and %s' % (
                    cases[i]['name'][:30], seed), found_input=True, replay={'case': short(cases[i]), 'hashseed': seed,
                                                                           'bytes0': outs[i]['bytes'], 'bytes': r.get('bytes')}))
                break
    c.count('hashseed-rebuilds', n)
    return n


def bridge_correspond(ctx, c):
    """model compiler (coq/model/Graph.v, build-C01's) + to_sdef + model writer  ==  real bytes, on
    programs of C01's generator.  Returns the number of programs evaluated."""
    try:
        from props import c01_common as cc
    except Exception as e:                     # C01's harness is not ours: degrade visibly
        c.notes.append('bridge correspondence skipped: cannot import props.c01_common (%r)' % (e,))
        c.failures.append(Failure('correspondence', 'bridge: cannot import C01 generator: %r' % (e,)))
        return 0
    from fractions import Fraction
    rng = ctx.rng
    progs = []
    for _ in range(ctx.n(60, 500)):
        progs.append(cc.gen_prog(rng, rng.choice([1, 2, 3, 5, 8, 12, 20, 30]), demand=rng.random() < 0.5,
                                 wf=rng.random() < 0.6, invalid=0.0))
    outs = ctx.impl('c02_bridge', {'cases': progs}, timeout=900)['out']
    items = []
    cbz = lambda x: cb(x) + '%Z'          # Graph.v opens nat_scope
    keep = []
    for p, o in zip(progs, outs):
        # the compiler model's constants are rationals: the sign of a zero cannot be represented there
        if o.get('negzero') or any(w == 0x80000000 for _q, w in o['f32']):
            c.count('bridge:skipped-negative-zero')
            continue
        keep.append((p, o))
    progs = [p for p, _ in keep]
    outs = [o for _, o in keep]
    for p, o in zip(progs, outs):
        tab = clist(['(%s, %s)' % (fw.cq(Fraction(q)), cz(w)) for q, w in o['f32']])
        pn = clist(['(%s, %s)' % (cbz(n), cz(i)) for n, i in o['pnames']])
        real = ('(Some %s)' % cbz(bytes.fromhex(o['bytes']))) if o['bytes'] else 'None'
        items.append('(GraphScgf.bridge_check CMP %s %s %s %s %s)' % (cc.cprog(p), cbz(o['name']), pn, tab, real))
        c.count('bridge:' + ('bytes' if o['bytes'] else 'raised'))
        if o['bytes']:
            c.nontriv(('bridge', o['bytes'][:2000]))
    # Scgf first, Graph last: both define inp / IOut / Ok / ...; the program terms are Graph's
    header = ('Require Import SC3.model.Scgf SC3.model.GraphScgf.\n' + cc.HEADER +
              '(* the compiler model with the regenerated flags, whatever their number *)\n'
              'Definition CMP : prog -> res graph := ltac:(first [ exact (compile T dce_strict dce_guard sub_guard)'
              ' | exact (compile T dce_strict dce_guard) ]).\n')
    body = 'Eval vm_compute in bad_idx (fun c => (c =? 0)%Z) cases.'
    bad, errs = fw.check_shards(ctx, 'bridge', header, items, body, shard=ctx.n(10, 40), timeout=1500)
    for e in errs:
        c.failures.append(Failure('correspondence', 'coq evaluation of bridge cases failed: ' + e))
    import re
    for i in bad[:6]:
        rc, out = ctx.coq('bdiag', header + 'Eval vm_compute in %s.\n' % items[i], timeout=300)
        mm = re.search(r'=\s*(\d+)', out)
        stage = int(mm.group(1)) if mm else -1
        why = oracle.check_bytes(bytes.fromhex(outs[i]['bytes'])) if outs[i]['bytes'] else None
        c.failures.append(Failure(
            'correspondence', 'bridge (compiler model + writer vs real bytes), program %s: %s; library: %s; independent reader on the real bytes: %s' % (
                json.dumps(progs[i])[:300], BRIDGE_STAGE.get(stage, 'stage %s' % stage),
                'bytes' if outs[i]['bytes'] else outs[i]['err'], why or 'ok'),
            found_input=bool(why), replay={'prog': progs[i], 'impl': outs[i], 'stage': stage}))
    return len(progs)


def search(ctx, failures):
    """Independent reader over every real definition of this run (and the corpus)."""
    found = []
    # hand-made definitions through the library reader, compared field by field (no Coq needed)
    try:
        import random
        rng = random.Random(ctx.seed * 7919 + 2)
        structs = [gen_struct(rng) for _ in range(150)]
        blobs = [enc_struct(S) for S in structs]
        res = ctx.impl('c02_read', {'cases': [b.hex() for b in blobs]}, timeout=600)['out']
        for S, b, o in zip(structs, blobs, res):
            if o.get('units') is not None:
                bad = syn_field_mismatch(S, o)
                if bad:
                    found.append(Failure('search', 'the library reader does not recover a field of a hand-made definition: ' + bad,
                                         found_input=True, theorem='reader_recovers', replay={'bytes': b.hex(), 'struct': S, 'observed': bad}))
            if o.get('leak'):
                found.append(Failure('search', 'state leaked by the description reader: ' + o['leak'], found_input=True,
                                     replay={'bytes': b.hex(), 'observed': o['leak']}))
            if len(found) >= 2:
                break
    except fw.ImplError as e:
        fw.log('search: synthetic probe failed: %s' % e)
    cases, outs = getattr(ctx, 'c02_cases', (None, None))
    if cases is None:
        cases = make_cases(ctx)
        outs = ctx.impl('c02_build', {'cases': cases}, timeout=1500)['out']
    for k, o in zip(cases, outs):
        if not o.get('bytes'):
            continue
        b = bytes.fromhex(o['bytes'])
        why = oracle.check_bytes(b, [tuple(x) for x in o['order']])
        if why:
            label = k.get('label', k.get('kind', 'valid'))
            sig = SIGS['variant'] if k.get('variants') and 'parse' in why else (SIGS['seq'] if str(label).startswith('seq:') else None)
            found.append(Failure('search', 'independent SCgf-2 reader rejects the bytes emitted for %r (%s): %s' % (k['name'][:30], label, why),
                                 signature=sig, found_input=True, theorem='scgf_roundtrip',
                                 replay={'case': short(k), 'bytes': o['bytes'], 'observed': why}))
        elif o.get('desc_exc'):
            # the bytes are a well-formed definition but the library's own reader does not accept them
            found.append(Failure('search', 'SynthDesc.new_from rejects the well-formed bytes the library emitted for %r (%s): %s' % (
                k['name'][:30], k.get('kind'), o['desc_exc'][:200]), found_input=True, theorem='reader_recovers',
                replay={'case': short(k), 'bytes': o['bytes'], 'observed': o['desc_exc']}))
        elif o.get('desc'):
            d = o['desc']
            decl = o.get('decl', [])
            want_names = [n for n, _i, _r, _w in decl]
            bad = None
            if d['name'] != k['name']:
                bad = 'definition name %r read back as %r' % (k['name'][:40], d['name'][:40])
            elif d['cnames'] != want_names:
                bad = 'control names %r read back as %r' % (want_names[:6], d['cnames'][:6])
            elif o.get('defname') != k['name']:
                bad = 'def_name_from_bytes returned %r' % (o.get('defname'),)
            else:
                for n, i, r, w in decl:
                    if i >= len(d['ctls']) or d['ctls'][i][0] != n or d['ctls'][i][1] != r or d['ctls'][i][2] != w:
                        bad = 'parameter %r (slot %d, rate %d, default words %r) read back as %r' % (
                            n, i, r, w, d['ctls'][i] if i < len(d['ctls']) else None)
                        break
            if bad:
                found.append(Failure('search', 'the library reader does not recover what the SynthDef declares: ' + bad,
                                     found_input=True, theorem='reader_recovers',
                                     replay={'case': short(k), 'bytes': o['bytes'], 'observed': bad}))
        if len(found) >= 5:
            break
    return found


def replay(ctx, rp):
    """./check C02 --replay FILE : rebuild the recorded program on the current tree."""
    case = rp.get('replay', {}).get('case')
    if not case:
        print(json.dumps(rp, indent=1))
        return 0
    o = ctx.impl('c02_build', {'cases': [case]})['out'][0]
    if o['bytes']:
        b = bytes.fromhex(o['bytes'])
        why = oracle.check_bytes(b, [tuple(x) for x in o['order']])
        print('bytes=%d independent-reader=%s' % (len(b), why or 'ok'))
        return 1 if (why or case.get('expect') == 'raise') else 0
    print('raised: %s' % o['exc'])
    return 0 if case.get('expect') != 'ok' else 1
