"""C11 -- routines, conditions and flow variables obey their state machine."""
import copy, json, os, sys
import fw
from fw import Corr, Failure

sys.path.insert(0, os.path.join(fw.VERIF, 'harness', 'oracles'))
import c11_monitors

TITLE = 'Routines, conditions and flow variables obey their state machine'
TRANSLATED = []
MODEL_TARGETS = ['model/Cond.vo', 'model/Routine.vo', 'model/RtWake.vo']
ALLOWED_AXIOMS = []
TRUSTED = [
    'hand-written model coq/model/Routine.v + coq/model/Cond.v of sc3/base/stream.py (Routine.next/reset/pause/resume/stop/play, '
    'Condition, FlowVar) and of the NRT wake-up loop of sc3/base/clock.py (ClockScheduler.run / ClockTask._wakeup / '
    'SystemClock.sched; one pending wake-up per routine, a new sched replaces the previous entry), tied to the code by differential testing of generated script programs (harness/impl/c11_run.py)',
    'CPython generators by specification: a generator is a position in a finite script; send() into an executing generator '
    'raises ValueError; StopIteration subclasses escaping a generator become RuntimeError (PEP 479)',
    'the script-to-generator compiler and the observation encoder in harness/impl/c11_run.py',
    'real-time wake-up loops (SystemClock._run, TempoClock._run, Scheduler._wakeup): model/RtWake.v is a hand transcription of the '
    'try/except/finally around task.__awake__; tie = ast check of the clearing clause + behavioural monitors on the real clock threads '
    '(harness/impl/c11_rt.py); OS thread scheduling and time.time() are not modelled',
]
ASSUMES = [
    'routine bodies are finite scripts over the actions of coq/model/Routine.v:act (yield, return, raise, YieldAndReset, '
    'AlwaysYield, calls of next/stop/pause/resume/reset/play/signal/unhang/test=/value= on any routine or cell including '
    'itself, caught or not, wait, flow-variable read); one clock (SystemClock, NRT); boolean Condition tests',
    'threads: the model has one thread of control; that operations issued from other OS threads are serialised with the wake-ups of the '
    'clock threads (library lock) is checked on real threads (c11_rt.py concurrent scenarios) and by an ast check of the lock discipline',
]
FUEL = 40
SIG_REENTRY = 'C11:reentrant_next_current_tt'
SIG_STALE = 'C11:stale_terminal_after_reset'


# --------------------------------------------------------------------------- printers
def pval(v):
    k = v[0]
    if k == 'none': return 'VNone'
    if k == 'int': return '(VInt %s)' % fw.cz(v[1])
    if k == 'str': return '(VStr %s)' % fw.cz(v[1])
    if k == 'hang': return 'VHang'
    if k == 'awake': return 'VAwake'
    if k == 'unbound': return 'VUnbound'
    if k == 'float': return '(VFloat %s)' % fw.cz(v[1])
    if k == 'bool': return '(VBool %s)' % fw.cbool(v[1])
    if k == 'estr': return 'VEmptyStr'
    if k == 'elist': return 'VEmptyList'
    raise ValueError(v)


FALSY_TESTS = ['false', '0', '0.0', '[]', "''", 'none', 'fn_false', 'fn_0', 'fn_[]', "fn_''", 'fn_none']
TRUTHY_TESTS = ['true', '1', '[0]', "'x'", 'fn_true', 'fn_1', 'fn_[0]', "fn_'x'"]


def ptest(t):
    if isinstance(t, bool): return '(TBool %s)' % fw.cbool(t)
    if t == 'err': return '(TErr false)'
    if t == 'errbase': return '(TErr true)'
    return '(TBool %s)' % fw.cbool(t in TRUTHY_TESTS)


def pcall(c):
    k = c[0]
    if k == 'next': return '(CNext %d %s)' % (c[1], pval(c[2]))
    if k in ('stop', 'pause', 'resume', 'reset', 'play'):
        return '(C%s %d)' % (k.capitalize(), c[1])
    if k == 'signal': return '(CSignal %d)' % c[1]
    if k == 'unhang': return '(CUnhang %d)' % c[1]
    if k == 'settest': return '(CSetTest %d %s)' % (c[1], ptest(c[2]))
    if k == 'flowset': return '(CFlowSet %d %s)' % (c[1], pval(c[2]))
    raise ValueError(c)


def pacts(script):
    out = []
    for a in script:
        k = a[0]
        if k == 'yield': out.append('AYield %s' % pval(a[1]))
        elif k == 'return': out.append('AReturn')
        elif k == 'raise': out.append('ARaise')
        elif k == 'yreset': out.append('AYieldAndReset %s' % pval(a[1]))
        elif k == 'always': out.append('AAlwaysYield %s' % pval(a[1]))
        elif k == 'call': out.append('ACall %s %s' % (pcall(a[1]), fw.cbool(a[2])))
        elif k == 'wait': out.append('AWait %d' % a[1])
        elif k == 'flowget': out += ['AWait %d' % a[1], 'AFlowLog %d' % a[1]]
        elif k == 'log': out.append('ALog %s' % pval(a[1]))
        elif k == 'raisebase': out.append('ARaiseBase')
        elif k == 'relay': out.append('ARelay %d %s' % (a[1], pval(a[2])))
        else: raise ValueError(a)
    return '[' + '; '.join(out) + ']'


def pdefs(defs):
    return '[' + '; '.join('mkDef %s %s %s' % ('Gen' if d['kind'] == 'gen' else 'Fn', fw.cbool(d['hasin']), pacts(d['script']))
                           for d in defs) + ']'


def pcells(cells):
    return '[' + '; '.join('CFlow None' if k == 'flow' else 'CCond false' for k in cells) + ']'


def pops(ops):
    return '[' + '; '.join('OTick' if o[0] == 'tick' else 'OCall %s' % pcall(o[1]) for o in ops) + ']'


def pllz(obs):
    return '[' + '; '.join('[' + '; '.join(('(%d)' % x) if x < 0 else str(x) for x in row) + ']' for row in obs) + ']%Z'


HEADER = ('From Coq Require Import ZArith List Bool. Import ListNotations.\n'
          'Require Import SC3.lib.PyNum SC3.model.Cond SC3.model.Routine.\n')


def item(case, obs, cfg, fuel=None):
    return '(run_case %s %d %s %s %s, %s)' % (cfg, fuel or FUEL, pdefs(case['defs']), pcells(case['cells']), pops(case['ops']), pllz(obs))


BODY = 'Eval vm_compute in bad_idx (fun c => llz_eqb (fst c) (snd c)) cases.'


# --------------------------------------------------------------------------- generators
def gval(rng, numeric=0.5):
    x = rng.random()
    if x < 0.22:      # falsy values and type-tag neighbours as EXPLICIT values: 0, 0.0, False, '', [], None (+ True, 1.0)
        return rng.choice([['int', 0], ['float', 0], ['float', 0], ['bool', False], ['bool', False], ['estr'], ['elist'],
                           ['none'], ['bool', True], ['float', 1]])
    x = rng.random()
    if x < numeric: return ['int', rng.choice([0, 0, 1, 1, 2, 3])]
    if x < numeric + 0.2: return ['none']
    return ['str', rng.randint(0, 3)]


def gcall(rng, nr, cells, me, mode):
    """a call made from a body (me = its routine) or from outside (me = None)"""
    nc = len(cells)
    kinds = ['next'] * 5 + ['stop', 'pause', 'resume', 'reset', 'play'] * (2 if mode != 'cond' else 1)
    if nc:
        kinds += ['signal', 'unhang', 'settest', 'flowset'] * (4 if mode == 'cond' else 1)
    k = rng.choice(kinds)
    if k == 'settest' and 'cond' not in cells: k = 'signal'
    if k == 'flowset' and 'flow' not in cells: k = 'unhang'
    if k in ('next', 'stop', 'pause', 'resume', 'reset', 'play'):
        r = rng.randrange(nr)
        if me is not None and mode == 'reentrant' and rng.random() < 0.5:
            r = me
        if me is not None and mode == 'plain' and k == 'next' and r <= me:
            # no re-entrant next in this stream: only call routines with a larger index
            if me + 1 >= nr:
                k = rng.choice(['stop', 'pause', 'reset'])
            else:
                r = rng.randrange(me + 1, nr)
        return [k, r, gval(rng)] if k == 'next' else [k, r]
    if k == 'settest':      # only plain Conditions have a settable boolean test in the model
        tv = rng.random()
        t = (rng.random() < 0.7) if tv < 0.4 else rng.choice(TRUTHY_TESTS) if tv < 0.7 else rng.choice(FALSY_TESTS) if tv < 0.93 \
            else rng.choice(['err', 'errbase'])
        return [k, rng.choice([i for i, x in enumerate(cells) if x == 'cond']), t]
    if k == 'flowset':      # only FlowVars have a value
        return [k, rng.choice([i for i, x in enumerate(cells) if x == 'flow']), gval(rng)]
    return [k, rng.randrange(nc)]


def gscript(rng, nr, nc, me, kind, mode, cells):
    n = rng.choice([0, 1, 2, 3, 3, 4, 5, 6])
    out = []
    for _ in range(n):
        x = rng.random()
        if kind == 'gen' and x < 0.05 and nr > 1:
            # hand a nested routine's value on (larger index only in the plain stream: no re-entry there)
            cand = [j for j in range(nr) if j != me and (mode != 'plain' or j > me)]
            if cand:
                out.append(['relay', rng.choice(cand), gval(rng)])
                continue
        if kind == 'gen' and x < 0.34:
            out.append(['yield', gval(rng, 0.7 if mode == 'cond' else 0.5)])
        elif kind == 'gen' and nc and x < (0.6 if mode == 'cond' else 0.38):
            c = rng.randrange(nc)
            out.append(['flowget', c] if cells[c] == 'flow' and rng.random() < 0.7 else ['wait', c])
        elif x < 0.72:
            out.append(['call', gcall(rng, nr, cells, me, mode), rng.random() < 0.7])
        elif x < 0.84:
            out.append(['log', gval(rng)])
        elif x < 0.88:
            out.append(['return'])
        elif x < 0.905:
            out.append(['raise'])
        elif x < 0.92:
            out.append(['raisebase', rng.randrange(4)])
        elif x < 0.96:
            out.append(['yreset', gval(rng)])
        else:
            out.append(['always', gval(rng)])
    return out


def gcase(rng, mode):
    nr = rng.choice([1, 2, 2, 3, 3, 4])
    nc = rng.choice([0, 1, 2]) if mode != 'cond' else rng.choice([1, 2, 3])
    cells = [rng.choice(['cond', 'flow']) for _ in range(nc)]
    defs = []
    for i in range(nr):
        kind = 'gen' if rng.random() < 0.85 else 'fn'
        defs.append({'kind': kind, 'hasin': rng.random() < 0.5, 'script': gscript(rng, nr, nc, i, kind, mode, cells)})
    ops = []
    if mode == 'cond':
        for i in range(nr):
            if rng.random() < 0.8:
                ops.append(['call', ['play', i]])
    for _ in range(rng.randint(1, 14)):
        x = rng.random()
        if x < (0.5 if mode == 'cond' else 0.12):
            ops.append(['tick'])
        else:
            ops.append(['call', gcall(rng, nr, cells, None, mode)])
    if mode == 'cond':
        ops += [['tick']] * rng.randint(0, 4)
    return {'defs': defs, 'cells': cells, 'ops': ops, 'mode': mode}


def gchain(rng):
    """played routine 0 -> relay routines -> a routine that waits on a Condition / reads a FlowVar, at nesting depth
    1..4 below the played routine; then the condition is signalled / unhung / the value assigned, from outside or from
    another played routine, and the scheduler runs"""
    depth = rng.randint(1, 4)
    flow = rng.random() < 0.5
    cells = ['flow' if flow else 'cond']
    defs = []
    for i in range(depth):
        sc = [['log', ['str', i]]] if rng.random() < 0.3 else []
        sc += [['relay', i + 1, ['none']], ['log', ['str', 10 + i]]]
        sc += [['relay', i + 1, ['none']]] if rng.random() < 0.5 else [['yield', gval(rng)]]
        defs.append({'kind': 'gen', 'hasin': rng.random() < 0.5, 'script': sc})
    last = [['flowget', 0] if flow and rng.random() < 0.8 else ['wait', 0], ['log', ['str', 20]], ['yield', gval(rng)]]
    if rng.random() < 0.3:
        last += [['wait', 0], ['yield', gval(rng)]]
    defs.append({'kind': 'gen', 'hasin': rng.random() < 0.5, 'script': last})
    waker = None
    if rng.random() < 0.4:      # a second played routine does the signalling
        w = [['yield', ['int', rng.choice([0, 1])]]]
        w.append(['call', ['flowset', 0, gval(rng)], True] if flow else ['call', ['settest', 0, rng.choice(TRUTHY_TESTS)], True])
        w.append(['call', [rng.choice(['signal', 'unhang']), 0], True])
        defs.append({'kind': 'gen', 'hasin': False, 'script': w})
        waker = len(defs) - 1
    ops = [['call', ['play', 0]]]
    if waker is not None:
        ops.append(['call', ['play', waker]])
    ops += [['tick']] * rng.randint(1, 3)
    for _ in range(rng.randint(1, 3)):
        k = rng.random()
        if k < 0.3:
            ops.append(['call', ['unhang', 0]])
        elif flow:
            ops.append(['call', ['flowset', 0, gval(rng)]])
        else:
            ops += [['call', ['settest', 0, rng.choice(TRUTHY_TESTS) if rng.random() < 0.8 else rng.choice(FALSY_TESTS)]], ['call', ['signal', 0]]]
        if rng.random() < 0.3:
            ops.append(['call', ['signal', 0]])
        ops += [['tick']] * rng.randint(1, 3)
    ops += [['tick']] * 2
    return {'defs': defs, 'cells': cells, 'ops': ops, 'mode': 'chain%d' % depth}


def gancestor(rng):
    """routine 0 resumes routine 1 resumes ... ; the innermost one applies an operation to a RUNNING ANCESTOR (not to
    itself): stop / pause / reset / next / play / resume, caught or not; then routine 0 is driven on from outside"""
    depth = rng.randint(2, 4)
    defs = []
    for i in range(depth - 1):
        sc = [['yield', gval(rng)]] if rng.random() < 0.3 else []
        sc += [['call', ['next', i + 1, gval(rng)], rng.random() < 0.7], ['log', ['str', i]], ['yield', gval(rng)]]
        if rng.random() < 0.5:
            sc += [['call', ['next', i + 1, ['none']], True], ['yield', gval(rng)]]
        defs.append({'kind': 'gen', 'hasin': rng.random() < 0.3, 'script': sc})
    last = []
    for _ in range(rng.randint(1, 2)):
        k = rng.choice(['stop', 'stop', 'pause', 'pause', 'reset', 'reset', 'next', 'play', 'resume'])
        tgt = rng.randrange(depth - 1)
        last.append(['call', [k, tgt, gval(rng)] if k == 'next' else [k, tgt], rng.random() < 0.75])
    last += [['log', ['str', 9]], ['yield', gval(rng)]]
    defs.append({'kind': 'gen' if rng.random() < 0.8 else 'fn', 'hasin': False, 'script': last})
    ops = []
    for _ in range(rng.randint(2, 5)):
        x = rng.random()
        if x < 0.7:
            ops.append(['call', ['next', 0, gval(rng)]])
        elif x < 0.85:
            ops.append(['call', ['next', rng.randrange(depth), ['none']]])
        else:
            ops.append(['call', [rng.choice(['stop', 'reset', 'pause', 'resume']), rng.randrange(depth)]])
    return {'defs': defs, 'cells': [], 'ops': ops, 'mode': 'ancestor%d' % depth}


def gshared(rng):
    """a routine W that waits several times is driven by DIFFERENT played routines over time (A relays it, later B relays
    it, or it is played itself): each wait must register the routine that is playing W at that moment"""
    flow = rng.random() < 0.3
    cells = ['flow' if flow else 'cond']
    nwait = rng.randint(2, 4)
    wsc = []
    for j in range(nwait):
        wsc += [['flowget', 0] if flow and rng.random() < 0.6 else ['wait', 0], ['log', ['str', 20 + j]]]
    wsc += [['yield', gval(rng)]]
    defs = [{'kind': 'gen', 'hasin': False, 'script': wsc}]            # routine 0 = W
    nplayers = rng.randint(2, 3)
    for i in range(nplayers):
        sc = [['yield', ['int', rng.choice([0, 0, 1])]]] if rng.random() < 0.5 else []
        for _ in range(rng.randint(1, 2)):
            sc += [['relay', 0, ['none']], ['log', ['str', i]]]
        sc += [['yield', gval(rng)]]
        defs.append({'kind': 'gen', 'hasin': False, 'script': sc})
    if rng.random() < 0.4:     # a relay routine in between for one of the players
        defs.append({'kind': 'gen', 'hasin': False, 'script': [['relay', 0, ['none']], ['relay', 0, ['none']], ['yield', gval(rng)]]})
        defs[1]['script'] = [['relay', len(defs) - 1, ['none']], ['log', ['str', 7]], ['yield', gval(rng)]]
    order = list(range(1, nplayers + 1))
    rng.shuffle(order)
    ops = []
    for i in order:
        ops.append(['call', ['play', i]])
        ops += [['tick']] * rng.randint(1, 2)
        x = rng.random()
        if x < 0.4:
            ops.append(['call', ['unhang', 0]])
        elif x < 0.7 and not flow:
            ops += [['call', ['settest', 0, rng.choice(TRUTHY_TESTS)]], ['call', ['signal', 0]], ['call', ['settest', 0, rng.choice(FALSY_TESTS)]]]
        ops += [['tick']] * rng.randint(1, 3)
    if rng.random() < 0.5:
        ops += [['call', ['play', 0]], ['tick']]                        # W goes on by itself on the clock
    ops += [['call', ['unhang', 0]]] + [['tick']] * 3
    return {'defs': defs, 'cells': cells, 'ops': ops, 'mode': 'shared%d' % nplayers}


def gfifo(rng):
    """several played routines wait on ONE Condition / FlowVar (some of them twice, via a next() from outside while they
    hang); then it is signalled / unhung / bound, from outside or from a further routine: order and number of resumptions"""
    n = rng.randint(2, 4)
    flow = rng.random() < 0.4
    cells = ['flow' if flow else 'cond']
    defs = []
    for i in range(n):
        sc = [['yield', ['int', rng.choice([0, 0, 1])]]] if rng.random() < 0.4 else []
        sc += [['flowget', 0] if flow and rng.random() < 0.7 else ['wait', 0], ['log', ['str', i]]]
        sc += [['wait', 0], ['log', ['str', 10 + i]]] if rng.random() < 0.4 else []
        sc += [['yield', gval(rng)]]
        defs.append({'kind': 'gen', 'hasin': rng.random() < 0.3, 'script': sc})
    order = list(range(n))
    rng.shuffle(order)
    ops = [['call', ['play', i]] for i in order]
    ops += [['tick']] * (n + rng.randint(0, n))
    if rng.random() < 0.4:       # somebody resumes a hanging routine by hand: it may wait a second time
        ops.append(['call', ['next', rng.randrange(n), ['none']]])
    for _ in range(rng.randint(1, 2)):
        k = rng.random()
        if k < 0.35:
            ops.append(['call', ['unhang', 0]])
        elif flow:
            ops.append(['call', ['flowset', 0, gval(rng)]])
        else:
            ops += [['call', ['settest', 0, rng.choice(TRUTHY_TESTS)]], ['call', ['signal', 0]]]
        ops += [['tick']] * rng.randint(1, n + 1)
        if not flow and rng.random() < 0.5:
            ops.append(['call', ['settest', 0, rng.choice(FALSY_TESTS)]])
    ops += [['tick']] * n
    return {'defs': defs, 'cells': cells, 'ops': ops, 'mode': 'fifo%d' % n}


CORPUS = os.path.join(fw.VERIF, 'corpus', 'C11_histories.json')


ROUTINE_SUBCLASSES = ['esp']     # sc3.seq.eventstream.EventStreamPlayer: the only Routine subclass the library defines


def with_subclasses(case, seed, idx):
    """some routines of the program become instances of a Routine subclass (same script as body): the model is the same.
    Own PRNG per case so that the main generator stream is not disturbed."""
    import random
    rng = random.Random(seed * 7919 + idx)
    if rng.random() < 0.5:
        for d in case['defs']:
            if rng.random() < 0.5:
                d['cls'] = rng.choice(ROUTINE_SUBCLASSES)
    return case


def gen_cases(ctx, n):
    cases = []
    if os.path.exists(CORPUS):
        cases += json.load(open(CORPUS))
    for i in range(n):
        x = ctx.rng.random()
        if x < 0.10:
            cases.append(gchain(ctx.rng))
            continue
        if x < 0.20:
            cases.append(gfifo(ctx.rng))
            continue
        if x < 0.28:
            cases.append(gancestor(ctx.rng))
            continue
        if x < 0.34:
            cases.append(gshared(ctx.rng))
            continue
        mode = 'plain' if x < 0.45 else 'cond' if x < 0.78 else 'reentrant'
        cases.append(gcase(ctx.rng, mode))
    return [with_subclasses(k, ctx.seed, j) if k.get('mode') != 'corpus' else k for j, k in enumerate(cases)]


# --------------------------------------------------------------------------- running
def strip(case):
    return {k: case[k] for k in ('defs', 'cells', 'ops')}


def run_impl(ctx, cases):
    res = ctx.impl('c11_run', {'cases': [strip(c) for c in cases]}, timeout=900)
    ctx.c11_probes = res.get('probes', [])
    return res['out']


def usable(res):
    """cases the encoding can express and that did not hit Python's recursion limit"""
    return res['obs'] is not None and not res['weird'] and not res.get('recursion')


def first_diff(ctx, case, obs, cfg='patched'):
    """ask Coq for the model's observations of one case; return (op index or None, model rows)"""
    txt = HEADER + 'Eval vm_compute in run_case %s %d %s %s %s.\n' % (
        cfg, FUEL, pdefs(case['defs']), pcells(case['cells']), pops(case['ops']))
    rc, out = ctx.coq('diag', txt, timeout=120)
    if rc != 0:
        return None, out[-500:]
    import re
    body = out[out.index('=') + 1:out.rindex(':')]
    rows = [[int(x) for x in re.findall(r'-?\d+', r)] for r in re.findall(r'\[([^\[\]]*)\]', body)]
    for i, (a, b) in enumerate(zip(rows, obs)):
        if a != b:
            return i, rows
    return (None if len(rows) == len(obs) else min(len(rows), len(obs))), rows


# --------------------------------------------------------------------------- real-time part
RT_ENDINGS = ['exhaust', 'return', 'raise', 'raise_first', 'yreset', 'always', 'function', 'function_raises',
              'sched_function_raises', 'nested_ends', 'nested_raises', 'late_nested']
RT_LOOPS = [('SystemClock', '_run'), ('Scheduler', '_wakeup'), ('TempoClock', '_run')]
SIG_AWAKE = 'C11:awake_flag_not_cleared'


def awake_clause(repo):
    """Where do the three real-time wake-up loops clear main._in_awake_call?  (ast of sc3/base/clock.py)
    -> {loop: 'finally' | 'else' | 'body' | 'handler' | 'missing'}; the model (RtWake.v) says Finally."""
    import ast
    tree = ast.parse(open(os.path.join(repo, 'sc3', 'base', 'clock.py')).read())

    def assigns(nodes, value):
        for n in nodes:
            for m in ast.walk(n):
                if isinstance(m, ast.Assign) and any(isinstance(t, ast.Attribute) and t.attr == '_in_awake_call' for t in m.targets) \
                        and isinstance(m.value, ast.Constant) and m.value.value is value:
                    return True
        return False
    out = {}
    for cls, fn_name in RT_LOOPS:
        where = 'missing'
        for c in ast.walk(tree):
            if isinstance(c, ast.ClassDef) and c.name == cls:
                for f in ast.walk(c):
                    if isinstance(f, ast.FunctionDef) and f.name == fn_name:
                        for t in ast.walk(f):
                            if isinstance(t, ast.Try) and assigns(t.body, True):
                                where = ('finally' if assigns(t.finalbody, False) else 'else' if assigns(t.orelse, False)
                                         else 'handler' if assigns(t.handlers, False) else 'body' if assigns(t.body, False) else 'missing')
        out['%s.%s' % (cls, fn_name)] = where
    return out


LOCKED_METHODS = [('sc3/base/stream.py', 'Routine', ['play', 'next', 'reset', 'pause', 'resume', 'stop']),
                  ('sc3/base/stream.py', 'Condition', ['signal', 'unhang']),
                  ('sc3/seq/eventstream.py', 'EventStreamPlayer', ['reset', 'resume', 'stop', 'play'])]


def lock_discipline(repo):
    """The model treats every operation applied from outside as atomic with respect to routine bodies (between two
    operations no routine is Running: thread_stack_restored).  In the library this is what `with self._state_lock:` gives:
    every read/write of self.state / self._waiting_threads in the state-machine methods must be lexically inside it.
    -> list of 'Class.method: self.<attr> accessed outside the lock (line n)'"""
    import ast
    bad = []
    for path, cls, methods in LOCKED_METHODS:
        tree = ast.parse(open(os.path.join(repo, path)).read())
        for cnode in ast.walk(tree):
            if not (isinstance(cnode, ast.ClassDef) and cnode.name == cls):
                continue
            for f in cnode.body:
                if not (isinstance(f, ast.FunctionDef) and f.name in methods):
                    continue

                def visit(node, locked):
                    if isinstance(node, ast.With) and any(
                            isinstance(i.context_expr, ast.Attribute) and i.context_expr.attr == '_state_lock' for i in node.items):
                        locked = True
                    if isinstance(node, ast.Attribute) and node.attr in ('state', '_waiting_threads', '_iterator') \
                            and isinstance(node.value, ast.Name) and node.value.id == 'self' and not locked:
                        bad.append('%s.%s: self.%s accessed outside `with self._state_lock` (line %d)' % (cls, f.name, node.attr, node.lineno))
                    for ch in ast.iter_child_nodes(node):
                        visit(ch, locked)
                visit(f, False)
    return bad


def run_rt(ctx, c=None):
    """routines ending in every way on the real clock threads (own process, own port); -> Failures"""
    port = 58500 + (os.getpid() % 30) * 12
    res = ctx.impl('c11_rt', {'endings': RT_ENDINGS, 'sleep_check': ['exhaust', 'raise'],
                              'concurrent': ['pause', 'stop', 'reset', 'resume', 'play', 'next']}, mode='rt', timeout=180,
                   extra_env={'SC3_LIB_PORT': str(port)})['scenarios']
    fails = []
    seen = set()
    for sc in res:
        if c is not None:
            c.count('rt:%s:%s' % (sc['clock'], 'skipped' if sc.get('skipped') else 'finished'))
            if not sc.get('skipped'):
                c.nontriv(('rt', sc['clock'], sc['ending']))
        for v in sc['violations']:
            key = (sc['clock'], v.split(':')[0][:40])
            if key in seen:
                continue
            seen.add(key)
            fails.append(Failure('search', 'real-time monitor: routine played on %s ending by %s: %s' % (sc['clock'], sc['ending'], v),
                                 signature=SIG_AWAKE, theorem='awake_flag_cleared_on_every_exit', found_input=True,
                                 replay={'scenario': {k: sc[k] for k in sc if k != 'violations'}, 'violations': sc['violations'],
                                         'how': 'harness/impl/c11_rt.py: sc3.init("rt"); Routine(body ending by <ending>).play(<clock>); '
                                                'wait until it has finished; then observe main._in_awake_call, main.current_tt, '
                                                'main.main_tt._seconds before/after time.sleep(0.3), and the start time of a routine played afterwards'}))
    return res, fails


def correspond(ctx):
    c = Corr()
    # real-time wake-up loops: the clause the model assumes, read from the source; then the real threads
    clauses = awake_clause(fw.REPO)
    rt_res, rt_fails = run_rt(ctx, c)
    clock_of = {'SystemClock._run': 'SystemClock', 'Scheduler._wakeup': 'AppClock', 'TempoClock._run': 'TempoClock'}
    for loop, where in clauses.items():
        c.count('rt-loop:%s:%s' % (loop, where))
        if where != 'finally':
            mine = [f for f in rt_fails if f.replay['scenario']['clock'].startswith(clock_of[loop])]
            for f in mine:      # the concrete scenario is the replay; say what the source looks like
                f.what += ' [source: %s clears main._in_awake_call in its %s clause, model/RtWake.v assumes finally]' % (loop, where)
                f.replay['clause_in_source'] = {loop: where}
            if not mine:
                c.failures.append(Failure('correspondence', 'model/RtWake.v assumes that %s clears main._in_awake_call in a finally '
                                          'clause; the source has it in: %s' % (loop, where), replay={'loop': loop, 'clause': where},
                                          theorem='awake_flag_cleared_on_every_exit'))
    for t in lock_discipline(fw.REPO):
        c.count('lock-discipline-violations')
        mine = [f for f in rt_fails if 'from another thread' in f.what]
        for f in mine:
            f.what += ' [source: %s]' % t
        if not mine:
            c.failures.append(Failure('correspondence', 'the model assumes operations from outside are atomic w.r.t. routine bodies '
                                      '(library lock); source: ' + t, replay={'lock_discipline': t}, theorem='thread_stack_restored'))
    c.failures.extend(rt_fails)
    ctx.c11_rt_done = True
    cases = gen_cases(ctx, ctx.n(500, 8000))
    res = run_impl(ctx, cases)
    for pb in ctx.c11_probes:
        c.failures.append(Failure('search', 'aliasing probe on the implementation: ' + pb, found_input=True,
                                  theorem='routine_transitions', replay={'probe': pb, 'how': 'harness/impl/c11_run.py:probes()'}))
    keep = [(k, r) for k, r in zip(cases, res) if usable(r)]
    c.count('cases:skipped(recursion-limit or inexpressible value)', len(cases) - len(keep))
    for k, r in keep:
        c.count('mode:' + k.get('mode', 'corpus'))
        for d in k['defs']:
            c.count('class:' + d.get('cls', 'routine'))
            for a in d['script']:
                if a[0] in ('raisebase', 'relay'):
                    c.count('act:' + a[0])
        c.count('routines:%d' % len(k['defs']))
        for o in k['ops']:
            c.count('op:' + (o[0] if o[0] == 'tick' else o[1][0]))
        for row in r['obs'][:-1]:
            c.count('outcome:' + ('ret' if row[0] == 0 else 'exc%d' % row[1]))
        if any(2 in s['states'] for s in r['struct']) or any(s['queue'] for s in r['struct']):
            c.nontriv(strip(k))
    # every second case runs the model with the SMALLEST fuel the termination theorem allows (number of routines + 1,
    # nested_next_terminates_fuel_independent): were the bound wrong, the model would answer RecursionError here
    # the model-free monitors run on EVERY case (not only when something else failed): some of what they judge
    # is outside the model (side effects of Routine subclasses on their own state)
    hits = [(k, c11_monitors.check(strip(k), r)) for k, r in keep]
    hits = [(k, v) for k, v in hits if v]
    c.count('monitor-hits', len(hits))
    if hits:
        c.failures.extend(monitor_failures(ctx, [k for k, v in hits], [v for k, v in hits]))
    items = [item(k, r['obs'], 'patched', fuel=(len(k['defs']) + 1) if j % 2 else FUEL) for j, (k, r) in enumerate(keep)]
    c.count('fuel:minimal(routines+1)', len(keep) // 2)
    bad, errs = fw.check_shards(ctx, 'hist', HEADER, items, BODY, shard=max(40, len(items) // 16 + 1))
    c.evaluations = len(keep) + len(rt_res)
    c.rule = ('generated script programs (1-4 routines, 0-3 conditions/flow variables, bodies of 0-6 actions, histories of 1-18 '
              'operations applied from outside incl. scheduler ticks; three streams: plain, condition/flow-variable programs played '
              'on the NRT clock, and re-entrant/self-targeting malformed programs) compiled into real generator functions and '
              'Routine/Condition/FlowVar objects; after EVERY operation the outcome, every routine\'s state/_iterator/_last_value/'
              '_terminal_value, main.current_tt, main logical time, the scheduler queue and every waiting list, and at the end the '
              'log written by the bodies, are compared exactly with coq/model/Routine.v (patched configuration) under vm_compute. '
              'non-trivial = some routine ran to a yield (Suspended) or a wake-up was queued. Real-time part (not a model comparison: '
              'monitors only): routines ending by exhaustion / return / raise / YieldAndReset / AlwaysYield / nested endings, played on the '
              'real SystemClock, AppClock and two TempoClock threads; afterwards current_tt, _in_awake_call, main logical time over a 0.3 s '
              'sleep (>= 0.2 s) and the start time of a routine played next are checked')
    c.samples = [{'case': strip(k), 'impl_first_obs': r['obs'][0]} for k, r in keep[:4]]
    for e in errs:
        c.failures.append(Failure('correspondence', 'coq evaluation of C11 cases failed: ' + e))
    if bad:
        # classify: does the implementation follow the model of the code as released (both defects present)?
        items_u = [item(keep[i][0], keep[i][1]['obs'], 'unpatched') for i in bad]
        bad_u, errs_u = fw.check_shards(ctx, 'histu', HEADER, items_u, BODY, shard=max(20, len(items_u) // 16 + 1))
        bad_u = set(bad_u)
        c.count('mismatch:patched-model', len(bad))
        c.count('mismatch:also-unpatched-model', len(bad_u))
        shown = 0
        for j, i in enumerate(sorted(bad, key=lambda i: len(json.dumps(strip(keep[i][0]))))):
            if shown >= 6:
                break
            k, r = keep[i]
            jj = bad.index(i)
            follows_unpatched = jj not in bad_u and not errs_u
            at, rows = first_diff(ctx, strip(k), r['obs'])
            small = strip(k)
            if isinstance(at, int) and at < len(k['ops']):
                small = dict(small, ops=k['ops'][:at + 1])
            mon = c11_monitors.check(strip(k), r)
            c.failures.append(Failure(
                'correspondence',
                'model (repaired stream.py) and implementation disagree at op %s of a generated history%s; monitors: %s' % (
                    at, ' -- the implementation behaves exactly like the model of the code as released '
                        '(re-entrant next() not refused / reset() keeps the terminal value)' if follows_unpatched else '',
                    [m[3] for m in mon][:2]),
                replay={'case': small, 'first_difference_at_op': at,
                        'impl': r['obs'][at] if isinstance(at, int) and at < len(r['obs']) else None,
                        'model': rows[at] if isinstance(at, int) and isinstance(rows, list) and at < len(rows) else rows,
                        'follows_unpatched_model': follows_unpatched}))
            shown += 1
    ctx.c11 = (cases, res)
    return c


# --------------------------------------------------------------------------- search
def violations(ctx, cases):
    out = []
    res = run_impl(ctx, cases)
    for k, r in zip(cases, res):
        if r['obs'] is None:
            continue
        out.append(c11_monitors.check(strip(k), r))
    return out


def shrink(ctx, case, key):
    """greedy deletion keeping a violation of the same monitor; candidates are run in batches on the implementation"""
    case = strip(copy.deepcopy(case))

    def cands(k):
        out = []
        for i in range(len(k['ops'])):
            out.append(dict(k, ops=k['ops'][:i] + k['ops'][i + 1:]))
        for ri, d in enumerate(k['defs']):
            for i in range(len(d['script'])):
                nd = copy.deepcopy(k['defs'])
                del nd[ri]['script'][i]
                out.append(dict(k, defs=nd))
            if d['hasin']:
                nd = copy.deepcopy(k['defs'])
                nd[ri]['hasin'] = False
                out.append(dict(k, defs=nd))
            if d.get('cls'):
                nd = copy.deepcopy(k['defs'])
                del nd[ri]['cls']
                out.append(dict(k, defs=nd))
        if k['defs'] and not any(_mentions(k, len(k['defs']) - 1)):
            out.append(dict(k, defs=k['defs'][:-1]))
        return out

    for _ in range(40):
        cs = cands(case)
        if not cs:
            break
        vs = violations(ctx, cs)
        ok = [c for c, v in zip(cs, vs) if any(m[0] == key for m in v)]
        if not ok:
            break
        case = min(ok, key=lambda c: len(json.dumps(c)))
    return case


def _mentions(k, r):
    def calls():
        for o in k['ops']:
            if o[0] == 'call':
                yield o[1]
        for d in k['defs'][:r]:
            for a in d['script']:
                if a[0] == 'call':
                    yield a[1]
    for c in calls():
        yield c[0] in ('next', 'stop', 'pause', 'resume', 'reset', 'play') and c[1] == r


SIGNATURES = {'current_tt': SIG_REENTRY, 'running_outside': SIG_REENTRY, 'inside_view': SIG_REENTRY,
              'self_op': SIG_REENTRY, 'ancestor_op': SIG_REENTRY, 'stale_terminal': SIG_STALE}
# (other monitors - failure_not_done, wait_registers, ... - have no known-finding signature)


def search(ctx, failures):
    """Monitors of the documented state machine, directly on the implementation (no model involved)."""
    cases = []
    for f in failures:
        if f.replay.get('case'):
            cases.append(f.replay['case'])
    if getattr(ctx, 'c11', None):
        cases += ctx.c11[0]
    else:
        cases += gen_cases(ctx, ctx.n(500, 5000))
    vs = violations(ctx, cases)
    return monitor_failures(ctx, cases, vs)


def monitor_failures(ctx, cases, vs):
    """one shrunk Failure (concrete history) per monitor that fired"""
    by_key = {}
    for k, v in zip(cases, vs):
        for m in v:
            cur = by_key.get(m[0])
            if cur is None or len(json.dumps(strip(k))) < len(json.dumps(strip(cur[0]))):
                by_key[m[0]] = (k, m)
    found = []
    for key, (k, m) in sorted(by_key.items()):
        small = shrink(ctx, k, key)
        v = [x for x in violations(ctx, [small])[0] if x[0] == key]
        res = run_impl(ctx, [small])[0]
        found.append(Failure(
            'search', 'monitor %s fails on the implementation: %s' % (key, v[0][3] if v else m[3]),
            signature=SIGNATURES.get(key), theorem=m[1], found_input=True,
            replay={'case': small, 'monitor': key, 'violations': [x[3] for x in v][:4],
                    'observed_per_op': [{'op': o, 'outcome': s['out'], 'current_tt': s['cur'], 'states': s['states']}
                                        for o, s in zip(small['ops'], res['struct'])],
                    'how': 'harness/impl/c11_run.py compiles defs into generator functions wrapped in sc3 Routine objects '
                           '(sc3.init("nrt")) and applies ops from outside; current_tt: 0 = main_tt, -1 = None, i+1 = routine i; '
                           'states: 0 Init 1 Running 2 Suspended 3 Paused 4 Done'}))
    return found


def replay(ctx, rp):
    case = rp.get('replay', {}).get('case')
    if not case:
        print(json.dumps(rp, indent=1))
        return 0
    res = run_impl(ctx, [case])[0]
    v = c11_monitors.check(strip(case), res)
    print(json.dumps({'case': case, 'struct': res['struct'], 'violations': [x[3] for x in v]}, indent=1))
    return 1 if v else 0
