"""C08 -- real-time clocks wake every task once, on time, in order, and survive errors.

Tie = TRACE VALIDATION: stress programs run on the real clocks (harness/impl/c08_trace.py, an RT
process with logging proxies); every logged linearised trace must be a path of the transition
system of coq/model/RtClock.v ([accepts_quiescent], vm_compute) and satisfy the monitors of the
theorems; plus end-to-end monitors on the implementation (no model) and the deterministic AppClock
window scenario (DESIGN.md section 6, F13)."""
import json, os, random
from fractions import Fraction
import fw
from fw import Corr, Failure

TITLE = 'Real-time clocks wake every task once, on time, in order, and survive errors'
TRANSLATED = []
MODEL_TARGETS = ['model/TaskQ.vo', 'model/RtClock.vo']
ALLOWED_AXIOMS = []
TRUSTED = [
    'hand-written transition systems coq/model/RtClock.v of SystemClock/TempoClock._run/_sched_add/clear/_stop/tempo setter and of '
    'AppClock._run/_tick/sched/_stop + Scheduler (sc3/base/clock.py), tied to the code by trace validation: every event of a run of the '
    'real library is logged by proxies while the library lock is held and replayed in Coq',
    'threading.Condition / RLock by specification: wait() releases the lock and registers the waiter atomically and re-acquires it before '
    'returning; notify() with no waiter is lost; the lock gives mutual exclusion (so the log is a linearisation)',
    'the proxies and the trace printer (harness/impl/c08_trace.py, harness/props/C08.py); sys._getframe caller names used to tell '
    '_run/clear/_stop/_sched_add/tempo call sites apart',
    'TaskQueue refines the sorted-list specification used by the model (property C09)',
]
ASSUMES = [
    'PARTIAL: liveness under real OS scheduling and timer accuracy are not verified (a notified / timed-out thread eventually runs); '
    'the theorems are about the lock/notify protocol',
    'tasks do not release the main lock while they run; tempo is changed by a thread that holds the main lock (a task, or `with '
    'main._main_lock`): the unlocked field updates of the tempo setter racing with a running clock thread are not modelled',
    'scheduled times are finite and above the -1e10 sentinel of _sched_add; tempo > 0',
    'physical time reads are non-decreasing (the harness clamps main.elapsed_time and quantises it to 2^-10 s so that float arithmetic '
    'is exact and timeouts can be recomputed in Q)',
]
SIG_F13 = 'C08:appclock-lost-notify-window'
SIG_INF = 'C08:inf-result-kills-clock'

HEADER = ('From Coq Require Import QArith ZArith List Bool.\nImport ListNotations.\n'
          'Require Import SC3.lib.PyNum SC3.model.TaskQ SC3.model.RtClock.\nLocal Open Scope Q_scope.\n')


# --------------------------------------------------------------------------- printers
def q(p):
    if p[0] == 'nf':
        raise ValueError('non-finite time %s in the trace' % p[1])
    n, d = p
    return '(%s # %d)' % (('(%d)' % n) if n < 0 else str(n), d)


def z(n):
    return '(%d)%%Z' % n if n < 0 else '%d%%Z' % n


def pres(r):
    if r[0] == 'delta':
        return '(RDelta %s)' % q(r[1:3])
    # a non-finite number must not re-schedule (sched/sched_abs refuse inf): same as a non-number
    return {'other': 'ROther', 'raise': 'RRaise', 'nonfinite': 'ROther'}[r[0]]


def pev(e):
    k = e[1]
    if k == 'add': return 'EAdd %s %s' % (q(e[2]), z(e[3]))
    if k == 'notify':
        if e[2] not in ('sched', 'clear', 'stop', 'tempo'):
            raise ValueError('notify from an unknown call site: %r' % (e,))
        return 'ENotify %s' % {'sched': 'SSched', 'clear': 'SClear', 'stop': 'SStop', 'tempo': 'STempo'}[e[2]]
    if k == 'clearpop': return 'EClearPop %s %s' % (q(e[2]), z(e[3]))
    if k == 'qclear': return 'EQClear'
    if k == 'tempo_done':
        if Fraction(*e[5]) * Fraction(*e[2]) != 1:
            raise ValueError('_beat_dur != 1/_tempo')
        return 'ETempo (mkTM %s %s %s)' % (q(e[2]), q(e[3]), q(e[4]))
    if k == 'time': return 'ETime %s' % q(e[2])
    if k == 'wait_begin': return 'EWaitBegin %s' % ('None' if e[2] is None else '(Some %s)' % q(e[2]))
    if k == 'wait_end': return 'EWaitEnd %s' % ('CNotified' if e[2] else 'CTimeout')
    if k == 'pop': return 'EPop %s %s' % (q(e[2]), z(e[3]))
    if k == 'awake_end': return 'EAwakeEnd %s %s' % (z(e[2]), pres(e[3]))
    raise ValueError('event outside the model alphabet: %r' % (e,))


def paev(e):
    k = e[1]
    if k == 'tick_begin': return 'ATickBegin'
    if k == 'time': return 'ATime %s' % q(e[2])
    if k == 'pop': return 'APop %s %s' % (q(e[2]), z(e[3]))
    if k == 'awake_end': return 'AAwakeEnd %s %s' % (z(e[2]), pres(e[3]))
    if k == 'add': return 'AAdd %s %s' % (q(e[2]), z(e[3]))
    if k == 'clearpop': return 'AClearPop %s %s' % (q(e[2]), z(e[3]))
    if k == 'tick_end': return 'ATickEnd'
    if k == 'cond_enter': return 'ACondEnter'
    if k == 'wait_begin': return 'AWaitBegin %s' % ('None' if e[2] is None else '(Some %s)' % q(e[2]))
    if k == 'wait_end': return 'AWaitEnd %s' % ('CNotified' if e[2] else 'CTimeout')
    if k == 'cond_exit': return 'ACondExit'
    if k == 'anotify': return 'ANotify'
    if k == 'stop': return 'AStop'
    raise ValueError('event outside the model alphabet: %r' % (e,))


def pevs(log, src=None, anns=None):
    """log -> Coq events.  tempo_req [notify tempo] tempo_done(fields) -> ETempo fields [ENotify STempo]
    (the setter updates the fields first, then notifies; the fields are read back after it returned);
    sched_req base -> ESchedCall base delta; sched_ret dropped.  src (optional list) receives, for every
    Coq event, the index of the log entry it comes from."""
    out, i = [], 0
    src = [] if src is None else src

    def emit(term, k):
        out.append(term)
        src.append(k)
    while i < len(log):
        e = log[i]
        if e[1] == 'sched_call':
            emit('ESchedCall %s %s' % (q(e[2]), q(e[3])), i)
            i += 1
        elif e[1] == 'sched_nobase':
            raise ValueError('sched(%s/%s, ...) issued by a non-clock thread reached the queue without reading the main '
                             "thread's time under the lock (its time base is not the physical present)" % tuple(e[2]))
        elif e[1] == 'sched_req':
            # sched(d) entered by a non-clock thread; the next event is the time base read by sched
            if i + 1 >= len(log) or log[i + 1][1] != 'base':
                raise ValueError('sched(delta) from a non-clock thread did not read the time: %r' % (log[i:i + 3],))
            emit('ESchedCall %s %s' % (q(log[i + 1][2]), q(e[2])), i)
            i += 2
        elif e[1] == 'sched_ret':
            i += 1
        elif e[1] == 'base':
            raise ValueError('unexpected time-base read: %r' % (log[max(0, i - 2):i + 2],))
        elif e[1] == 'tempo_req':
            j = i + 1
            while j < len(log) and log[j][1] != 'tempo_done':
                j += 1
            if j == len(log):
                raise ValueError('tempo change without end marker')
            inner = log[i + 1:j]
            if any(not (x[1] == 'notify' and x[2] == 'tempo') for x in inner):
                raise ValueError('unexpected events inside a tempo/beats setter: %r' % (inner,))
            emit(pev(log[j]), j)
            if anns is not None and len(log[j]) > 7:
                kind = {'tempo': 'RTempo', 'etempo': 'REtempo', 'beats_add': 'RBeats'}[e[2]]
                anns.append('(%s, %s, %s)' % (kind, q(log[j][6]), q(log[j][7])))
            for n, x in enumerate(inner):
                emit(pev(x), i + 1 + n)
            i = j + 1
        else:
            emit(pev(e), i)
            i += 1
    return out


APP_PREFIX = ['ATickBegin', 'ATime (0 # 1)', 'ATickEnd', 'ACondEnter', 'AWaitBegin None']
SYS_PREFIX = ['EWaitBegin None']


def trace_term(r):
    """result of one scenario -> (kind, Coq term) ; raises ValueError for events outside the alphabet"""
    fq, n1 = r.get('final_queue'), r.get('n_log1')

    def snap(npre):
        if fq is None or n1 is None:
            return '(None : option (nat * list (Q * task))%type)'
        return '(Some (%d%%nat, ([%s] : list (Q * task)%%type)))' % (npre, '; '.join('(%s, %s)' % (q(p), z(t)) for p, t in fq))
    if r['clock'] == 'app':
        r['_src'] = [None] * len(APP_PREFIX) + list(range(len(r['log'])))
        return 'app', '([%s], %s)' % ('; '.join(APP_PREFIX + [paev(e) for e in r['log']]),
                                      snap(len(APP_PREFIX) + (n1 or 0)))
    src = []
    npre = len(pevs(r['log'][:n1])) if n1 is not None else 0
    off = len(SYS_PREFIX) if r['clock'] == 'sys' else 0
    drain = '(None : option (nat * Q)%type)'
    if r.get('_drain_at') is not None:
        # the batch was scheduled while the thread slept: from its wake-up on, the real trace must be
        # exactly the model's fair drain run of the model's queue
        k = r['_drain_at']
        drain = '(Some (%d%%nat, %s))' % (off + len(pevs(r['log'][:k])), q(r['log'][k + 1][2]))
    noann = '([] : list (retime_kind * Q * Q)%type)'
    if r['clock'] == 'sys':
        evs = SYS_PREFIX + pevs(r['log'], src)
        r['_src'] = [None] * len(SYS_PREFIX) + src
        return 'clk', '(KSys, tm_id, [%s], %s, %s, %s)' % ('; '.join(evs), snap(len(SYS_PREFIX) + npre), drain, noann)
    m = '(mkTM %s %s %s)' % tuple(q(x) for x in r['init_map'])
    anns = []
    evs = pevs(r['log'], src, anns)
    r['_src'] = src
    return 'clk', '(KTempo, %s, [%s], %s, %s, %s)' % (m, '; '.join(evs), snap(npre), drain,
                                                      ('([%s] : list (retime_kind * Q * Q)%%type)' % '; '.join(anns)))


CLK_CHECKS = ['accepts_quiescent', 'never_early', 'exactly_once+order', 'resched_relative_to_scheduled',
              'notify_iff_head_changed', 'no_oversleep', 'sched_relative_to_physical_now',
              'model_queue_equals_real_queue', 'thread_does_next_clock_event', 'fair_drain_run_matches',
              'tempo_map_after_change_is_the_entry_points_definition']
BODY_CLK = '''
Definition qok (k : kind) (m : tmap) (evs : list event) (x : option (nat * list (Q * task))%type) : bool :=
  match x with
  | None => true
  | Some (n, expq) => match run (init k m) (firstn n evs) with
                      | Some s => list_eqb pair_eqb (map ipair (c_q s)) expq
                      | None => true
                      end
  end.
Definition dok (k : kind) (m : tmap) (evs : list event) (y : option (nat * Q)) : bool :=
  match y with
  | None => true
  | Some (n, t) => drain_matches k m evs n CNotified t
  end.
Definition chk (c : (kind * tmap * list event * option (nat * list (Q * task)) * option (nat * Q) * list (retime_kind * Q * Q))%type) : list bool :=
  let '(k, m, evs, x, y, anns) := c in
  [accepts_quiescent k m evs; mon_never_early m None evs; mon_once [] 0 None evs; mon_resched 0 evs;
   mon_notify [] 0 evs; mon_no_oversleep (init k m) evs; mon_sched_base m evs; qok k m evs x;
   mon_next (init k m) evs; dok k m evs y; mon_retime m anns evs].
Definition ok (c : (kind * tmap * list event * option (nat * list (Q * task)) * option (nat * Q) * list (retime_kind * Q * Q))%type) : bool := forallb (fun b => b) (chk c).
Eval vm_compute in bad_idx ok cases.
'''
APP_CHECKS = ['a_accepts_quiescent', 'never_early', 'resched_relative_to_present', 'exactly_once+order', 'no_oversleep',
              'model_queue_equals_real_queue']


def body_app(variant, strict_oversleep):
    v = 'VFlag' if variant == 'flag' else 'VOrig'
    return '''
Definition qok (evs : list aevent) (x : option (nat * list (Q * task))%%type) : bool :=
  match x with
  | None => true
  | Some (n, expq) => match arun (ainit %s) (firstn n evs) with
                      | Some s => list_eqb pair_eqb (map ipair (a_q s)) expq
                      | None => true
                      end
  end.
Definition chk (c : (list aevent * option (nat * list (Q * task)))%%type) : list bool :=
  let '(evs, x) := c in
  [a_accepts_quiescent %s evs; a_mon_never_early None false evs; a_mon_resched None evs; a_mon_once [] 0 [] evs;
   %s; qok evs x].
Definition ok (c : (list aevent * option (nat * list (Q * task)))%%type) : bool := forallb (fun b => b) (chk c).
Eval vm_compute in bad_idx ok cases.
''' % (v, v, ('a_mon_no_oversleep (ainit %s) evs' % v) if strict_oversleep else 'true')


def diagnose(ctx, kind, term, variant):
    """which check fails, and where the model stops"""
    if kind == 'clk':
        txt = HEADER + 'Definition c := %s.\n' % term + BODY_CLK.replace('Eval vm_compute in bad_idx ok cases.', '') + \
            "Eval vm_compute in chk c.\nEval vm_compute in (let '(k, m, evs, _, _, _) := c in first_reject (init k m) evs 0).\n"
    else:
        v = 'VFlag' if variant == 'flag' else 'VOrig'
        txt = HEADER + 'Definition c := %s.\n' % term + \
            body_app(variant, True).replace('Eval vm_compute in bad_idx ok cases.', '') + \
            'Eval vm_compute in chk c.\nEval vm_compute in a_first_reject (ainit %s) (fst c) 0.\n' % v
    rc, out = ctx.coq('diag_%d' % os.getpid(), txt, timeout=300)
    import re
    m = re.search(r'=\s*\[([^\]]*)\]\s*:\s*list bool', out, re.S)
    flags = [x.strip() == 'true' for x in m.group(1).split(';')] if m else None
    m2 = re.search(r'=\s*(None|Some (\d+)(?:%nat)?)\s*:\s*option nat', out, re.S)
    rej = None
    if m2 and m2.group(2) is not None:
        rej = int(m2.group(2))
    return flags, rej, out[-800:]


# --------------------------------------------------------------------------- scenarios
TEMPI = [[1, 2], [1, 1], [2, 1], [4, 1]]


EXC_TYPES = ['StopIteration', 'StopIterationSub', 'StopStreamSub', 'KeyError', 'ValueError', 'ZeroDivisionError',
             'AttributeError', 'Custom', 'AssertionError', 'OSError']


def gen_exceptions(kind, idx):
    """one task per exception type a task can raise (StopIteration and its subclasses, StopStream subclass = 'done',
    ordinary ones); every raising wake-up must produce exactly one error record of the clock carrying that exception,
    the 'done' protocol (StopStream) none; the clock goes on (last task runs)"""
    tasks = {str(i + 1): {'results': [['exc', e]]} for i, e in enumerate(EXC_TYPES)}
    n = len(EXC_TYPES)
    tasks[str(n + 1)] = {'results': [['stop']]}
    tasks[str(n + 2)] = {'results': [['none']]}
    th = [['sched', i + 1, 1 + (i % 3), 64] for i in range(n + 1)] + [['sched', n + 2, 5, 64]]
    wc = {str(i + 1): 1 for i in range(n + 2)}
    return {'name': '%s-exception-types' % kind, 'clock': kind, 'index': idx, 'tempo': [1, 1], 'tasks': tasks,
            'threads': [th], 'final': 'clear', 'wait_counts': wc, 'before_final': 5.0, 'after_final': 0.02, 'expect_counts': wc}


def gen_same_callable(rng, kind, idx):
    """the same PLAIN function (wrapped anew by every sched call) scheduled several times while earlier schedulings are
    pending, from two threads and at distinct and equal times: every call is a separate scheduling -> one wake-up each"""
    k1, k2 = rng.randint(2, 4), rng.randint(2, 4)
    op = 'sched'
    t1 = [[op, 1, rng.choice([2, 4, 4, 6, 8]), 64] for _ in range(k1)] + [[op, 2, 4, 64]]
    t2 = [[op, 2, rng.choice([3, 4, 4, 7]), 64] for _ in range(k2 - 1)] + [[op, 1, 4, 64]]
    wc = {'1': k1 + 1, '2': k2}
    return {'name': '%s-same-callable-%d' % (kind, idx), 'clock': kind, 'index': idx, 'tempo': [1, 1],
            'tasks': {'1': {'plain': True, 'results': []}, '2': {'plain': True, 'results': []}},
            'threads': [t1, t2], 'final': 'clear', 'wait_counts': wc, 'before_final': 5.0, 'after_final': 0.1,
            'expect_counts': wc}


def wrap_via(rng, kind, inner):
    """perform inner from: this client thread, a task of another clock, or the OSC receive path"""
    vias = ['thread', 'osc', 'aux'] + [v for v in ('sys', 'app') if v != kind]
    v = rng.choice(vias)
    if v == 'thread':
        return inner
    if v == 'osc':
        return ['osc_do', inner]
    return ['via', v, inner]


def gen_cross(kind, via, what, idx):
    """a pending task 3 s (beats at tempo 1) ahead; 100 ms later its deadline is moved ~0.1 s from now -- by a tempo
    change to 32, by a jump of the beats, or (what = 'sched') another task is scheduled 62.5 ms ahead -- issued from a
    task running on ANOTHER clock, from the OSC receive path, or from another thread (with / without the main lock).
    It must run before +1.5 s after the change (oversleep would be ~3 s): load cannot delay a wake-up that long."""
    inner = {'tempo': ['tempo', 32, 1], 'etempo': ['etempo', 32, 1], 'beats': ['beats_add', 23, 8],
             'sched': ['sched', 2, 1, 16]}[what]
    if via == 'thread':
        op = inner
    elif via == 'nolock':
        op = ['nolock', inner]
    elif via == 'osc':
        op = ['osc_do', inner]
    else:
        op = ['via', via, inner]
    task = 2 if what == 'sched' else 1
    return {'name': '%s-cross-%s-from-%s' % (kind, what, via), 'clock': kind, 'index': idx, 'tempo': [1, 1],
            'tasks': {'1': {'results': [['none']]}, '2': {'results': [['none']]}},
            'threads': [[['sched', 1, 3, 1], ['sleep', 100], op]],
            'final': 'clear', 'wait_for': [task], 'before_final': 2.0, 'after_final': 0.03,
            'expect_after': {'op': what, 'task': task, 'bound': 1.5}}


def gen_cross_all(idx, nolock=False):
    out = []
    for via in ['sys', 'app', 'aux', 'osc', 'thread'] + (['nolock'] if nolock else []):
        for what in ('tempo', 'etempo', 'beats'):
            idx += 1
            out.append(gen_cross('tempo', via, what, idx))
    for kind, vias in (('sys', ['app', 'aux', 'osc']), ('tempo', ['sys', 'app', 'aux', 'osc']), ('app', ['sys', 'aux', 'osc'])):
        for via in vias:
            idx += 1
            out.append(gen_cross(kind, via, 'sched', idx))
    return out, idx


def gen_after_raise(kind, how, idx):
    """a task raises / raises StopStream / a Routine ends on the clock; then NOTHING is awakened on any clock for 200 ms;
    then sched(3/8 s) from a helper thread (task 2) and from the process' main thread (task 3) -- on the same clock, or on
    SystemClock when the first clock is AppClock (AppClock.sched does not use logical time).  Lower bound, measured against
    the physical time read BEFORE the call: awake - call >= delta - eps (load can only make it later)."""
    first = {'raise': {'results': [['raise']]}, 'stop': {'results': [['stop']]},
             'routine': {'routine': 1, 'yield': [1, 64]}}[how]
    op = 'xsched' if kind == 'app' else 'sched'
    return {'name': '%s-after-%s' % (kind, how), 'clock': kind, 'index': idx, 'tempo': [1, 1],
            'tasks': {'1': first, '2': {'results': [['none']]}, '3': {'results': [['none']]}},
            'threads': [[['sched', 1, 1, 16], ['sleep', 300], [op, 2, 3, 8]]],
            'main_ops': [[op, 3, 3, 8]],
            'final': 'clear', 'wait_for': [2, 3], 'before_final': 1.5, 'after_final': 0.02, 'lower_bound': True}


def gen_edge(kind, idx):
    """explicit edge values: delays 0 / 0.0 / -0.0 / negative / False / inf / None, results 0 / 0.0 / -0.0 / negative /
    False / True / '' / [] / None; the number of wake-ups of every task is known exactly"""
    tasks = {
        '1': {'results': [['num', 'i0'], ['none']]},          # int 0: re-scheduled at the same time -> 2 wake-ups
        '2': {'results': [['num', 'f0'], ['none']]},
        '3': {'results': [['num', 'nf0'], ['none']]},
        '4': {'results': [['delta', -1, 64], ['none']]},      # negative: re-scheduled in the past -> 2
        '5': {'results': [['num', 'false'], ['none']]},       # bool is not a number -> 1
        '6': {'results': [['num', 'true'], ['none']]},
        '7': {'results': [['num', 'empty'], ['none']]},
        '8': {'results': [['num', 'list'], ['none']]},
        '9': {'results': [['none']]},                         # scheduled with inf: never
        '10': {'results': [['none']]},                        # scheduled with None: TypeError (AppClock: 0.0)
        '11': {'results': [['none']]},                        # scheduled with False == 0: runs once
        '12': {'results': [['num', 'nan'], ['none']]},        # nan result: not re-scheduled -> 1
        '13': {'results': [['none']]},                        # scheduled with nan: never
        '14': {'results': [['num', 'fsub'], ['none']]},       # a float SUBCLASS (numpy.float64-like) is a number -> 2
        '15': {'results': [['num', 'isub'], ['none']]},       # an int SUBCLASS (IntEnum-like) is a number -> 2
    }
    th = [['sched_x', 1, 'i0'], ['sched_x', 2, 'f0'], ['sched_x', 3, 'nf0'], ['sched', 4, -1, 64], ['sched', 5, 1, 64],
          ['sched', 6, 1, 64], ['sched', 7, 1, 32], ['sched', 8, 1, 32], ['sched_x', 9, 'inf'], ['sched_x', 10, 'none'],
          ['sched_x', 11, 'false'], ['sched', 12, 1, 64], ['sched_x', 13, 'nan'], ['sched', 14, 1, 64], ['sched', 15, 1, 64], ['sleep', 150]]
    counts = {'1': 2, '2': 2, '3': 2, '4': 2, '5': 1, '6': 1, '7': 1, '8': 1, '9': 0, '10': 1 if kind == 'app' else 0, '11': 1,
              '12': 1, '13': 0, '14': 2, '15': 2}
    return {'name': '%s-edge-values' % kind, 'clock': kind, 'index': idx, 'tempo': [2, 1], 'tasks': tasks, 'threads': [th],
            'final': 'clear', 'before_final': 4.0, 'after_final': 0.05, 'expect_counts': counts, 'wait_counts': counts,
            'expect_outcome': {'10': 'ok' if kind == 'app' else 'TypeError', '9': 'ok'}}


def gen_inf_result(kind, idx):
    """a task returns float('inf') (sched / sched_abs refuse inf: 'never'); the clock must survive and wake the next task"""
    return {'name': '%s-inf-result' % kind, 'clock': kind, 'index': idx, 'tempo': [1, 1],
            'tasks': {'1': {'results': [['num', 'inf']]}, '2': {'results': [['none']]}},
            'threads': [[['sched', 1, 1, 32], ['sched', 2, 1, 8]]],
            'final': 'clear', 'wait_counts': {'1': 1, '2': 1}, 'before_final': 2.5, 'after_final': 0.02,
            'expect_counts': {'1': 1, '2': 1}, 'inf_result': True}


def gen_late_parent(kind, idx):
    """logical vs physical time: a task that runs LATE (40 ms busy body) schedules another task with delta 1/16 and
    returns 1/32: both are relative to its SCHEDULED time, exactly"""
    return {'name': '%s-late-parent' % kind, 'clock': kind, 'index': idx, 'tempo': [2, 1],
            'tasks': {'1': {'results': [['delta', 1, 32], ['none']], 'nested': [[['busy', 40], ['sched', 2, 1, 16]]]},
                      '2': {'results': [['none']]}},
            'threads': [[['sched', 1, 1, 32]]], 'final': 'clear', 'wait_counts': {'1': 2, '2': 1}, 'before_final': 4.0,
            'after_final': 0.02, 'logical_exact': True, 'expect_counts': {'1': 2, '2': 1}}


def gen_ties(kind, idx):
    """eight tasks at exactly the same time, scheduled one after the other by one thread: FIFO"""
    return {'name': '%s-ties-fifo' % kind, 'clock': kind, 'index': idx, 'tempo': [2, 1],
            'tasks': {str(t): {'results': [['none']]} for t in range(1, 9)},
            'threads': [[['abs', t, 4, 64] for t in (3, 1, 4, 8, 5, 2, 7, 6)]],
            'final': 'clear', 'wait_for': list(range(1, 9)), 'before_final': 4.0, 'after_final': 0.02,
            'fifo': [3, 1, 4, 8, 5, 2, 7, 6], 'expect_counts': {str(t): 1 for t in range(1, 9)}}


def gen_tie_resched(rng, kind, idx):
    """ties AFTER re-scheduling: one block of schedulings (the clock thread cannot run meanwhile) in which pending tasks
    are scheduled again -- second sched_abs / sched call, Routine play / pause+resume on the beat grid -- for times
    that other tasks were scheduled for in between.  Among tasks with the same time the wake-up order must be the order
    of their LAST scheduling (a re-scheduling replaces the pending one and counts as new)."""
    n = rng.randint(4, 7)
    tasks, ops, played = {}, [], set()
    routines = set(t for t in range(1, n + 1) if kind == 'tempo' and rng.random() < 0.5)
    for t in range(1, n + 1):
        tasks[str(t)] = {'routine': 0} if t in routines else {'results': [['none']]}
    for _ in range(rng.randint(8, 16)):
        t = rng.randint(1, n)
        if t in routines:
            if t not in played:
                ops.append(['rplay', t, 1]); played.add(t)
            elif rng.random() < 0.7:
                ops += [['rpause', t], ['rresume', t, 1]]
            else:
                ops.append(['abs', t, 64, 64])          # moved off the grid, far: may be moved back by a resume? no: stays
                routines.discard(t)
        elif kind == 'app':
            ops.append(['sched', t, rng.choice([6, 6, 6, 7, 12]), 64])
        else:
            ops.append(['abs', t, rng.choice([6, 6, 6, 7, 12]), 64])
    for t in range(1, n + 1):                            # everybody is scheduled at least once
        if not any(o[1] == t for o in ops):
            ops.append(['rplay', t, 1] if t in routines else (['sched', t, 6, 64] if kind == 'app' else ['abs', t, 6, 64]))
    wc = {str(t): 1 for t in range(1, n + 1)}
    return {'name': '%s-tie-resched-%d' % (kind, idx), 'clock': kind, 'index': idx, 'tempo': [4, 1], 'tasks': tasks,
            'threads': [[['locked', ops]]], 'final': 'clear', 'wait_counts': wc, 'before_final': 6.0, 'after_final': 0.02,
            'tie_order': True, 'expect_counts': wc}


def gen_drain_batch(rng, kind, idx):
    """progress: while the thread waits on an empty queue, one locked block schedules several tasks for times that are
    already past (ties included); when the block ends the thread wakes up and must pop and awaken ALL of them, each
    once, in (time, scheduling) order, then wait again: the real trace must equal the model's fair drain run."""
    n = rng.randint(2, 7)
    ops = [['abs', t, -rng.choice([17, 18, 18, 19, 20]), 64] for t in rng.sample(range(1, n + 1), n)]
    wc = {str(t): 1 for t in range(1, n + 1)}
    return {'name': '%s-drain-batch-%d' % (kind, idx), 'clock': kind, 'index': idx, 'tempo': rng.choice([[1, 1], [2, 1]]),
            'tasks': {str(t): {'results': [rng.choice([['none'], ['str'], ['num', 'true']])]} for t in range(1, n + 1)},
            'threads': [[['locked', ops]]], 'final': 'clear', 'wait_counts': wc, 'before_final': 6.0, 'after_final': 0.02,
            'tie_order': True, 'expect_counts': wc, 'drain': True}


def gen_two_clocks(kind, idx):
    """the SAME task object scheduled on this clock and on SystemClock: one wake-up on each; a second task scheduled
    twice on this clock (replaced): one wake-up"""
    return {'name': '%s-same-task-two-clocks' % kind, 'clock': kind, 'index': idx, 'tempo': [1, 1],
            'tasks': {'1': {'results': [['none']]}, '2': {'results': [['none']]}},
            'threads': [[['sched', 1, 1, 16], ['xsched', 1, 1, 16], ['sched', 2, 1, 8], ['sched', 2, 1, 16], ['sleep', 200]]],
            'final': 'clear', 'before_final': 4.0, 'after_final': 0.2, 'expect_counts': {'1': 2, '2': 1},
            'wait_counts': {'1': 2, '2': 1},
            'expect_threads': {'1': 2}}


def gen_self_stop(idx):
    """a task stops its own TempoClock during its wake-up; the pending tasks never run; the thread ends"""
    return {'name': 'tempo-self-stop', 'clock': 'tempo', 'index': idx, 'tempo': [1, 1],
            'tasks': {'1': {'results': [['none']], 'nested': [[['stop'], ['sched', 3, 1, 1]]]},
                      '2': {'results': [['none']]}, '3': {'results': [['none']]}},
            'threads': [[['sched', 1, 1, 32], ['sched', 2, 1, 1], ['sleep', 300]]],
            'final': 'drain', 'horizon': 0.5, 'expect_dead': True, 'expect_counts': {'1': 1, '2': 0, '3': 0}}


def gen_sched_during_routine(kind, where, idx):
    """scheduling calls from a second thread while a clock thread is INSIDE a Routine wake-up (main.current_tt is that
    routine, process-global; slow body of 200 ms): sched(1/4) issued 70 ms after the routine began, by a helper thread
    and by the main thread, on clock `kind`; the routine runs on the same clock or on another one (`where`).  Lower
    bound against the physical time read before the call: awake - call >= 1/4 - eps."""
    first = {'sys': ['xsched', 1, 1, 64], 'aux': ['asched', 1, 1, 64], 'same': ['sched', 1, 1, 64]}[where]
    return {'name': '%s-sched-during-routine-on-%s' % (kind, where), 'clock': kind, 'index': idx, 'tempo': [1, 1],
            'aux_marker': 'aux' if where == 'aux' else '',
            'tasks': {'1': {'routine': 1, 'slow': 200}, '2': {'results': [['none']]}, '3': {'results': [['none']]}},
            'threads': [[first, ['sleep', 70], ['sched', 2, 1, 4]]],
            'main_ops': [['sched', 3, 1, 4]],
            'final': 'clear', 'wait_counts': {'2': 1, '3': 1}, 'before_final': 4.0, 'after_final': 0.05, 'lower_bound': True}


def gen_after_routine_failure(kind, how, idx):
    """a Routine awakened by the clock fails in a way that goes through the time-thread stack (main.current_tt / parent
    pointers): it resumes ITSELF, resumes another routine that raises (at its first step / after a yield), or raises in its
    second wake-up.  Then 200 ms with no wake-up; then sched from a helper thread and the main thread, and a routine
    scheduled afterwards must run: no scheduling call may fail, nothing is early, the global time-thread state is
    restored."""
    other = {'rscript': [['raise']]} if how == 'nested_raise' else {'rscript': [['yield', 1, 64], ['raise']]}
    first = {'self_next': {'rscript': [['self_next']]},
             'nested_raise': {'rscript': [['next', 9]]},
             'nested_raise_after_yield': {'rscript': [['next', 9], ['yield', 1, 64], ['next', 9]]},
             'raise_after_yield': {'rscript': [['yield', 1, 64], ['raise']]},
             'self_next_after_yield': {'rscript': [['yield', 1, 64], ['self_next']]}}[how]
    op = 'xsched' if kind == 'app' else 'sched'
    n1 = 1 if how in ('self_next', 'nested_raise') else 2
    return {'name': '%s-after-routine-%s' % (kind, how), 'clock': kind, 'index': idx, 'tempo': [1, 1],
            'tasks': {'1': first, '2': {'results': [['none']]}, '3': {'results': [['none']]},
                      '4': {'rscript': [['yield', 1, 64]]}, '9': other},
            'threads': [[['sched', 1, 1, 32], ['sleep', 250], [op, 2, 1, 4], [op, 4, 1, 8]]],
            'main_ops': [[op, 3, 1, 4]],
            'final': 'clear', 'wait_counts': {'1': n1, '2': 1, '3': 1, '4': 2}, 'before_final': 4.0, 'after_final': 0.05,
            'lower_bound': True, 'expect_counts': {'1': n1, '2': 1, '3': 1, '4': 2}}


def gen_retime_bound(entry, via, factor, idx):
    """every tempo / beat changing entry point, some time after the clock's last base point, with a pending task and the
    thread asleep: TempoClock(1); task 1 scheduled 1 beat ahead; 300 ms later `entry` (tempo / etempo to `factor`, or
    beats += 1/4) issued from `via`.  Never-early bound from the documented semantics: the beats still to go at the change
    are (1 - elapsed [- 1/4]); they take that many / new tempo seconds from the change."""
    inner = {'tempo': ['tempo', factor, 1], 'etempo': ['etempo', factor, 1], 'beats': ['beats_add', 1, 4]}[entry]
    op = inner if via == 'thread' else (['osc_do', inner] if via == 'osc' else ['via', via, inner])
    return {'name': 'tempo-retime-%s-x%s-from-%s' % (entry, factor, via), 'clock': 'tempo', 'index': idx, 'tempo': [1, 1],
            'tasks': {'1': {'results': [['none']]}},
            'threads': [[['sleep', 150], ['sched', 1, 1, 1], ['sleep', 300], op]],
            'final': 'clear', 'wait_counts': {'1': 1}, 'before_final': 5.0, 'after_final': 0.02,
            'retime_bound': {'entry': entry, 'factor': factor, 'delta': 1.0}}


def gen_retime_while_other_busy(entry, factor, idx):
    """a tempo / beats change issued by a NON-clock thread that does not hold the main lock (as the main thread of a script
    does), while ANOTHER clock (SystemClock) is mid-way through a slow plain-function task: the caller's logical 'now' must
    be the physical present (it waits for the running task), not the running task's older scheduled time"""
    inner = {'tempo': ['tempo', factor, 1], 'etempo': ['etempo', factor, 1], 'beats': ['beats_add', 1, 4]}[entry]
    return {'name': 'tempo-retime-%s-x%s-while-sys-busy' % (entry, factor), 'clock': 'tempo', 'index': idx, 'tempo': [1, 1],
            'tasks': {'1': {'results': [['none']]}, '2': {'results': [['none']], 'nested': [[['slow', 300]]]}},
            'threads': [[['sleep', 150], ['sched', 1, 1, 1], ['sleep', 250], ['xsched', 2, 0, 1], ['sleep', 150],
                         ['nolock', inner]]],
            'final': 'clear', 'wait_counts': {'1': 1}, 'before_final': 5.0, 'after_final': 0.02,
            'retime_bound': {'entry': entry, 'factor': factor, 'delta': 1.0}}


def gen_cancel_mid(kind, idx, permanent=False):
    """CmdPeriod.run() in the middle of a program, on a clock that keeps running (SystemClock, AppClock, a permanent
    TempoClock): what was pending never runs, what is scheduled afterwards does"""
    return {'name': '%s-cmdperiod-then-sched' % kind, 'clock': kind, 'index': idx, 'tempo': [1, 1], 'permanent': permanent,
            'tasks': {'1': {'results': [['delta', 1, 64], ['none']]}, '2': {'results': [['none']]}, '3': {'results': [['none']]}},
            'threads': [[['sched', 1, 1, 4], ['sched', 2, 1, 4], ['sleep', 30], ['cmdperiod'], ['sched', 3, 1, 16]]],
            'final': 'clear', 'wait_counts': {'3': 1}, 'before_final': 5.0, 'after_final': 0.3,
            'cancel_mid': [1, 2], 'lower_bound': True}


def gen_cancel_via(kind, via, idx):
    """clear() issued from a task of another clock: nothing that was pending may run after it returned"""
    return {'name': '%s-clear-from-%s' % (kind, via), 'clock': kind, 'index': idx, 'tempo': [2, 1],
            'tasks': {'1': {'results': [['none']]}, '2': {'results': [['raise']]}},
            'threads': [[['sched', 1, 1, 4], ['sched', 2, 1, 4], ['sleep', 30], ['via', via, ['clear']], ['sleep', 450]]],
            'final': 'clear', 'before_final': 0.0, 'after_final': 0.02, 'cancel_via': True}


def gen_stress(rng, kind, idx, heavy=False):
    nthreads = rng.randint(1, 6)
    ntasks = rng.randint(3, 9)
    tasks = {}
    for tid in range(1, ntasks + 1):
        nres = rng.choice([0, 0, 1, 1, 2, 3])
        results = [rng.choice([['delta', rng.choice([0, 1, 1, 2, 3]), 64], ['delta', rng.choice([0, 1, 2]), 64],
                               ['num', 'i0'], ['num', 'f0'], ['num', 'nf0'], ['delta', -1, 64],
                               ['num', 'fsub'], ['num', 'isub']]) for _ in range(nres)]
        results.append(rng.choice([['none'], ['none'], ['raise'], ['raise'], ['stop'], ['str'], ['bool'],
                                   ['num', 'false'], ['num', 'true'], ['num', 'empty'], ['num', 'list'],
                                   ['exc', rng.choice(EXC_TYPES)], ['exc', rng.choice(EXC_TYPES)]]))
        nested = []
        if rng.random() < 0.3:
            ops = []
            if rng.random() < 0.8:
                ops.append(['sched', rng.randint(1, ntasks), rng.randint(0, 4), 64])
            if rng.random() < 0.3:
                ops.insert(0, ['busy', rng.randint(2, 15)])
            if rng.random() < 0.1:
                ops.append(['clear'])
            if kind == 'tempo' and rng.random() < 0.4:
                ops.append([rng.choice(['tempo', 'etempo'])] + rng.choice(TEMPI))
            if kind == 'tempo' and rng.random() < 0.2:
                ops.append(['bpb', rng.choice([3, 4, 5])])
            if kind != 'sys' and rng.random() < 0.2:
                ops.append(['xsched', rng.randint(1, ntasks), 1, 64])
            nested.append(ops)
        tasks[str(tid)] = {'results': results, 'nested': nested}
        if rng.random() < 0.15:
            tasks[str(tid)] = {'routine': rng.randint(0, 2), 'yield': [rng.randint(0, 2), 64], 'slow': rng.choice([0, 20, 60])}
        elif rng.random() < 0.1:
            tasks[str(tid)] = {'plain': True, 'results': results}
        elif rng.random() < 0.12:
            tasks[str(tid)] = {'rscript': rng.choice([[['self_next']], [['yield', 1, 64], ['self_next']], [['yield', 0, 64], ['raise']],
                                                      [['yield', 1, 64], ['stop']], [['raise']]] +
                                                     ([[['bpb', 3], ['yield', 1, 64], ['bpb', 5]]] * 2 if kind == 'tempo' else []))}
    threads = []
    for _ in range(nthreads):
        ops = []
        for _ in range(rng.randint(2, 7 if not heavy else 14)):
            x = rng.random()
            tid = rng.randint(1, ntasks)
            if x < 0.05:
                ops.append(['sched_x', tid, rng.choice(['i0', 'f0', 'nf0', 'inf', 'false'] + (['none'] if kind == 'app' else []))])
            elif x < 0.08:
                ops.append(['sched', tid, -rng.randint(1, 3), 64])
            elif x < 0.16:
                ops.append(wrap_via(rng, kind, rng.choice([['sched', tid, rng.randint(0, 6), 64], ['clear']])
                                    if rng.random() < 0.85 else ['sched', tid, 1, 64]))
            elif x < 0.45:
                ops.append(['sched', tid, rng.randint(0, 6), 64])
            elif x < 0.7 and kind != 'app':
                ops.append(['abs', tid, rng.randint(0, 8), 64])
            elif x < 0.75:
                ops.append(['clear'])
            elif x < 0.92 and kind == 'tempo':
                inner = rng.choice([['tempo'] + rng.choice(TEMPI), ['etempo'] + rng.choice(TEMPI), ['tempo'] + rng.choice(TEMPI),
                                    ['etempo'] + rng.choice(TEMPI), ['beats_add', rng.choice([-8, -3, 2, 5, 16]), 64]])
                ops.append(wrap_via(rng, kind, inner))
            elif x < 0.85 and kind == 'sys':
                ops.append(['osc'])
            else:
                ops.append(['sleep', rng.randint(1, 25)])
        threads.append(ops)
    sc = {'name': '%s-stress-%d' % (kind, idx), 'clock': kind, 'tasks': tasks, 'threads': threads,
          'horizon': 1.5, 'final': 'drain', 'index': idx}
    if kind == 'tempo':
        sc['tempo'] = rng.choice(TEMPI)
    return sc


def gen_unique(rng, kind, idx):
    """every task scheduled exactly once, no clear: expected number of awakes is known"""
    ntasks = rng.randint(4, 10)
    tasks, threads = {}, [[] for _ in range(rng.randint(1, 4))]
    for tid in range(1, ntasks + 1):
        nres = rng.choice([0, 0, 1, 2])
        tasks[str(tid)] = {'results': [['delta', rng.randint(1, 3), 64] for _ in range(nres)] +
                           [rng.choice([['none'], ['raise'], ['str']])]}
        th = rng.choice(threads)
        if kind == 'app' or rng.random() < 0.5:
            th.append(['sched', tid, rng.randint(1, 6), 64])
        else:
            th.append(['abs', tid, rng.randint(2, 8), 64])
        if rng.random() < 0.5:
            th.append(['sleep', rng.randint(1, 20)])
    sc = {'name': '%s-unique-%d' % (kind, idx), 'clock': kind, 'tasks': tasks, 'threads': threads,
          'horizon': 3.0, 'final': 'drain', 'index': idx, 'unique': True}
    if kind == 'tempo':
        sc['tempo'] = rng.choice([[1, 1], [2, 1]])
    return sc


def gen_ahead(kind, idx):
    """no_oversleep end to end: the head sleeps until +2 s, a task is scheduled 62.5 ms ahead while the
    thread sleeps; it must run well before +1 s (generous bound: load cannot delay a wake-up that long)"""
    return {'name': '%s-ahead' % kind, 'clock': kind, 'index': idx, 'tempo': [1, 1],
            'tasks': {'1': {'results': [['none']]}, '2': {'results': [['none']]}},
            'threads': [[['sched', 1, 2, 1], ['sleep', 120], ['sched', 2, 1, 16]]],
            'final': 'clear', 'wait_for': [2], 'before_final': 1.0, 'after_final': 0.05, 'ahead': True}


def gen_tempo_ahead(idx):
    """tempo change while sleeping: a task 2 beats ahead at tempo 1 (sleep until +2 s); after 100 ms the tempo becomes 8:
    due ~0.34 s after scheduling; it must run well before +1.4 s"""
    return {'name': 'tempo-change-while-sleeping', 'clock': 'tempo', 'index': idx, 'tempo': [1, 1],
            'tasks': {'1': {'results': [['none']]}},
            'threads': [[['sched', 1, 2, 1], ['sleep', 100], ['tempo', 8, 1]]],
            'final': 'clear', 'wait_for': [1], 'before_final': 1.2, 'after_final': 0.05, 'tempo_ahead': True}


def gen_cancel(kind, idx, how, permanent=False):
    """every clearing / stopping entry point -- clear(), stop(), TempoClock.stop_all(), CmdPeriod.run() (documented to
    clear ALL clocks' queues and to stop the non permanent TempoClocks) -- with pending tasks, on permanent and non
    permanent TempoClocks: none of the pending tasks may run afterwards, the queue is empty when the call returns"""
    return {'name': '%s-%s%s' % (kind, how, '-permanent' if permanent else ''), 'clock': kind, 'index': idx, 'tempo': [2, 1],
            'permanent': permanent,
            'tasks': {'1': {'results': [['none']]}, '2': {'results': [['raise']]}, '3': {'results': [['none']]}},
            'threads': [[['sched', 1, 1, 8], ['sched', 2, 1, 8]], [['sched', 3, 3, 16]]],
            'final': how, 'before_final': 0.03, 'after_final': 0.3, 'cancel': True}


WINDOW_SC = {'name': 'app-window', 'clock': 'app', 'tasks': {'1': {'results': [['none']]}, '2': {'results': [['none']]}},
             'threads': [], 'window': True, 'window_task': 1, 'window_other': 2, 'window_delta': [1, 16],
             'window_bound': 1.0, 'horizon': 0.5, 'final': 'drain'}


def program(ctx, rng):
    """list of scenario lists (one per RT process)"""
    n = ctx.n(3, 14)
    p1, idx = [], 0
    for kind in ('sys', 'tempo', 'app'):
        for i in range(n):
            idx += 1
            p1.append(gen_stress(rng, kind, idx, heavy=(i % 3 == 2)))
        idx += 1
        p1.append(gen_unique(rng, kind, idx))
    rng.shuffle(p1)
    for kind in ('sys', 'tempo', 'app'):
        idx += 1
        p1.append(gen_ahead(kind, idx))
        idx += 1
        p1.append(gen_cancel(kind, idx, 'clear'))
    idx += 1
    p1.append(gen_cancel('tempo', idx, 'stop'))
    for how, perm in (('cmdperiod', True), ('cmdperiod', False), ('stop_all', False), ('stop_all', True), ('clear', True)):
        idx += 1
        p1.append(gen_cancel('tempo', idx, how, permanent=perm))
    for kind in ('sys', 'app'):
        idx += 1
        p1.append(gen_cancel(kind, idx, 'cmdperiod'))
        idx += 1
        p1.append(gen_cancel_mid(kind, idx))
    idx += 1
    p1.append(gen_cancel_mid('tempo', idx, permanent=True))
    idx += 1
    p1.append(gen_tempo_ahead(idx))
    cross, idx = gen_cross_all(idx)
    p1.extend(cross)
    for kind, via in (('sys', 'app'), ('tempo', 'sys'), ('app', 'sys')):
        idx += 1
        p1.append(gen_cancel_via(kind, via, idx))
    for kind in ('sys', 'tempo', 'app'):
        for how in (('raise', 'routine') if ctx.quick else ('raise', 'routine', 'stop')):
            idx += 1
            p1.append(gen_after_raise(kind, how, idx))
    for kind in ('sys', 'tempo', 'app'):
        idx += 1
        p1.append(gen_edge(kind, idx))
        idx += 1
        p1.append(gen_two_clocks(kind, idx)) if kind != 'sys' else None
        if kind != 'app':
            idx += 1
            p1.append(gen_late_parent(kind, idx))
            idx += 1
            p1.append(gen_ties(kind, idx))
    for kind in ('sys', 'tempo', 'app'):
        for _ in range(ctx.n(3, 10)):
            idx += 1
            p1.append(gen_tie_resched(rng, kind, idx))
    for kind in ('sys', 'tempo'):
        for _ in range(ctx.n(2, 8)):
            idx += 1
            p1.append(gen_drain_batch(rng, kind, idx))
    for kind, where in (('tempo', 'sys'), ('tempo', 'aux'), ('tempo', 'same'), ('sys', 'aux'), ('sys', 'same')):
        idx += 1
        p1.append(gen_sched_during_routine(kind, where, idx))
    combos = [('etempo', 'thread', 4), ('etempo', 'sys', 2), ('tempo', 'thread', 4), ('tempo', 'osc', 2),
              ('beats', 'thread', 1), ('etempo', 'osc', 4), ('beats', 'sys', 1), ('tempo', 'app', 4), ('etempo', 'aux', 2)]
    for entry, via, factor in (combos[:5] if ctx.quick else combos):
        idx += 1
        p1.append(gen_retime_bound(entry, via, factor, idx))
    for entry, factor in ((('tempo', 4), ('beats', 1)) if ctx.quick else (('tempo', 4), ('beats', 1), ('etempo', 4), ('tempo', 2))):
        idx += 1
        p1.append(gen_retime_while_other_busy(entry, factor, idx))
    for kind in ('sys', 'tempo', 'app'):
        idx += 1
        p1.append(gen_exceptions(kind, idx))
        for _ in range(ctx.n(1, 4)):
            idx += 1
            p1.append(gen_same_callable(rng, kind, idx))
    hows = ['self_next', 'nested_raise', 'nested_raise_after_yield', 'raise_after_yield', 'self_next_after_yield']
    for j, kind in enumerate(('sys', 'tempo', 'app')):
        for how in (hows if not ctx.quick else [hows[j], hows[(j + 3) % 5]]):
            idx += 1
            p1.append(gen_after_routine_failure(kind, how, idx))
    idx += 1
    p1.append(gen_self_stop(idx))
    idx += 1
    p1.append(gen_inf_result('tempo', idx))
    p1.append(dict(WINDOW_SC))
    # singletons are stopped last (their threads cannot be restarted)
    idx += 1
    p1.append(gen_inf_result('sys', idx))
    idx += 1
    p1.append(gen_cancel('sys', idx, 'stop'))
    idx += 1
    p1.append(gen_inf_result('app', idx))
    idx += 1
    p1.append(gen_cancel('app', idx, 'stop'))
    procs = [p1]
    if not ctx.quick:
        for j in range(3):
            pj = []
            for i in range(18):
                idx += 1
                pj.append(gen_stress(rng, ('sys', 'tempo', 'app')[i % 3], idx, heavy=True))
            procs.append(pj)
    return procs


def run_procs(ctx, procs, proxies=True):
    import threading
    outs = [None] * len(procs)
    # concurrent checks (same seed) must not share ports
    base = 59000 + ((ctx.rng.randrange(0, 90) + os.getpid() * 7) % 90) * 10

    def one(i):
        try:
            outs[i] = ctx_impl(ctx, i, {'port': base + 10 * i, 'proxies': proxies, 'scenarios': procs[i]})
        except fw.ImplError as e:
            outs[i] = {'error': str(e)}
    ths = [threading.Thread(target=one, args=(i,)) for i in range(len(procs))]
    for t in ths:
        t.start()
    for t in ths:
        t.join()
    return outs


def ctx_impl(ctx, i, payload):
    # ctx.impl names its files by pid only: give each concurrent runner its own files
    inp = os.path.join(ctx.work, 'c08_in_%d_%d.json' % (os.getpid(), i))
    outp = os.path.join(ctx.work, 'c08_out_%d_%d.json' % (os.getpid(), i))
    with open(inp, 'w') as f:
        json.dump(payload, f)
    env = dict(os.environ)
    env.update({'PYTHONPATH': fw.REPO + os.pathsep + os.path.join(fw.VERIF, 'harness'), 'PYTHONHASHSEED': '0',
                'SC3_MODE': 'rt', 'PYTHONWARNINGS': 'ignore'})
    if os.path.exists(outp):
        os.remove(outp)
    rc, out = fw.sh([fw.PY, '-W', 'ignore', os.path.join(fw.VERIF, 'harness', 'impl', 'c08_trace.py'), inp, outp],
                    timeout=600, cwd=ctx.work, env=env)
    if rc != 0 or not os.path.exists(outp):
        raise fw.ImplError('impl runner c08_trace failed rc=%s\n%s' % (rc, out[-3000:]))
    with open(outp) as f:
        return json.load(f)


# --------------------------------------------------------------------------- end-to-end monitors (no model)
def e2e(sc, r):
    """violations of the property visible from the task bodies and the client calls alone"""
    v = []
    aw = r['awakes']
    # a task of the same batch that changes the tempo makes the later tasks of the batch early w.r.t. the NEW map
    # (elapsed_beats is read once per batch, as in sclang): outside the statement, see notes/C08.md
    _ops = json.dumps([sc['threads'], [t.get('nested', []) for t in sc['tasks'].values()]])
    retimed = sc['clock'] == 'tempo' and ('"tempo"' in _ops or '"beats_add"' in _ops)
    for a in aw:
        tid, real, logical, cid, own = a
        lg = float(Fraction(*logical))
        if real < lg - 1e-9 and not retimed:
            v.append(('never_early', 'task %d ran at physical %.6f, before its scheduled time %.6f' % (tid, real, lg)))
        if not own:
            v.append(('lock', 'task %d ran without the main lock' % tid))
    counts = {}
    for a in aw:
        counts[a[0]] = counts.get(a[0], 0) + 1
    if sc.get('unique'):
        for tid, spec in sc['tasks'].items():
            nd = 0
            for x in spec['results']:
                if x[0] != 'delta':
                    break
                nd += 1
            want = 1 + nd
            got = counts.get(int(tid), 0)
            if got != want:
                v.append(('exactly_once', 'task %s: awakened %d times, scheduled once with %d numeric results (expected %d)'
                          % (tid, got, nd, want)))
        # order among tasks that were ready together: b queued (its sched call had returned) before a ran,
        # b strictly earlier than a, yet a ran first
        first = {}
        for i, a in enumerate(aw):
            first.setdefault(a[0], (i, a))
        done = {s[1]: s[5] for s in r['scheds'] if s[1] is not None}
        for ta, (ia, a) in first.items():
            for tb, (ib, b) in first.items():
                if ia < ib and Fraction(*b[2]) < Fraction(*a[2]) and done.get(tb, 1e9) < a[1] - 0.002:
                    v.append(('order', 'task %d (time %s) ran before task %d (time %s) although %d was queued before and earlier'
                              % (ta, a[2], tb, b[2], tb)))
    if sc.get('ahead'):
        t0 = [s[4] for s in r['scheds'] if s[1] == 2]
        ran = [a[1] for a in aw if a[0] == 2]
        if t0 and (not ran or ran[0] - t0[0] > 1.0):
            v.append(('no_oversleep', 'task scheduled 62.5 ms ahead of a head sleeping until +2 s %s'
                      % ('ran %.3f s later' % (ran[0] - t0[0]) if ran else 'did not run within 1 s')))
    if sc.get('lower_bound') or sc.get('unique'):
        tempo = float(Fraction(*sc.get('tempo', [1, 1]))) if sc['clock'] == 'tempo' else 1.0
        for x in r['scheds']:
            if x[2] in ('delta', 'xdelta') and (str(x[0]).startswith('client') or x[0] == 'main'):
                d = float(Fraction(*x[3])) / (tempo if x[2] == 'delta' else 1.0)
                ran = [a[1] for a in aw if a[0] == x[1]]
                if ran and ran[0] - x[4] < d - 0.002:
                    v.append(('never_early', '%s: %s called sched(%.4f s, task %d) at physical time %.4f; the task was awakened '
                              '%.4f s later, i.e. %.4f s BEFORE its time' % (sc['name'], x[0], d, x[1], x[4], ran[0] - x[4],
                                                                               d - (ran[0] - x[4]))))
    ec = sc.get('expect_counts')
    if ec:
        for tid, want in ec.items():
            got = counts.get(int(tid), 0)
            if got != want:
                v.append(('exactly_once', '%s: task %s was awakened %d times, expected %d (results %s)'
                          % (sc['name'], tid, got, want, sc['tasks'][tid].get('results'))))
    for tid, want in (sc.get('expect_outcome') or {}).items():
        got = [x[3] for x in r['scheds'] if x[1] == int(tid) and str(x[2]).startswith('x:')]
        if got and got[0] != want:
            v.append(('edge_values', '%s: sched(%s) of task %s: %s, expected %s' % (sc['name'], 'None' if tid == '10' else 'inf', tid, got[0], want)))
    for tid, want in (sc.get('expect_threads') or {}).items():
        got = len(set(a[3] for a in aw if a[0] == int(tid)))
        if got != want:
            v.append(('exactly_once', '%s: task %s scheduled on two clocks was awakened by %d clock thread(s)' % (sc['name'], tid, got)))
    if sc.get('logical_exact'):
        tempo = Fraction(*sc.get('tempo', [1, 1])) if sc['clock'] == 'tempo' else Fraction(1)
        l1 = [Fraction(*a[2]) for a in aw if a[0] == 1]
        l2 = [Fraction(*a[2]) for a in aw if a[0] == 2]
        if l1 and l2 and l2[0] != l1[0] + Fraction(1, 16) / tempo:
            v.append(('resched_relative_to_scheduled', '%s: task 1 (scheduled for %s, running 40 ms late) called sched(1/16, task 2): '
                      'task 2 has logical time %s, expected %s' % (sc['name'], l1[0], l2[0], l1[0] + Fraction(1, 16) / tempo)))
        if len(l1) > 1 and l1[1] != l1[0] + Fraction(1, 32) / tempo:
            v.append(('resched_relative_to_scheduled', '%s: task 1 returned 1/32 at logical %s (40 ms late): next logical time %s, '
                      'expected %s' % (sc['name'], l1[0], l1[1], l1[0] + Fraction(1, 32) / tempo)))
    if sc.get('tie_order'):
        last = {}
        for i, x in enumerate(r['scheds']):
            if x[1] is not None and x[2] in ('delta', 'abs', 'play'):
                last[x[1]] = i
        first = {}
        for i, a in enumerate(aw):
            first.setdefault(a[0], (i, Fraction(*a[2])))
        groups = {}
        for tid, (i, lt) in first.items():
            if tid in last:
                groups.setdefault(lt, []).append((i, tid))
        for lt, g in groups.items():
            woke = [tid for _, tid in sorted(g)]
            want = sorted(woke, key=lambda t: last[t])
            if woke != want:
                v.append(('ready_popped_in_time_then_fifo_order',
                          '%s: tasks %s all have the time %s; the order of their (last) scheduling was %s but they were awakened in '
                          'the order %s (schedulings, in order: %s)' % (sc['name'], sorted(woke), lt, want, woke,
                                                                       [[x[1], x[2], x[3]] for x in r['scheds'] if x[1] is not None])))
    if sc.get('fifo'):
        order = [a[0] for a in aw]
        if len(order) == len(sc['fifo']) and order != sc['fifo']:
            v.append(('ready_popped_in_time_then_fifo_order', '%s: tasks scheduled for the same time in the order %s were awakened in '
                      'the order %s' % (sc['name'], sc['fifo'], order)))
    if r.get('raised') is not None and r.get('logged') is not None and r['raised'] != r['logged']:
        from collections import Counter
        miss = Counter(r['raised']) - Counter(r['logged'])
        extra = Counter(r['logged']) - Counter(r['raised'])
        v.append(('exception_logged', '%s: exceptions raised by task wake-ups and error records of the clocks differ: '
                  'raised but NOT logged: %s; logged but not raised: %s' % (sc['name'], dict(miss), dict(extra))))
    for what in r.get('leak') or []:
        v.append(('exception_isolated', '%s: global state leaked after the scenario: %s' % (sc['name'], what)))
    if r.get('responsive') is False:
        v.append(('exception_isolated', '%s: the clock does not respond any more: a probe task scheduled with delay 0 after the '
                  'scenario did not run within 10 s (thread alive: %s)' % (sc['name'], r.get('alive'))))
    if r.get('queue_consistent') not in (True, None):
        v.append(('queue_consistency', '%s: TaskQueue bookkeeping is inconsistent with its contents (empty() / _removed_counter / '
                  '_entry_finder vs live entries): %s' % (sc['name'], r.get('queue_consistent'))))
    rb = sc.get('retime_bound')
    if rb:
        sch = [x for x in r['scheds'] if x[1] == 1 and x[2] == 'delta']
        ch = [x for x in r['scheds'] if x[2] in ('tempo', 'etempo', 'beats_add')]
        ran = [a[1] for a in aw if a[0] == 1]
        if sch and ch and ran:
            # beats still to go when the change took effect (tempo 1 until then): at least delta - (change end - sched start)
            togo = rb['delta'] - (ch[0][5] - sch[0][4]) - (0.25 if rb['entry'] == 'beats' else 0.0)
            newtempo = float(rb['factor']) if rb['entry'] != 'beats' else 1.0
            earliest = ch[0][4] + max(togo, 0.0) / newtempo
            if ran[0] < earliest - 0.003:
                v.append(('never_early', '%s: task 1 was 1 beat ahead at tempo 1; %.3f s later %s (new tempo %s) issued by %s; at '
                          'least %.3f beats were still to go, i.e. %.3f s from the change: the task ran %.3f s BEFORE that'
                          % (sc['name'], ch[0][4] - sch[0][4], rb['entry'], newtempo, ch[0][0], togo, max(togo, 0.0) / newtempo,
                             earliest - ran[0])))
    xa = sc.get('expect_after')
    if xa:
        kinds = {'tempo': ('tempo',), 'etempo': ('etempo',), 'beats': ('beats_add',), 'sched': ('delta',)}[xa['op']]
        done = [s[5] for s in r['scheds'] if s[2] in kinds and (xa['op'] != 'sched' or s[1] == xa['task'])]
        ran = [a[1] for a in aw if a[0] == xa['task']]
        if done and (not ran or ran[0] - done[0] > xa['bound']):
            v.append(('no_oversleep', '%s: the clock slept until +3 s; %s issued by %s 100 ms later makes task %d due ~0.1 s '
                      'later: %s' % (sc['name'], xa['op'], [s[0] for s in r['scheds'] if s[2] in kinds][-1], xa['task'],
                                     ('it ran %.3f s after the change' % (ran[0] - done[0])) if ran
                                     else 'it did not run within %.1f s' % xa['bound'])))
    if sc.get('cancel_via'):
        done = [s[5] for s in r['scheds'] if s[2] == 'clear' and str(s[0]).startswith('via')]
        late = sorted(a[0] for a in aw if done and a[1] > done[0] and a[0] != 0)
        if late:
            v.append(('clear_stop_cancel_all', '%s: tasks %s ran after clear() (called from a task of another clock) had returned'
                      % (sc['name'], late)))
    if sc.get('tempo_ahead'):
        t0 = [s[4] for s in r['scheds'] if s[1] == 1]
        ran = [a[1] for a in aw if a[0] == 1]
        if t0 and (not ran or ran[0] - t0[0] > 1.4):
            v.append(('no_oversleep', 'task 2 beats ahead at tempo 1; tempo set to 8 after 100 ms (due ~0.34 s): %s'
                      % ('ran %.3f s after scheduling' % (ran[0] - t0[0]) if ran else 'did not run within 1.3 s')))
    if sc.get('cancel'):
        if r.get('stops') and r.get('alive'):
            v.append(('clear_stop_cancel_all', '%s: clock thread still alive after %s' % (sc['name'], sc['final'])))
        if r.get('empty_after_final') is False and not (sc['clock'] == 'app' and sc['final'] == 'stop'):
            # (AppClock._stop ends the thread and leaves the queue as it is: nothing in it can run any more)
            v.append(('clear_stop_cancel_all', '%s: the queue still holds tasks when %s had returned' % (sc['name'], sc['final'])))
        fd = r.get('final_done_at')
        late = sorted(a[0] for a in aw if fd is not None and a[1] > fd and a[0] != 0)      # 0 = the responsiveness probe
        if late:
            v.append(('clear_stop_cancel_all', 'tasks %s ran after %s() had returned' % (late, sc['final'])))
    if sc.get('cancel_mid'):
        done = [s[5] for s in r['scheds'] if s[2] == 'clear']
        late = sorted(set(a[0] for a in aw if done and a[1] > done[0] and a[0] in sc['cancel_mid']))
        if late:
            v.append(('clear_stop_cancel_all', '%s: tasks %s, pending when CmdPeriod.run() was called, ran after it had returned'
                      % (sc['name'], late)))
    if r.get('alive') is False and not r.get('stops', sc.get('final') == 'stop') and not sc.get('expect_dead'):
        v.append(('exception_isolated', 'the clock thread died'))
    return v


# --------------------------------------------------------------------------- correspond
def correspond(ctx):
    c = Corr()
    rng = random.Random(ctx.rng.random())
    procs = program(ctx, rng)
    outs = run_procs(ctx, procs, proxies=True)
    clk_items, clk_meta, app_items, app_meta = [], [], [], []
    variant = 'orig'
    for pl, o in zip(procs, outs):
        if 'error' in o:
            c.failures.append(Failure('correspondence', 'RT runner failed: ' + o['error'][-1500:], replay={'error': o['error'][-3000:]}))
            continue
        variant = o.get('app_variant', 'orig')
        for sc, r in zip(pl, o['results']):
            c.evaluations += 1
            if 'crash' in r:
                c.failures.append(Failure('correspondence', 'scenario %s crashed the harness: %s' % (sc['name'], r['crash'][-800:]),
                                          replay={'scenario': sc}))
                continue
            n_fail_before = len(c.failures)
            c.count('clock:' + sc['clock'])
            c.count('events', len(r['log']))
            c.count('client threads:%d' % len(sc['threads']))
            for e in r['log']:
                c.count('ev:' + e[1] + (':' + str(e[2]) if e[1] in ('notify', 'wait_end') else '') +
                        (':' + e[3][0] if e[1] == 'awake_end' else ''))
            if any(e[1] in ('pop',) for e in r['log']):
                c.nontriv((sc['name'], json.dumps(r['log'])))
            xa = sc.get('expect_after')
            if xa:
                kinds = {'tempo': ('tempo',), 'etempo': ('etempo',), 'beats': ('beats_add',), 'sched': ('delta',)}[xa['op']]
                who = [x[0] for x in r['scheds'] if x[2] in kinds and (xa['op'] != 'sched' or x[1] == xa['task'])]
                c.count('cross:%s issued by %s' % (xa['op'], who[0] if who else 'NOBODY (not exercised)'))
            for x in r['scheds']:
                if x[2] in ('tempo', 'beats_add', 'etempo'):
                    c.count('retime by ' + str(x[0]).rstrip('0123456789'))
            if r.get('async_not_run'):
                c.count('asynchronous operations cancelled (not run within 5 s: load / lost datagram)', r['async_not_run'])
            if r['errors'] or r['problems']:
                c.failures.append(Failure('correspondence', 'scenario %s: %s %s' % (sc['name'], r['errors'][:3], r['problems'][:3]),
                                          replay={'scenario': sc, 'errors': r['errors'], 'problems': r['problems']}))
            # end-to-end monitors
            for key, text in e2e(sc, r):
                c.failures.append(Failure('search', 'end-to-end monitor %s on the real %s clock: %s' % (key, sc['clock'], text),
                                          theorem=key, found_input=True, signature=SIG_INF if sc.get('inf_result') else None,
                                          replay={'scenario': sc, 'awakes': r['awakes'], 'scheds': r['scheds'], 'log': r['log']}))
            # F13, deterministic
            w = r.get('window')
            if w:
                c.count('app-window:ran_within_bound=%s' % w.get('ran_within_bound'))
                if 'error' in w:
                    c.failures.append(Failure('correspondence', 'window scenario: ' + w['error'], replay={'scenario': sc}))
                elif not w['ran_within_bound']:
                    c.failures.append(Failure(
                        'search',
                        'AppClock lost notify: the clock thread had ticked on an empty queue and left `with cls._sched_lock`; '
                        'a complete AppClock.sched(%.4f, f) then ran (add under _sched_lock, notify under _tick_cond: no waiter '
                        'yet); the thread then entered `with cls._tick_cond` and waited without timeout: f did not run within '
                        '%.1f s; it ran %s after an unrelated AppClock.sched(0, g)' % (
                            w['delta'], w['bound'],
                            ('%.3f s after its scheduling,' % w['ran_after']) if w.get('ran_after_unrelated_sched') else 'NOT even'),
                        signature=SIG_F13, theorem='appclock_no_oversleep_refuted / no_oversleep', found_input=True,
                        replay={'schedule': ['clock thread: with _sched_lock: _tick() -> None (queue empty); leaves the block',
                                             'client: AppClock.sched(1/16, f)   # with _sched_lock: add; with _tick_cond: notify()',
                                             'clock thread: with _tick_cond: wait(None)',
                                             'f due after 62.5 ms; observed: not run within 1 s',
                                             'client: AppClock.sched(0, g)  -> f and g run'],
                                'observed': w, 'log': r['log'], 'coq_witness': 'SC3.proofs.C08_app.f13_witness',
                                'how': 'harness/impl/c08_trace.py scenario app-window: a proxy on AppClock._sched_lock pauses the '
                                       'clock thread after releasing the lock until the client\'s sched() has returned'}))
            if sc.get('drain'):
                adds = [i for i, e in enumerate(r['log']) if e[1] == 'add']
                we = [i for i, e in enumerate(r['log']) if e[1] == 'wait_end' and adds and i > adds[0]]
                if we and we[0] + 1 < len(r['log']) and r['log'][we[0] + 1][1] == 'time':
                    r['_drain_at'] = we[0]
                    c.count('drain run compared with the model')
            try:
                kind, term = trace_term(r)
            except ValueError as e:
                c.failures.append(Failure('correspondence', 'scenario %s: %s' % (sc['name'], e), replay={'scenario': sc, 'log': r['log']}))
                if sc.get('inf_result'):
                    for f in c.failures[n_fail_before:]:
                        f.signature, f.found_input = SIG_INF, True
                        f.what = ('a task that returns float("inf") is re-scheduled at time inf and the clock thread dies in '
                                  'Condition.wait(inf) (OverflowError): ' + f.what)
                continue
            if sc.get('inf_result'):
                for f in c.failures[n_fail_before:]:
                    f.signature, f.found_input = SIG_INF, True
            if kind == 'clk':
                clk_items.append(term); clk_meta.append((sc, r))
            else:
                app_items.append(term); app_meta.append((sc, r))
    # replay in Coq
    for name, items, meta, body, checks in (
            ('clk', clk_items, clk_meta, BODY_CLK, CLK_CHECKS),
            ('app', app_items, app_meta, body_app(variant, variant == 'flag'), APP_CHECKS)):
        if not items:
            continue
        bad, errors = fw.check_shards(ctx, 'c08_%s_%d' % (name, os.getpid()), HEADER, items, body, shard=6, timeout=900)
        for e in errors:
            c.failures.append(Failure('correspondence', 'coq evaluation failed: ' + e[-1500:]))
        for i in bad:
            sc, r = meta[i]
            flags, rej, out = diagnose(ctx, name, items[i], variant)
            failed = [checks[j] for j, b in enumerate(flags or []) if not b]
            law = [x for x in failed if not x.endswith('accepts_quiescent')]
            ev = None
            if rej is not None:
                k = r['_src'][rej] if rej < len(r.get('_src', [])) else None
                ev = {'index_in_log': k, 'event': r['log'][k] if k is not None else None,
                      'context': r['log'][max(0, k - 6):k + 3] if k is not None else None}
            what = ('the logged trace of the real %s clock is not a path of the model (first event the model cannot do: %s)'
                    % (sc['clock'], json.dumps(ev))) if rej is not None else \
                   ('the logged trace of the real %s clock is a path of the model but %s' % (
                       sc['clock'], 'ends in a non-quiescent state (the clock thread stopped inside its critical section)'
                       if not law else 'violates ' + ', '.join(law)))
            c.failures.append(Failure('correspondence', 'scenario %s: %s; failed checks: %s' % (sc['name'], what, failed),
                                      theorem=','.join(failed), found_input=bool(law),
                                      replay={'scenario': sc, 'log': r['log'], 'failed_checks': failed, 'first_rejected': ev,
                                              'app_variant': variant, 'coq': out}))
    c.notes.append('AppClock model variant validated against the code: %s' % variant)
    if variant == 'orig':
        c.notes.append('AppClock no_oversleep monitor is not required on stress traces of the unrepaired code (F13); '
                       'the deterministic window scenario decides')
    c.rule = ('one scenario = a stress program (1-6 client threads: sched / sched_abs / clear / tempo changes / OSC datagrams; tasks that '
              're-schedule, raise, schedule other tasks, clear, change tempo) run on the real SystemClock / a fresh TempoClock / AppClock '
              'with logging proxies; its linearised log must be accepted by the Coq transition system (accepts_quiescent, exact '
              'rational timeouts) and satisfy the monitors of the theorems; plus end-to-end monitors, the ahead-of-a-sleeping-head '
              'scenario, clear/stop with pending tasks, and the AppClock window scenario. non-trivial = at least one task was popped')
    ks = [m for m in clk_meta if any(e[1] == 'pop' for e in m[1]['log'])][:2]
    c.samples = [{'scenario': m[0]['name'], 'threads': m[0]['threads'], 'log_head': m[1]['log'][:14]} for m in ks]
    return c


# --------------------------------------------------------------------------- search
def search(ctx, failures):
    """end-to-end monitors on the implementation WITHOUT proxies (only the task bodies and the clients observe)"""
    rng = random.Random(ctx.rng.random())
    scs, idx = [], 0
    for kind in ('sys', 'tempo', 'app'):
        for _ in range(ctx.n(3, 12)):
            idx += 1
            scs.append(gen_unique(rng, kind, idx))
        idx += 1
        scs.append(gen_ahead(kind, idx))
        idx += 1
        scs.append(gen_cancel(kind, idx, 'clear'))
    idx += 1
    scs.append(gen_tempo_ahead(idx))
    for how, perm in (('cmdperiod', True), ('cmdperiod', False), ('stop_all', True)):
        idx += 1
        scs.append(gen_cancel('tempo', idx, how, permanent=perm))
    cross, idx = gen_cross_all(idx, nolock=True)
    scs.extend(cross)
    for kind, where in (('tempo', 'sys'), ('tempo', 'aux'), ('tempo', 'same'), ('sys', 'aux'), ('sys', 'same')):
        idx += 1
        scs.append(gen_sched_during_routine(kind, where, idx))
    for kind in ('sys', 'tempo', 'app'):
        for how in ('raise', 'routine', 'stop'):
            idx += 1
            scs.append(gen_after_raise(kind, how, idx))
        for _ in range(ctx.n(3, 10)):
            idx += 1
            scs.append(gen_tie_resched(rng, kind, idx))
        for how in ('self_next', 'nested_raise_after_yield', 'self_next_after_yield'):
            idx += 1
            scs.append(gen_after_routine_failure(kind, how, idx))
        idx += 1
        scs.append(gen_same_callable(rng, kind, idx))
    for entry, via, factor in (('etempo', 'thread', 4), ('tempo', 'thread', 4), ('beats', 'thread', 1), ('etempo', 'sys', 2)):
        idx += 1
        scs.append(gen_retime_bound(entry, via, factor, idx))
    for entry, factor in (('tempo', 4), ('beats', 1)):
        idx += 1
        scs.append(gen_retime_while_other_busy(entry, factor, idx))
    found, seen = [], set()
    for f in failures:
        sc = f.replay.get('scenario') if isinstance(f.replay, dict) else None
        if sc and not sc.get('window') and sc.get('final') != 'stop' and not sc.get('inf_result') and not sc.get('expect_dead'):
            scs.insert(0, dict(sc, unique=sc.get('unique', False)))
    outs = run_procs(ctx, [scs], proxies=False)
    o = outs[0]
    if 'error' in o:
        fw.log('search: ' + o['error'][-500:])
        return []
    for sc, r in zip(scs, o['results']):
        if 'crash' in r:
            continue
        for key, text in e2e(sc, r):
            if key in seen:
                continue
            seen.add(key)
            found.append(Failure('search', 'end-to-end monitor %s fails on the real %s clock (no proxies): %s' % (key, sc['clock'], text),
                                 theorem=key, found_input=True,
                                 replay={'scenario': sc, 'awakes': r['awakes'], 'scheds': r['scheds'],
                                         'how': 'harness/impl/c08_trace.py with {"proxies": false, "scenarios": [scenario]}'}))
    return found


def replay(ctx, rp):
    sc = rp.get('replay', {}).get('scenario')
    if not sc:
        print(json.dumps(rp, indent=1))
        return 0
    o = run_procs(ctx, [[sc]], proxies=True)[0]
    print(json.dumps(o, indent=1)[:20000])
    r = o['results'][0]
    bad = e2e(sc, r) or (r.get('window') and not r['window'].get('ran_within_bound'))
    return 1 if bad else 0
