"""C01 -- SynthDef compilation preserves the meaning of the graph function."""
import json, os
import fw
from fw import Corr, Failure
from props import c01_common as cc

TITLE = 'SynthDef compilation preserves the meaning of the graph function'
TRANSLATED = ['Gen_opcodes']
MODEL_TARGETS = ['model/Graph.vo', 'model/GraphSem.vo', 'gen/Gen_opcodes.vo']
ALLOWED_AXIOMS = []
TRUSTED = [
    'hand-written executable model coq/model/Graph.v of ugen.py / synthdef.py (constructors, optimiser with the maintained descendant sets, '
    'topological sort, constants) tied to the code by differential correspondence on generated graph functions (final structure compared exactly)',
    'translator target harness/translator/t_opcodes.py: operator tables of _specialindex.py and the removal mode of _perform_dead_code_elimination',
    'reference opcode numbers transcribed by hand from SuperCollider Opcodes.h (coq/proofs/C01_misc.v server_unary / server_binary)',
    'UGen catalogue abstraction (20 classes: name, rates, stored inputs, outputs, pure?, multi-output?, width-first?, input check) -- the class facts are re-checked against the real classes on every run',
    'denotational semantics coq/model/GraphSem.v (what "meaning" is): ring operators as field operations over Qc, everything else uninterpreted',
]
ASSUMES = [
    'desc_inv (maintained descendant sets = user sets for single-output non-width-first units) and the composition compile_preserves_meaning are NOT proved: '
    'they are checked by execution on every correspondence program (Graph.desc_inv_ok after each optimiser step, GraphSem.sem_test under two interpretations)',
    'constants are dyadic rationals of small magnitude (float arithmetic on them is exact); NaN/inf constants are outside the model',
    'graph functions are abstracted to the straight-line sequence of constructor calls they make',
]


def _load_corpus():
    p = os.path.join(fw.VERIF, 'corpus', 'C01_progs.json')
    return json.load(open(p)) if os.path.exists(p) else []


def _features(p, d):
    f = []
    if d['ok']:
        classes = [u[0] for u in d['units']]
        for c in ('Sum3', 'Sum4', 'MulAdd'):
            if c in classes:
                f.append('fused:' + c)
        made = sum(1 for i in p['ins'] if i[0] in ('U', 'un', 'bin', 'madd', 'sum3', 'sum4'))
        if len(classes) < made:
            f.append('dropped-or-shortcut')
    return f


SEM_BITS = 6000


def _value_bits(p):
    """Upper estimate of the size (bits of numerator + denominator) of the values the semantic test computes
    for a program under GraphSem.I0 / I1."""
    vals = []
    worst = 0

    def ab(a):
        if a[0] == 'v':
            row = vals[a[1]] if a[1] < len(vals) else 16
            return row
        return 16

    for i in p['ins']:
        k = i[0]
        if k == 'U':
            b = 2 * sum(ab(a) for a in i[3]) + 8 * len(i[3]) + 32
        elif k == 'un':
            b = ab(i[2]) + 2 if i[1] == 'neg' else 2 * ab(i[2]) + 16
        elif k == 'bin':
            b = ab(i[2]) + ab(i[3]) + 2 if i[1] in ('add', 'sub', 'mul', 'truediv') else max(ab(i[2]) + ab(i[3]), 2 * ab(i[3])) + 24
        elif k == 'madd':
            b = ab(i[1]) + ab(i[2]) + ab(i[3]) + 4
        elif k == 'sum':
            b = sum(ab(a) for a in i[1]) + 4
        elif k in ('sum3', 'sum4'):
            b = sum(ab(a) for a in i[1:]) + 4
        else:
            b = 0
        vals.append(b)
        worst = max(worst, b)
    return worst


def correspond(ctx):
    c = Corr()
    rc, out = cc.ensure_models(MODEL_TARGETS)
    if rc != 0:
        c.failures.append(Failure('correspondence', 'model files do not build: ' + out[-1200:]))
        return c
    n = ctx.n(420, 4000)
    cases = _load_corpus() + list(cc.SEED_PROGS) + cc.operator_form_progs() + cc.sum_helper_progs()
    for k in range(n):
        r = ctx.rng.random()
        size = ctx.rng.randint(3, ctx.n(22, 60)) if r < 0.9 else ctx.rng.randint(40, ctx.n(60, 200))
        cases.append(cc.gen_prog(ctx.rng, size, demand=ctx.rng.random() < 0.5, wf=ctx.rng.random() < 0.6,
                                 invalid=0.25 if k % 7 == 0 else 0.0))
    # boundaries: a few definitions with hundreds of units and constants in every tier
    for k_, size in enumerate(ctx.n((70, 110), (150, 260))):
        cases.insert(0 if k_ == 0 else len(cases), cc.gen_prog(ctx.rng, size, demand=False, wf=True))
    res = ctx.impl('c01_build', {'cases': cases}, timeout=900)
    out = res['out']
    for p_, d_ in zip(cases, out):
        if d_.get('inconsistent'):
            c.failures.append(Failure('correspondence', 'the built definition is inconsistent with itself (what the writer uses vs the unit objects): %s'
                                      % d_['inconsistent'], replay={'prog': p_, 'impl': d_}, found_input=True, signature='C01:inconsistent-indices',
                                      theorem='topo_sort_correct'))
            break
    if res.get('catalogue_bad'):
        c.failures.append(Failure('correspondence', 'UGen catalogue facts no longer hold for the real classes: %s' % res['catalogue_bad'],
                                  replay={'catalogue': res['catalogue_bad']}))
    hdr = cc.HEADER + 'Require Import SC3.model.GraphSem.\n'
    items = ['(%s, %s)' % (cc.cprog(p), cc.cresult(d)) for p, d in zip(cases, out)]
    body = 'Eval vm_compute in bad_idx (fun c => result_matches (compile_flag T dce_strict dce_guard sub_guard (fst c)) (snd c)) cases.'
    # deadline per call: generous in the thorough tier (the machine may be shared with other jobs)
    bad, errs = fw.check_shards(ctx, 'c01', hdr, items, body, shard=ctx.n(60, 40), timeout=ctx.n(900, 3000))
    body2 = 'Eval vm_compute in bad_idx (fun c => sem_test T dce_strict dce_guard sub_guard (fst c)) cases.'
    # the executable semantic test computes exact rationals under two irregular interpretations (squares,
    # products): nested operator chains make the numerators grow doubly exponentially, so it is run on the
    # programs whose estimated value size stays small (the theorem compile_preserves_meaning covers all)
    sem_idx = [i for i, pr in enumerate(cases) if _value_bits(pr) <= SEM_BITS]
    c.count('sem-test-run', len(sem_idx))
    c.count('sem-test-skipped-large-values', len(cases) - len(sem_idx))
    bad2_local, errs2 = fw.check_shards(ctx, 'c01sem', hdr, [items[i] for i in sem_idx], body2, shard=ctx.n(60, 40), timeout=ctx.n(900, 3000))
    bad2 = [sem_idx[j] for j in bad2_local]
    for e in (errs + errs2)[:3]:
        c.failures.append(Failure('correspondence', 'coq evaluation of the graph model failed: ' + e))
    for p, d in zip(cases, out):
        c.count('result:' + ('ok' if d['ok'] else d['err']))
        for i in p['ins']:
            c.count('instr:' + i[0])
        for i in p['ins']:
            if i[0] in ('bin', 'un') and i[-1] == 'func':
                c.count('form:%s-func%s' % (i[0], '-number-first' if i[0] == 'bin' and i[2][0] == 'c' else ''))
        if p.get('irshape') or p.get('krshape'):
            c.count('array-valued-parameters:' + ('builds' if d['ok'] else 'fails'))
        for b_ in p.get('blocks', []):
            c.count('sum-helper:%s:%s' % (b_[2]['form'], 'builds' if d['ok'] else 'fails'))
        for g in p.get('mce', []):
            c.count('mce-group:%s:%s' % (p['ins'][g[0]][0], 'builds' if d['ok'] else 'fails'))
        fs = _features(p, d)
        for f in fs:
            c.count(f)
        if d['ok'] and fs:
            c.nontriv(json.dumps(p, sort_keys=True))
        if d.get('ctx_left_set'):
            c.count('ctx-left-set')
    c.evaluations = len(cases)
    c.rule = ('generated graph functions (straight-line constructor calls over a catalogue of 20 UGen classes, unary/binary operators incl. every '
              'operator method, madd, sums, Sum3/Sum4, shared sub-expressions incl. `a op a`, controls, 1-3 output units; a seventh of them with '
              'deliberately ill-typed rates) are compiled by the real SynthDef (NRT) and by the model; the final unit list (class, rate, inputs, outputs, '
              'special index), constants, controls -- or the exception kind -- must be identical; the model also runs its desc_inv checker after every '
              'optimiser step and compares source and emitted denotations under two interpretations (tests).  non-trivial = the definition builds and '
              'at least one shortcut, rewrite or elimination changed the unit list')
    c.samples = [{'prog': p, 'impl': d if not d['ok'] else {'units': d['units'][:6], 'consts': d['consts']}}
                 for p, d in list(zip(cases, out))[len(cases) - 4:]]
    for i in bad[:5]:
        c.failures.append(Failure('correspondence',
                                  'graph model and implementation disagree on the compiled structure (or desc_inv fails in the model): impl=%s'
                                  % json.dumps(out[i])[:600], replay={'prog': cases[i], 'impl': out[i]}))
    for i in [j for j in bad2 if j not in bad][:3]:
        c.failures.append(Failure('correspondence',
                                  'model-level semantic test fails: the emitted graph does not denote the source program under the test interpretations',
                                  replay={'prog': cases[i], 'impl': out[i]}, theorem='compile_preserves_meaning'))
    return c


THEOREM_OF = {'error:KeyError': 'every_wellformed_prog_compiles', 'semantic': 'compile_preserves_meaning'}


def search(ctx, failures):
    """Look on the implementation for a well-formed program that does not compile, or whose emitted
    graph does not denote the source (independent evaluator)."""
    cases = []
    for f in failures:
        p = (f.replay or {}).get('prog')
        if p:
            cases.append(p)
    cases += _load_corpus() + [p for p in cc.SEED_PROGS if p['ins'][-1][0] != 'raise' and p != cc.SEED_PROGS[-2]]
    # one program per operator so that a wrong opcode is seen
    for op in cc.BIN_INFIX + cc.BIN_METHODS:
        cases.append({'ins': [['U', 'Saw', 'audio', [['c', '3']]], ['U', 'LFNoise0', 'audio', [['c', '5']]],
                              ['bin', op, ['v', 0, 0], ['v', 1, 0]], ['out', 'audio', ['c', '0'], [['v', 2, 0]]]]})
    for op in cc.UN_METHODS:
        cases.append({'ins': [['U', 'Saw', 'audio', [['c', '3']]], ['un', op, ['v', 0, 0]], ['out', 'audio', ['c', '0'], [['v', 1, 0]]]]})
    cases += cc.operator_form_progs() + cc.sum_helper_progs()
    for _ in range(ctx.n(300, 3000)):
        cases.append(cc.gen_prog(ctx.rng, ctx.rng.randint(3, 20), demand=False, invalid=0.0))
    res = ctx.impl('c01_search', {'cases': cases}, timeout=900)
    found = []
    for f in res['found']:
        kind = f['kind']
        what = ('well-formed graph function does not compile: %s %s' % (f['observed'].get('err'), f['observed'].get('msg', ''))
                if kind.startswith('error') else 'emitted graph does not denote the source: %s' % f['observed'].get('diff'))
        found.append(Failure('search', what, signature='C01:' + kind, replay=f, found_input=True,
                             theorem=THEOREM_OF.get(kind, 'compile_preserves_meaning')))
    return found
