"""Seeds of script programs (C10): JSON spec <-> Python value <-> the integer the Coq model uses as the seed.

spec = n (int, any size or sign) | ["f", "q"] (float with that exact value) | ["s", text] | ["b", hex] | ["bool", b] | ["nz", 0] (-0.0)
All of them are legal arguments of random.Random() and of Routine.rand_seed."""
import hashlib
from fractions import Fraction


def seed_value(spec):
    if isinstance(spec, int):
        return spec
    k = spec[0]
    if k == 'f':
        return float(Fraction(spec[1]))
    if k == 's':
        return spec[1]
    if k == 'b':
        return bytes.fromhex(spec[1])
    if k == 'bool':
        return bool(spec[1])
    if k == 'nz':
        return -0.0
    raise ValueError(spec)


def seed_code(spec):
    """injective (up to sha1) integer name of the seed for the model; ints keep their value (times 8)"""
    if isinstance(spec, int):
        return 8 * spec
    kind = {'f': 1, 's': 2, 'b': 3, 'bool': 4, 'nz': 6}[spec[0]]
    h = int.from_bytes(hashlib.sha1(repr(spec[1]).encode()).digest()[:7], 'big')
    return 8 * h + kind


def main_code(mseed):
    return 8 * int(mseed) + 5


SEED_POOL = [1, 2, 3, 7, 12345, -7, 0, 0, ['f', '0'], ['nz', 0], ['bool', False], ['bool', True], 2 ** 70 + 5, -(2 ** 65), ['f', '1/2'], ['f', '-3/4'], ['f', '12345'],
             ['s', 'a'], ['s', 'seed'], ['s', 'sc3 routine'], ['s', ''], ['b', '00ff'], ['b', '7365656400'], ['b', '']]
