"""C07 -- bundles are stamped with logical time plus latency; scores are ordered."""
import json, os
from fractions import Fraction
import fw
from fw import Corr, Failure, cz, cq, cbool
from props import _kscript as K
from props import C05 as T

TITLE = 'Bundles are stamped with logical time plus latency; scores are ordered'
TRANSLATED = []
MODEL_TARGETS = ['model/KProg.vo', 'model/KNrt.vo', 'model/KRt.vo', 'model/KCmp.vo']
ALLOWED_AXIOMS = []
TRUSTED = [
    'hand-written models coq/model/KProg.v (stamping kernels) KNrt.v (score) KRt.v (tie: correspondence: unit level on _get_timetag / _check_subtime / elapsed_time_to_osc / osc_to_elapsed_time, program level NRT score + raw bytes re-read by an independent splitter and OSC reader, RT datagrams captured at OscInterface._send under injected jitter)',
    'OSC encoding of a bundle is opaque here (C06); only timetags, nesting and message ids are read back',
    'floats modelled as rationals; dyadic inputs make every float operation exact',
]
ASSUMES = ['timetags stay within 64 bits', 'struct.pack refuses a negative timetag (the send raises)']
MINE = ('F17',)


def olat(l):
    return 'None' if l is None else '(Some %s)' % cq(Fraction(l))


def unit_part(ctx, c):
    rng = ctx.rng
    grid = [Fraction(rng.randint(-64, 4096), 1 << rng.choice([0, 1, 3, 6, 10])) for _ in range(40)]
    lats = [None, '0', '1/8', '1/2', '1', '2', '-1/4', '-1', '3/16', '5'] + K.EDGE_LATS + ['268435456', '-1/4294967296']
    cases = []
    for _ in range(ctx.n(150, 1500)):
        st = str(rng.choice(grid))
        r = rng.random()
        if r < 0.3:
            cases.append(['tag_rt', st, rng.choice(lats)])
        elif r < 0.5:
            cases.append(['tag_nrt_out', st, rng.choice(lats)])
        elif r < 0.75:
            cases.append(['sub', rng.choice(lats), rng.choice(lats)])
        elif r < 0.9:
            cases.append(['osc', str(abs(rng.choice(grid)))])
        else:
            cases.append(['back', str(rng.randint(0, 1 << 40))])
    res = ctx.impl('c07_stamp', {'cases': cases})
    off = int(res['offset'])
    items = []
    for k, o in zip(cases, res['out']):
        c.count('unit:' + k[0])
        if k[0] == 'tag_rt':
            exp = cz(int(o)) if not str(o).startswith('raise') else '(-7)%Z'
            items.append('(Z.eqb (stamp_tag (MRt %s) %s %s) %s)' % (cz(off), cq(Fraction(k[1])), olat(k[2]), exp))
            c.nontriv(tuple(k))
        elif k[0] == 'tag_nrt_out':
            exp = cz(int(o)) if not str(o).startswith('raise') else '(-7)%Z'
            items.append('(Z.eqb (stamp_tag (MNrt false) %s %s) %s)' % (cq(Fraction(k[1])), olat(k[2]), exp))
            c.nontriv(tuple(k))
        elif k[0] == 'sub':
            items.append('(Bool.eqb (check_subtime %s %s) %s)' % (olat(k[1]), olat(k[2]), cbool(o is True)))
            c.nontriv(tuple(k))
        elif k[0] == 'osc':
            items.append('(Z.eqb (elapsed_to_osc %s %s) %s)' % (cz(off), cq(Fraction(k[1])), cz(int(o))))
        else:
            items.append('(Qeq_bool (osc_to_elapsed %s %s) %s)' % (cz(off), cz(int(k[1])), cq(Fraction(o))))
    bad, errs = fw.check_shards(ctx, 'unit', K.HEADER_NRT, items, 'Eval vm_compute in bad_idx (fun b : bool => b) cases.', shard=400)
    c.evaluations += len(cases)
    for e in errs:
        c.failures.append(Failure('correspondence', 'coq evaluation of stamping cases failed: ' + e[:800]))
    for i in bad[:5]:
        c.failures.append(Failure('correspondence', 'stamping kernel disagrees with the implementation on %s: impl=%s' % (cases[i], res['out'][i]),
                                  replay={'case': cases[i], 'impl': res['out'][i]}, found_input=True))


def shared_part(ctx, c):
    """scenarios of the deepening round: the same nested-bundle list OBJECT sent several times from
    different logical times (the harness caches the Python lists per element tree), negative
    latencies at logical time > 0 next to other bundles of the same instant."""
    rng = ctx.rng
    cases = list(K.SHARE_PROGS) + list(K.NEG_PROGS)
    def deep_tree():
        for _ in range(50):
            t = K.gen_elems(rng, None, 2)
            if any(e[0] == 'b' and any(x[0] == 'b' for x in e[2]) for e in t):
                return t
        return [['m', 1], ['b', '1/4', [['m', 2], ['b', '1/2', [['m', 3]]]]]]
    for i in range(ctx.n(40, 400)):
        p = K.gen_prog(rng, 'time', malformed=False)
        tree = deep_tree()
        for b in p['bodies']:
            if rng.random() < 0.7:
                at = rng.randint(0, len(b))
                ins = [['B', None, json.loads(json.dumps(tree))], ['Y', rng.choice(['1/8', '1/4', '1'])],
                       ['S', rng.choice(['-1/4', '-1', '-1/8']), rng.randint(0, 99)], ['S', '0', rng.randint(0, 99)],
                       ['B', rng.choice([None, '-1']), json.loads(json.dumps(tree))]]
                b[at:at] = ins
        if rng.random() < 0.5:
            p['main'].append(['B', None, json.loads(json.dumps(tree))])
        cases.append(p)
    outs, bad, explain, errors = K.run_nrt_correspondence(ctx, cases, 'nrt_shared', share=True)
    c.evaluations += len(cases)
    nshared = 0
    for p, o in zip(cases, outs):
        if 'fatal' in o:
            continue
        seen = {}
        for e in o['events']:
            if e[0] == 'send' and e[5] is not None and any(x[0] == 'b' for x in e[4]):
                seen.setdefault(json.dumps(e[4]), set()).add(e[2])
        if any(len(v) > 1 for v in seen.values()):
            nshared += 1
            c.nontriv(('shared', json.dumps(p, sort_keys=True)))
        if any(e[0] == 'send' and e[3] is not None and Fraction(e[3]) < 0 and Fraction(e[2]) > 0 for e in o['events']):
            c.count('nrt:negative-latency-at-positive-logical-time')
    c.count('nrt:same-nested-list-object-sent-at-several-logical-times', nshared)
    for i, e in errors:
        c.failures.append(Failure('correspondence', 'NRT shared-list case %d could not be compared: %s' % (i, e[:600]),
                                  replay={'program': cases[i] if i >= 0 else None}))
    reported = False
    mutated = [i for i, o in enumerate(outs) if o.get('mutations')]
    for i in sorted(set(bad) | set(mutated)):
        o = outs[i]
        if o.get('mutations'):
            if reported:
                continue
            reported = True
            m = o['mutations'][0]
            c.failures.append(Failure(
                'correspondence',
                'OscScore.add changes the caller\'s nested bundle lists (NRT): after send_bundle at logical time %s the list object %s '
                'has become %s; sent again it is stamped from the altered latencies (list view, raw bytes and model disagree: %s). Program: %s'
                % (m['at_logical_time'], json.dumps(m['sent']), json.dumps(m['callers_list_after_send']),
                   'yes' if i in bad else 'not in this run', json.dumps(cases[i])),
                signature=K.SIGNATURES['MUT'], theorem='score_times_exact', found_input=True,
                replay={'program': cases[i], 'share_lists': True, 'mutations': o['mutations'], 'observed_score': o['score'],
                        'how': 'SC3_MODE=nrt PYTHONPATH=$SC3_REPO:/verif/harness python harness/impl/c05_kscript.py <in.json with {"cases":[program],"share_lists":true}> out.json'}))
            continue
        t = K.classify(explain.get(i))
        ls = T.labels(t) if t is not None else None
        if ls is not None and not [l for l in ls if l in MINE]:
            c.count('nrt:disagreement-owned-by-other-property:' + '+'.join(ls))
            continue
        c.failures.append(Failure('correspondence', 'NRT (shared list objects): model and implementation disagree (%s). Program: %s'
                                  % (ls, json.dumps(cases[i])), replay={'program': cases[i], 'implementation': o},
                                  signature=K.SIGNATURES['F17'] if ls == ['F17'] else None, found_input=True))


def msgnest_part(ctx, c):
    """bundles nested in messages (completion messages): the bytes read back versus the Coq stamping model evaluated at the
    logical time the sending thread observed (inside routines) / the time the main thread read (outside, bracketed)."""
    for mode, n in (('nrt', ctx.n(30, 450)), ('rt', ctx.n(18, 160))):
        rt = mode == 'rt'
        prs = [K.gen_msgnest(ctx.rng, k, rt) for k in range(n)]
        res = ctx.impl('c05_kscript', {'msgnest': prs, 'seed': ctx.seed}, mode=mode, timeout=900)['msgnest_out']
        c.evaluations += len(prs)
        items, idx = [], []
        for i, (pr, o) in enumerate(zip(prs, res)):
            if 'fatal' in o:
                c.failures.append(Failure('correspondence', 'message-nested bundle probe crashed: %s' % o['fatal'][-400:], replay={'probe': pr}))
                continue
            if not o.get('done'):
                c.count('%s:message-nested bundle not completed in time (machine load); not compared' % mode)
                continue
            c.count('%s:message-nested bundle:%s from %s%s' % (mode, pr['form'], 'outside' if pr['parent'] is None else 'routine on ' + K.clock_name(pr['parent']),
                                                                  ' (raises)' if o.get('raised') else ''))
            c.nontriv(('msgnest', mode, json.dumps(pr, sort_keys=True)))
            if 'bounds' in o and not (Fraction(o['bounds'][0]) <= Fraction(o['bounds'][1]) <= Fraction(o['bounds'][2])):
                c.failures.append(Failure('correspondence', 'RT: a message sent from the main thread used the time %s, the physical clock read %s before and %s after'
                                          % (o['bounds'][1], o['bounds'][0], o['bounds'][2]), found_input=True, replay={'probe': pr, 'observed': o}))
            items.append(K.msgnest_item(pr, o, mode)); idx.append(i)
        bad, errs = fw.check_shards(ctx, 'msgnest_' + mode, K.MSGNEST_HEADER, items, 'Eval vm_compute in bad_idx (fun b : bool => b) cases.', shard=100)
        for e in errs:
            c.failures.append(Failure('correspondence', 'coq evaluation of message-nested bundle cases failed: ' + e[:800]))
        for b in bad[:3]:
            pr, o = prs[idx[b]], res[idx[b]]
            c.failures.append(Failure(
                'correspondence', '%s: a bundle nested in a MESSAGE (%s) sent %s at logical time %s with latency %s is not stamped as the model says '
                '(logical time + latency / immediately): bytes carry %s, raised=%s. Probe: %s'
                % (mode.upper(), pr['form'], 'from outside routines' if pr['parent'] is None else 'from a routine on ' + K.clock_name(pr['parent']),
                   o['T'], pr['lat'], json.dumps(o.get('nested')), o.get('raised'), json.dumps(pr)),
                theorem='stamp_is_logical_plus_latency', found_input=True,
                replay={'probe': pr, 'observed': o, 'mode': mode, 'payload_key': 'msgnest',
                        'how': 'SC3_MODE=%s PYTHONPATH=$SC3_REPO:/verif/harness python harness/impl/c05_kscript.py <in.json with {"msgnest":[probe]}> out.json' % mode}))


def nextdrive_part(ctx, c):
    """routines stepped with next() from outside any clock (main thread, also through a second routine) and from inside late routines"""
    for mode, n in (('nrt', ctx.n(18, 240)), ('rt', ctx.n(14, 120))):
        rt = mode == 'rt'
        prs = [K.gen_nextdrive(ctx.rng, k, rt) for k in range(n)]
        res = ctx.impl('c05_kscript', {'nextdrive': prs, 'seed': ctx.seed}, mode=mode, timeout=900)['nextdrive_out']
        c.evaluations += len(prs)
        items, owner = [], []
        nrep = 0
        for i, (pr, o) in enumerate(zip(prs, res)):
            if 'fatal' in o:
                c.failures.append(Failure('correspondence', 'next()-driven routine probe crashed: %s' % o['fatal'][-400:], replay={'probe': pr}))
                continue
            if not o.get('done'):
                c.count('%s:next()-driven routine not completed in time (machine load); not compared' % mode)
                continue
            c.count('%s:routine stepped with next() from %s' % (mode, 'the main thread%s' % (' through a second routine' if pr['wrap'] else '')
                                                                if pr['host'] is None else 'a late routine on ' + K.clock_name(pr['host'])))
            c.nontriv(('nextdrive', mode, json.dumps(pr, sort_keys=True)))
            its, bad = K.nextdrive_items(pr, o, mode)
            if bad and nrep < 2:
                nrep += 1
                c.failures.append(Failure('correspondence', '%s: %s. Probe: %s' % (mode.upper(), bad[0], json.dumps(pr)),
                                          theorem='stamp_is_logical_plus_latency / stamp_outside_is_now_plus_latency', found_input=True,
                                          replay={'probe': pr, 'observed': o, 'mode': mode, 'payload_key': 'nextdrive', 'all': bad}))
            items.extend(its); owner.extend([i] * len(its))
        badi, errs = fw.check_shards(ctx, 'nextdrive_' + mode, K.MSGNEST_HEADER, items, 'Eval vm_compute in bad_idx (fun b : bool => b) cases.', shard=150)
        for e in errs:
            c.failures.append(Failure('correspondence', 'coq evaluation of next()-driven cases failed: ' + e[:800]))
        for b in sorted(set(owner[x] for x in badi))[:2]:
            c.failures.append(Failure('correspondence', '%s: a bundle sent by a routine stepped with next() is not stamped logical time + latency as the stamping '
                                      'model says. Probe: %s Observed: %s' % (mode.upper(), json.dumps(prs[b]), json.dumps(res[b])[:600]),
                                      theorem='stamp_is_logical_plus_latency', found_input=True,
                                      replay={'probe': prs[b], 'observed': res[b], 'mode': mode, 'payload_key': 'nextdrive'}))


def fntask_part(ctx, c):
    """plain functions woken by a clock that send bundles: due at the wake-up's logical time + latency (NRT score time and timetag, RT
    timetag); bytes read back versus the Coq stamping kernel relative to that time; unpatched NRT stamps them absolute from zero."""
    for mode, n in (('nrt', ctx.n(30, 400)), ('rt', ctx.n(15, 120))):
        rt = mode == 'rt'
        prs = [K.gen_fntask(ctx.rng, k, rt) for k in range(n)]
        res = ctx.impl('c05_kscript', {'fntask': prs, 'seed': ctx.seed}, mode=mode, timeout=900)['fntask_out']
        c.evaluations += len(prs)
        items, owner = [], []
        direct = 0
        for i, (pr, o) in enumerate(zip(prs, res)):
            if 'fatal' in o:
                c.failures.append(Failure('correspondence', 'function-task probe crashed: %s' % o['fatal'][-400:], replay={'probe': pr}))
                continue
            if not o.get('done'):
                c.count('%s:function task not completed in time (machine load); not compared' % mode)
                continue
            c.count('%s:function task on %s scheduled from %s' % (mode, K.clock_name(pr['clock']), 'the main thread' if pr['from'] is None else 'a routine on ' + K.clock_name(pr['from'])))
            c.nontriv(('fntask', mode, json.dumps(pr, sort_keys=True)))
            exp_t = K.fntask_times(pr, o, mode)
            if exp_t is not None and [Fraction(r['t']) for r in o['runs']] != exp_t and direct < 2:
                direct += 1
                c.failures.append(Failure('correspondence', '%s: a function scheduled with %s.sched(%s, f) %s runs at logical time %s, expected %s. Probe: %s'
                                          % (mode.upper(), K.clock_name(pr['clock']), pr['delta'], 'from the main thread' if pr['from'] is None else 'from a routine at %s' % o.get('T'),
                                             [r['t'] for r in o['runs']], [str(x) for x in exp_t], json.dumps(pr)), found_input=True,
                                          theorem='stamp_outside_is_now_plus_latency', replay={'probe': pr, 'observed': o, 'mode': mode, 'payload_key': 'fntask'}))
            if 'bounds' in o and pr['clock'] != 'A':
                d = Fraction(pr['delta']) / (Fraction(1) if pr['clock'] in ('S', 'A') else Fraction(pr['tempos'][pr['clock'][1]]))
                t = Fraction(o['runs'][0]['t'])
                if not (Fraction(o['bounds'][0]) + d <= t <= Fraction(o['bounds'][1]) + d) and direct < 2:
                    direct += 1
                    c.failures.append(Failure('correspondence', 'RT: a function scheduled from the main thread with delay %s runs at logical time %s, outside [%s, %s] + delay'
                                              % (pr['delta'], t, o['bounds'][0], o['bounds'][1]), found_input=True, replay={'probe': pr, 'observed': o}))
            for r in o['runs']:
                obs = 'None' if r['raised'] else '(Some %s)' % K.selem(r['tree'])
                if rt:
                    md = '(MRt %s)' % fw.cz(int(o['osc_offset']))
                    items.append('(if agree (stamp_bundle %s %s %s %s) %s then 0 else 2)%%nat' % (md, K.q(r['t']), K.olat(pr['lat']), fw.clist(pr['es'], K.elem), obs))
                else:
                    args = '%s %s %s' % (K.q(r['t']), K.olat(pr['lat']), fw.clist(pr['es'], K.elem))
                    items.append('(if oselem_eqb (stamp_bundle (MNrt true) %s) %s then 0 else if oselem_eqb (stamp_bundle (MNrt false) %s) %s then 1 else 2)%%nat'
                                 % (args, obs, args, obs))
                owner.append((i, r))
        res2 = ctx.coq_shards('fntask_' + mode, K.MSGNEST_HEADER, items, 'Eval vm_compute in cases.', shard=150)
        codes = []
        for rc, out, base in res2:
            cs = fw.parse_nat_list(out) if rc == 0 else None
            if cs is None:
                c.failures.append(Failure('correspondence', 'coq evaluation of function-task cases failed: ' + out[-800:]))
                cs = []
            codes.extend(cs)
        rep = {1: 0, 2: 0}
        for (i, r), code in zip(owner, codes):
            if code == 0 or rep[code] >= 1:
                continue
            rep[code] += 1
            pr, o = prs[i], res[i]
            if code == 1:
                c.failures.append(Failure(
                    'correspondence', 'NRT: a plain function woken by %s at logical time %s sends a bundle with latency %s: the score lists it at the ABSOLUTE time '
                    '%s (latency from zero) instead of %s + latency -- outside routines a bundle carries the current time plus L, and the current time of this '
                    'wake-up is %s (RT stamps it wake-up time + L). Probe: %s' % (K.clock_name(pr['clock']), r['t'], pr['lat'], r['tree'][2] if r['tree'] else None, r['t'], r['t'], json.dumps(pr)),
                    signature=K.SIGNATURES['FN'], theorem='stamp_outside_is_now_plus_latency', found_input=True,
                    replay={'probe': pr, 'observed': o, 'mode': mode, 'payload_key': 'fntask',
                            'how': 'SC3_MODE=nrt PYTHONPATH=$SC3_REPO:/verif/harness python harness/impl/c05_kscript.py <in.json with {"fntask":[probe]}> out.json'}))
            else:
                c.failures.append(Failure('correspondence', '%s: the bundle a function task sends at logical time %s (latency %s) is not stamped as the stamping model says: %s. Probe: %s'
                                          % (mode.upper(), r['t'], pr['lat'], json.dumps(r['tree']), json.dumps(pr)), theorem='stamp_outside_is_now_plus_latency',
                                          found_input=True, replay={'probe': pr, 'observed': o, 'mode': mode, 'payload_key': 'fntask'}))


def heap_part(ctx, c):
    """equal times + later-sent earlier bundles (the queue behind the score is reshuffled): list order = (time, send order)"""
    cases = [K.gen_heap_prog(ctx.rng) for _ in range(ctx.n(16, 160))]
    outs, bad, explain, errors = K.run_nrt_correspondence(ctx, cases, 'nrt_heap')
    c.evaluations += len(cases)
    for i, e in errors:
        c.failures.append(Failure('correspondence', 'NRT heap case %d could not be compared: %s' % (i, e[:600]), replay={'program': cases[i] if i >= 0 else None}))
    for p, o in zip(cases, outs):
        if 'fatal' not in o:
            c.count('nrt:score with runs of equal times and later-sent earlier bundles')
            c.nontriv(('heap', json.dumps(p, sort_keys=True)))
    for i in bad[:3]:
        mons = K.score_monitors(cases[i], outs[i])
        th, _, text = mons[0] if mons else ('score_sorted_stable', None, 'model and implementation disagree (codes %s)' % (explain.get(i),))
        if lost_text(cases[i], outs[i]):
            th, text = 'score_times_exact', lost_text(cases[i], outs[i])
        c.failures.append(Failure('correspondence', '%s fails on the real library (NRT): %s. Program: %s' % (th, text, json.dumps(cases[i])),
                                  theorem=th, found_input=True, replay={'program': cases[i], 'observed_score': outs[i]['score']}))


def lost_text(p, o):
    """a send that returned normally but did not reach the score of THIS life of the NRT session"""
    if not o.get('lost_sends'):
        return None
    ls = o['lost_sends'][0]
    return ('a bundle sent in this life of the NRT session (after main.reset()) through address objects of kind %r at logical time %s returned '
            'normally but is NOT in the score main.process() returns for this life (%d such sends)' % (ls['addr_kind'], ls['at_logical_time'], len(o['lost_sends'])))


def close_part(ctx, c):
    """the score closed from INSIDE the routine that runs last (score.finish(tail) / main.process(tail)), model KScore.nrt_run_closed_inside"""
    cases = [K.gen_close_prog(ctx.rng) for _ in range(ctx.n(24, 240))]
    outs = ctx.impl('c05_kscript', {'cases': cases}, mode='nrt')['out']
    c.evaluations += len(cases)
    items, idx = [], []
    for i, (p, o) in enumerate(zip(cases, outs)):
        if 'fatal' in o or not o.get('raw_ok'):
            c.failures.append(Failure('correspondence', 'score closed from inside a routine: run failed: %s. Program: %s'
                                      % (o.get('fatal', 'raw bytes do not split into the list entries')[-400:], json.dumps(p)), replay={'program': p}))
            continue
        c.count('nrt:score closed from inside a routine on %s with %s' % (K.clock_name(p['main'][0][2]) if p['main'][0][0] == 'P' else '?', p['close']['how']))
        c.nontriv(('close', json.dumps(p, sort_keys=True)))
        raw = bytes.fromhex(o['raw_hex']) if o.get('raw_hex') else None
        items.append('(%s, %s, mkNObs %s %s %s, %s)' % (K.prog(p), K.q(p['close']['tail']), fw.clist(o['events'], K.event), fw.clist(o['score'], K.selem),
                                                       K.q(o['elapsed']), 'None' if raw is None else '(Some %s)' % fw.cbytes(raw)))
        if raw is not None:
            c.count('nrt:whole raw score compared byte for byte with the model (C06 encoder on the model score)')
        idx.append(i)
    body = ('Eval vm_compute in bad_idx (fun c => match c with (p, tl, o, raw) => closed_agrees p %d tl o && '
            'match raw with Some r => raw_agrees (n_score (nrt_run_closed_inside repaired p %d tl)) r | None => true end end) cases.' % (K.FUEL, K.FUEL))
    bad, errs = fw.check_shards(ctx, 'nrt_close', K.CLOSE_HEADER, items, body, shard=40)
    for e in errs:
        c.failures.append(Failure('correspondence', 'coq evaluation of closed-inside cases failed: ' + e[:800]))
    for b in bad[:3]:
        p, o = cases[idx[b]], outs[idx[b]]
        mons = K.score_monitors(p, o)
        text = lost_text(p, o) or (mons[0][2] if mons else None) or K.close_monitor(p, o) or 'model and implementation disagree'
        c.failures.append(Failure('correspondence', 'score_ends_with_tail_marker (closed from inside a routine) fails on the real library (NRT): %s. Program: %s'
                                  % (text, json.dumps(p)), theorem='score_ends_with_tail_marker_closed_inside', found_input=True,
                                  replay={'program': p, 'observed_score': o['score'], 'observed_elapsed': o['elapsed']}))


def _timed(name, f, *a, **k):
    import time as _t
    t0 = _t.time()
    r = f(*a, **k)
    fw.log('    C07 part %-12s %.1fs' % (name, _t.time() - t0))
    return r


def correspond(ctx):
    c = Corr()
    _timed('unit', unit_part, ctx, c)
    _timed('close', close_part, ctx, c)
    _timed('msgnest', msgnest_part, ctx, c)
    _timed('fntask', fntask_part, ctx, c)
    _timed('nextdrive', nextdrive_part, ctx, c)
    # one library process per mode for: oversized bundles (send_clumped_bundles / BundleNetAddr / sync); every TempoClock state change by a
    # routine that keeps sending, with other routines pending on the clock; RT AppClock tasks with other entries queued; main-thread sends
    # racing a slow task on each clock thread
    _timed('multi', T.multi_probe_part, ctx, c, [
        ('clumps', 'clumps_out', K.gen_clump, K.clump_expected, {'nrt': ctx.n(32, 480), 'rt': ctx.n(28, 240)}, 'none_or_negative_is_immediately', 'oversized bundle'),
        ('clockseq', 'clockseq_out', K.gen_clockseq, K.clockseq_expected, {'nrt': ctx.n(20, 320), 'rt': ctx.n(12, 120)}, 'stamp_is_logical_plus_latency', 'clock state changes then sends'),
        ('appclock', 'appclock_out', K.gen_appclock, K.appclock_expected, {'rt': ctx.n(10, 60)}, 'stamp_is_logical_plus_latency', 'AppClock tasks with other entries queued'),
        ('race', 'race_out', K.gen_race, K.race_expected, {'rt': ctx.n(9, 45)}, 'stamp_outside_is_now_plus_latency', 'main-thread sends racing a slow clock task'),
    ])
    _timed('heap', heap_part, ctx, c)
    _timed('shared', shared_part, ctx, c)
    cases, outs = _timed('nrt', T.nrt_part, ctx, c, ctx.n(150, 1500), MINE, None)
    # list form versus raw bytes, entry by entry (any depth), on EVERY NRT run of this check -- no model involved
    for p_, o_ in zip(cases, outs):
        if 'fatal' in o_:
            continue
        if o_.get('lost_sends') and not any('life of the NRT session' in f.what for f in c.failures):
            ls = o_['lost_sends'][0]
            c.failures.append(Failure('correspondence', 'a bundle sent in this life of the NRT session (after main.reset()) through address objects of kind %r at logical '
                                      'time %s returned normally but is NOT in the score main.process() returns for this life (%d lost). Program: %s'
                                      % (ls['addr_kind'], ls['at_logical_time'], len(o_['lost_sends']), json.dumps(p_)),
                                      theorem='score_times_exact', found_input=True, replay={'program': p_, 'lost_sends': o_['lost_sends'],
                                                                                            'observed_score': o_['score']}))
        two = []
        for j, s_ in enumerate(o_['score']):
            K._two_site(s_, two, 'score entry %d' % j)
        c.count('nrt:list view vs raw bytes compared entry by entry', len(o_['score']))
        if two:
            c.failures.append(Failure('correspondence', 'the list form and the binary form of the score disagree (NRT): %s. Program: %s'
                                      % (two[0][2], json.dumps(p_)), theorem='score_times_exact_timetags', found_input=True,
                                      replay={'program': p_, 'observed_score': o_['score'], 'all': [t[2] for t in two][:10]}))
            break
    _timed('rt', T.rt_part, ctx, c, ctx.n(30, 270))
    # timetag = logical time + latency after a tempo / beats change issued by a LATE routine of that clock (harness oracle)
    _timed('rtprobe', T.probe_part, ctx, c, only_ops=('tempo', 'beats'), modes=('rt',))
    # oversized bundles: send_clumped_bundles / BundleNetAddr / sync(elements), latency None, negative, 0, positive
    nb = 0
    for o in outs:
        if 'fatal' not in o:
            for s in o['score']:
                c.count('nrt:score-entry:%s' % ('nested' if any(x[0] == 'b' for x in s[4]) else 'flat'))
    c.rule = ('unit level: _get_timetag (both variants), _check_subtime, elapsed_time_to_osc, osc_to_elapsed_time on dyadic inputs, exact; '
              'program level: as C05 (same script programs): every stamped bundle (due time, timetag, nesting), the NRT score list zipped with the '
              'raw bytes split by an independent length-prefix splitter and OSC reader, RT datagrams captured at _send under jitter, all exact; '
              'plus a batch where equal element trees are sent as the SAME Python list objects (aliasing) and fixed scenarios with negative '
              'latencies at logical time > 0 among other bundles of the same instant')
    c.samples = [{'program': cases[i], 'score': outs[i]['score'][:6]} for i in range(1, min(3, len(cases)))]
    return c


def search(ctx, failures):
    rng = ctx.rng
    cases = [p for _, p in K.DEFECT_PROGS] + [K.gen_prog(rng, 'mixed') for _ in range(ctx.n(150, 1500))]
    outs = ctx.impl('c05_kscript', {'cases': cases}, mode='nrt')['out']
    found, seen = [], set()
    for p, o in zip(cases, outs):
        if 'fatal' in o:
            continue
        for th, key, text in K.score_monitors(p, o):
            sig = K.SIGNATURES.get(key) if key in MINE else None
            if (th, sig) in seen:
                continue
            seen.add((th, sig))
            found.append(Failure('search', '%s fails on the real library (NRT): %s. Program: %s' % (th, text, json.dumps(p)),
                                 signature=sig, theorem=th, found_input=True,
                                 replay={'program': p, 'observed_score': o['score'], 'expected': text}))
    return found
