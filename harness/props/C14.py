"""C14 -- events resolve their keys and play as correctly timed server commands."""
import copy, json, os, sys
from fractions import Fraction
import fw
from fw import Corr, Failure, cz, cq

sys.path.insert(0, os.path.join(fw.VERIF, 'harness', 'oracles'))
import c14_ref as ref

TITLE = 'Events resolve their keys and play as correctly timed server commands'
TRANSLATED = ['Gen_builtins', 'Gen_proto']
MODEL_TARGETS = ['model/Event.vo']
ALLOWED_AXIOMS = []
TRUSTED = [
    'hand-written model coq/model/Event.v of sc3/seq/event.py (EventDict.__call__, Pitch/Amplitude/Duration/ServerKeys, '
    'NoteEvent/_MonoOn/_MonoSet/_MonoOff.play, silent, is_rest), scale.py (Scale.__init__, degree_to_key), eventstream.py '
    '(EventStreamPlayer loop) and patterns Pbind/Pmono/Pchain/Ppar/Pdelta/Pdur, tied to the code by differential testing in '
    'NRT mode (harness/impl/c14_run.py); Ppar uses the priority-queue specification of coq/model/TaskQ.v (refinement proved in C09)',
    'midicps/cpsmidi/dbamp/ampdb are abstract functions in the model and the theorems; in the correspondence they are the '
    'implementation\'s own functions evaluated at the model\'s exact arguments (table looked up by exact equality)',
    'gen/Gen_builtins.v py_roundup (translator) for the tolerance test of Pdur',
    'OscScore orders bundles by time, ties by insertion (C07/C09); node ids are compared up to a renaming by first appearance, '
    'freshness is checked on the implementation\'s own ids',
]
ASSUMES = [
    'event values are Python ints, finite floats, Rest of such, Scale objects and symbols; no arrayed (tuple) values, no function values',
    'times (dur, stretch, legato, sustain, delta, latency, start) are dyadic in the correspondence so that binary64 sums are exact; '
    'derived key values that involve a division by steps-per-octave, 127 or the decimal defaults 0.8/0.1 are compared to within 2^-40 relative',
    'clocks of tempo 1 (SystemClock, TempoClock(1) created by the starting routine), NRT mode',
    'Pmono without articulation; at most one Pmono cut short by a Pdur (the cleanup set of a player is unordered)',
]
SIG = {
    'rest': 'C14:rest_dur_stops_player',
    'pdur_dict': 'C14:pdur_plain_dict_event',
    'pdur_int': 'C14:pdur_int_delta_truncated',
    'scale_key': 'C14:explicit_scale_key_unusable',
    'scale_tuning': 'C14:scale_discards_tuning_octave_ratio',
    'pdelta_input': 'C14:pdelta_stale_input_event',
    'pchain_return': 'C14:pchain_returns_transformed_event',
    'ppar_rest': 'C14:ppar_rest_stretched_twice',
    'pdur_pad': 'C14:pdur_pad_stretched_twice',
}
HEADER = ('From Coq Require Import ZArith QArith List Bool String. Import ListNotations.\n'
          'Require Import SC3.lib.PyNum SC3.model.TaskQ SC3.model.Event.\nOpen Scope string_scope. Open Scope list_scope.\n')
BODY = 'Eval vm_compute in bad_idx (fun b : bool => b) cases.'
FUEL, DEPTH = 400, 10


# --------------------------------------------------------------------------- printers
def fq(s):
    return cq(Fraction(s))


def pnum(v):
    if v[0] == 'G': return '(I %s)' % cz(v[1])       # a Group / Synth object used as target: its node id
    if v[0] == 'B': return '(I %s)' % cz(1 if v[1] else 0)
    if v[0] == 'I': return '(I %s)' % cz(v[1])
    if v[0] in ('F', 'R'): return '(F %s)' % fq(v[1])
    raise ValueError(v)


def pscale(s, cfg):
    import math
    lg = Fraction(int(math.log2(float(Fraction(s['oct'])))))
    return '(scale_new %s [%s]%%Z [%s] %s)' % (cfg, '; '.join(str(d) for d in s['degrees']),
                                              '; '.join(fq(x) for x in s['steps']), cq(lg))


def pval(v, cfg='patched'):
    k = v[0]
    if k in ('I', 'F', 'G'): return '(VNum %s)' % pnum(v)
    if k == 'R': return '(VRest %s)' % pnum(v)
    if k == 'S': return '(VSym "%s")' % v[1]
    if k == 'B': return '(VBool %s)' % fw.cbool(v[1])
    if k == 'N': return 'VNone'
    if k == 'P': return '(VParams %s)' % pparams(v[1])
    if k == 'SC': return '(scale_key %s %s)' % (cfg, pscale(v[1], cfg))
    raise ValueError(v)


def pevent(d, cfg='patched'):
    return '[' + '; '.join('("%s", %s)' % (k, pval(v, cfg)) for k, v in d.items()) + ']'


def pkvs(kvs):
    return '[' + '; '.join('("%s", %s)' % (k, ('VSeq [%s]' % '; '.join(pval(x) for x in vs[1])) if vs[0] == 'seq'
                                           else 'VRep %s' % pval(vs[1])) for k, vs in kvs) + ']'


def ppat(t):
    k = t[0]
    if k == 'bind': return '(PBind %s)' % pkvs(t[1])
    if k == 'mono': return '(%s "%s" %s)' % ('PMonoA' if len(t) > 3 and t[3] else 'PMono', t[1], pkvs(t[2]))
    if k == 'chain': return '(PChain [%s])' % '; '.join(ppat(x) for x in t[1])
    if k == 'par': return '(PPar [%s])' % '; '.join(ppat(x) for x in t[1])
    if k == 'delta': return '(PDelta %s %s)' % (pval(t[1]), ppat(t[2]))
    if k == 'dur': return '(PDur %s %s)' % (pnum(t[1]), ppat(t[2]))
    if k == 'durq': return '(PDurQ %s %s %s %s)' % (pnum(t[1]), pnum(t[2]), 'None' if t[3] is None else '(Some %s)' % pnum(t[3]), ppat(t[4]))
    if k == 'seq': return '(PSeq [%s] %d%%nat %s)' % ('; '.join(ppat(x) for x in t[1]), t[2], cz(t[3]))
    if k == 'pn': return '(PN %s %d%%nat)' % (ppat(t[1]), t[2])
    raise ValueError(t)


def ptable(rows):
    return '[' + '; '.join('(%s, %s)' % (fq(a), fq(b)) for a, b in rows if b is not None) + ']'


def pkern(tables):
    return '(kern_of %s %s %s %s)' % tuple(ptable(tables.get(n, [])) for n in ('midicps', 'cpsmidi', 'dbamp', 'ampdb'))


def pparams(ps):
    return '[' + '; '.join('("%s", %s)' % (k, pnum(v)) for k, v in ps) + ']'


def canon_msgs(msgs):
    """rename node ids by first appearance; report a /s_new whose id was already used"""
    seen, out, stale = {}, [], []
    for m in msgs:
        n = m['node']
        if m['cmd'] == 's_new' and n in seen:
            stale.append(n)
        if n not in seen:
            if m['cmd'] != 's_new':
                stale.append(n)
            seen[n] = len(seen)
        out.append(dict(m, node=seen[n]))
    return out, stale


def pbundle(m):
    t = fq(m['t'])
    if m['cmd'] == 's_new':
        return '(%s, MNew "%s" %d %s %s %s)' % (t, m['name'], m['node'], cz(m['action']), pnum(m['group']), pparams(m['params']))
    if m['cmd'] == 'n_set':
        return '(%s, MSet %d %s)' % (t, m['node'], pparams(m['params']))
    return '(%s, MFree %d)' % (t, m['node'])


def encodable(msgs):
    for m in msgs:
        if m.get('odd'): return False
        if m['cmd'] == 's_new' and m['group'][0] not in ('I', 'F'): return False
        for _, v in m.get('params', []):
            if v[0] not in ('I', 'F', 'B'): return False
    return True


def item_keys(case, res, cfg):
    ev = dict(case['keys'])
    if case.get('scale') is not None:
        ev['scale'] = ['SC', case['scale']]
    asked = []
    holes = {n for n, rows in res['tables'].items() if any(b is None for _, b in rows)}
    skip = set()
    if holes & {'midicps', 'cpsmidi'}: skip |= {'freq', 'midinote', 'note', 'degree'}     # a kernel left its domain (log of 0, overflow)
    if holes & {'dbamp', 'ampdb'}: skip |= {'amp', 'db', 'velocity'}
    for k, v in zip(case['ask'], res['vals']):
        if k in skip:
            continue
        if v[0] in ('I', 'F'): asked.append('("%s", 0%%nat, %s)' % (k, pnum(v)))
        elif v[0] == 'R': asked.append('("%s", 1%%nat, %s)' % (k, pnum(v)))
        elif v[0] == 'E': asked.append('("%s", 0%%nat, NErr)' % k)
        elif v[0] == 'B': asked.append('("%s", 2%%nat, %s)' % (k, pnum(v)))
        elif v[0] == 'N': asked.append('("%s", 3%%nat, (I 0%%Z))' % k)
    return 'keys_ok %s %s [%s]' % (pkern(res['tables']), pevent(ev, cfg), '; '.join(asked))


def peops(ops):
    out = []
    for op in ops:
        if op[0] == 'play': out.append('EPlay')
        elif op[0] == 'set': out.append('ESet "%s" %s' % (op[1], pval(op[2])))
        elif op[0] == 'del': out.append('EDel "%s"' % op[1])
        elif op[0] == 'wait': out.append('EWait %s' % fq(op[1]))
    return '[' + '; '.join(out) + ']'


def item_replay(case, res):
    msgs, _ = canon_msgs(res['msgs'])
    return 'replay_ok %s the_lib %s %s %s %s [%s]' % (
        pkern(res['tables']), fq(case.get('latency', '0/1')), fq(case.get('start', '0/1')), pevent(case['keys']),
        peops(case['ops']), '; '.join(pbundle(m) for m in msgs))


def pctl(case):
    """the controller's operations as the model's ctl"""
    import math
    ops = case.get('ctl')
    if not ops:
        return 'CNone'
    if ops[0][0] == 'stop':
        return '(CStop %s)' % fq(ops[0][1])
    t2 = Fraction(ops[1][1])
    if case.get('clock') == 'tempo':
        # EventStreamPlayer.resume -> TempoClock.play(self, quant=None): the default quant of a TempoClock is 1, the
        # player resumes on the next whole beat of its clock (created at `start`, tempo 1)
        st = Fraction(case.get('start', '0/1'))
        t2 = st + math.ceil(t2 - st)
    return '(CPause %s %s)' % (fq(ops[0][1]), cq(t2))


def item_pat(case, res, cfg):
    msgs, _ = canon_msgs(res['msgs'])
    proto = pevent(case.get('proto', {}))
    if case.get('proto_event') and case.get('proto'):
        proto = '(as_event %s)' % proto
    return 'pat_ok_c %s %s the_lib %s %d %d %s %s %s %s [%s]' % (
        cfg, pkern(res['tables']), fq(case.get('latency', '0/1')), FUEL, DEPTH, pctl(case),
        ppat(case.get('pat_model', case['pat'])), proto,
        fq(case.get('start', '0/1')), '; '.join(pbundle(m) for m in msgs))


# --------------------------------------------------------------------------- generators
def F(x): return ['F', str(Fraction(x))]
def I(n): return ['I', int(n)]
def R(x): return ['R', str(Fraction(x))]


SCALES = {
    'major': [0, 2, 4, 5, 7, 9, 11], 'minor': [0, 2, 3, 5, 7, 8, 10], 'chromatic': list(range(12)),
    'pentatonic': [0, 2, 4, 7, 9], 'whole': [0, 2, 4, 6, 8, 10],
}
JUST = [0, 1.125, 2.0625, 3.125, 3.875, 5, 5.875, 7, 8.125, 8.875, 10.125, 10.875]


def gen_scale(rng, octs=(2, 2, 2, 4)):
    r = rng.random()
    if r < 0.45:
        steps = [Fraction(i) for i in range(12)]
        degs = SCALES[rng.choice(sorted(SCALES))]
    elif r < 0.7:
        steps = [Fraction(x) for x in JUST]
        degs = SCALES[rng.choice(sorted(SCALES))]
    elif r < 0.85:
        steps = [Fraction(i, 2) for i in range(24)]
        degs = rng.choice([[0, 4, 8, 10, 14, 18, 22], [0, 3, 7, 10, 14, 17, 21], list(range(24))])
    else:
        steps = [Fraction(12 / 19 * i) for i in range(19)]
        degs = rng.choice([[0, 3, 6, 8, 11, 14, 17], list(range(19))])
    return {'degrees': degs, 'steps': [str(s) for s in steps], 'oct': '%d/1' % rng.choice(octs)}


def dy(rng, lo, hi, j=None):
    j = rng.choice([0, 1, 2, 3]) if j is None else j
    return Fraction(rng.randint(lo << j, hi << j), 1 << j)


def numval(rng, lo, hi, p_int=0.4):
    if rng.random() < p_int:
        return I(rng.randint(lo, hi))
    return F(dy(rng, lo, hi))


ASK = ['freq', 'midinote', 'note', 'degree', 'detune', 'harmonic', 'ctranspose', 'mtranspose', 'gtranspose', 'octave',
       'root', 'amp', 'db', 'velocity', 'pan', 'dur', 'stretch', 'legato', 'delta', 'sustain', 'out', 'trig']


def gen_keys_case(rng):
    keys = {}
    mode = rng.choice(['degree', 'degree', 'degree', 'note', 'midinote', 'freq', 'none', 'mixed'])
    if mode in ('degree', 'mixed'): keys['degree'] = numval(rng, -9, 16, 0.8)
    if mode in ('note', 'mixed') and (mode == 'note' or rng.random() < 0.4): keys['note'] = numval(rng, -14, 26, 0.6)
    if mode in ('midinote', 'mixed') and (mode == 'midinote' or rng.random() < 0.4): keys['midinote'] = numval(rng, 20, 110, 0.6)
    if mode in ('freq', 'mixed') and (mode == 'freq' or rng.random() < 0.3): keys['freq'] = numval(rng, 30, 4000, 0.5)
    for k, lo, hi, p in (('mtranspose', -8, 8, 0.9), ('gtranspose', -6, 6, 0.5), ('root', -6, 6, 0.5), ('octave', 2, 8, 0.7),
                         ('ctranspose', -12, 12, 0.5), ('harmonic', 1, 5, 0.6), ('detune', 0, 9, 0.4)):
        if rng.random() < 0.35:
            keys[k] = numval(rng, lo, hi, p)
    am = rng.choice(['none', 'none', 'db', 'velocity', 'amp', 'two'])
    if am in ('db', 'two'): keys['db'] = numval(rng, -60, 6, 0.6)
    if am in ('velocity',) or (am == 'two' and rng.random() < 0.5): keys['velocity'] = numval(rng, 1, 127, 0.8)
    if am in ('amp',) or (am == 'two' and rng.random() < 0.5): keys['amp'] = F(Fraction(rng.randint(1, 64), 64))
    for k, lo, hi, p in (('dur', 0, 4, 0.3), ('stretch', 0, 3, 0.3), ('legato', 0, 2, 0.2)):
        if rng.random() < 0.45:
            keys[k] = numval(rng, lo, hi, p)
    if rng.random() < 0.15: keys['dur'] = R(dy(rng, 0, 4))
    if rng.random() < 0.12: keys['delta'] = numval(rng, 0, 5, 0.4)
    if rng.random() < 0.12: keys['sustain'] = numval(rng, 0, 5, 0.4)
    if rng.random() < 0.15: keys['pan'] = numval(rng, -1, 1, 0.3)
    scale = gen_scale(rng) if rng.random() < 0.6 else None
    case = {'kind': 'keys', 'keys': keys, 'scale': scale, 'ask': list(ASK)}
    case['points'] = ref.points_for_keys(keys, scale)
    return case


# every accepted spelling of an add action (Node.add_actions: traditional, simple, one-letter, numbers; 2.0 == 2 and
# True == 1 as dict keys) and of a target (node id as int or float, a Group or a Synth object)
ADD_ACTIONS = [['S', x] for x in ('addToHead', 'addToTail', 'addBefore', 'addAfter', 'addReplace', 'head', 'tail', 'before',
                                  'after', 'replace', 'h', 't', 'b', 'a', 'r')] + [I(n) for n in range(5)] + [F(2), F(3), ['B', True]]
TARGETS = [I(0), I(1), I(5), F(5), ['G', 77, 'group'], ['G', 1, 'group'], ['G', 99, 'synth']]
ZERO_KEYS = ['degree', 'note', 'midinote', 'mtranspose', 'gtranspose', 'root', 'octave', 'ctranspose', 'harmonic', 'detune',
             'amp', 'db', 'velocity', 'dur', 'stretch', 'legato', 'delta', 'sustain', 'pan', 'out', 'trig']


def gen_keys_zero_case(rng):
    """falsy explicit values (0, 0.0, False, and None for the two keys whose class default is None) for every key of
    every chain: an explicit zero is a given key, not a missing one"""
    case = gen_keys_case(rng)
    keys = case['keys']
    for k in rng.sample(ZERO_KEYS, rng.randint(1, 4)):
        z = rng.choice([I(0), F(0), ['B', False]])
        if k in ('delta', 'sustain') and rng.random() < 0.3:
            z = ['N']
        keys[k] = z
    if rng.random() < 0.3:
        keys.pop('freq', None)
    case['points'] = ref.points_for_keys(keys, case['scale'])
    case['zero'] = True
    return case


DURS = [F('1/4'), F('1/2'), F(1), F('3/2'), F(2), I(1), I(2), F('3/4')]
DURS0 = DURS + [F(0), I(0), F('2047/2048')]     # zero durations and one that ends inside Pdur's tolerance window


def gen_kvs(rng, mono=False, infinite=False, rests=True, edge=True, force_legato=False):
    n = rng.randint(1, 4)
    kvs = []
    if not mono:
        kvs.append(['instrument', ['rep', ['S', rng.choice(['c14a', 'c14a', 'c14b', 'c14c'])]]])
    r = rng.random()

    def seq(f, m=None):
        return ['seq', [f() for _ in range(m or n)]]

    def durv():
        if rests and not mono and rng.random() < 0.12:
            return R(rng.choice(['1/4', '1/2', '1', '2', '0']))
        return rng.choice(DURS0 if edge else DURS)
    if infinite:
        kvs.append(['dur', ['rep', rng.choice(DURS)]])
    elif r < 0.75:
        kvs.append(['dur', seq(durv)])
    elif r < 0.9:
        kvs.append(['delta', seq(lambda: rng.choice([I(1), I(2), F('1/2'), F(1)]))])
    else:
        kvs.append(['dur', ['rep', rng.choice(DURS)]])
        kvs.append(['pan', seq(lambda: numval(rng, -1, 1))])
    if not infinite and not any(x[0] == 'delta' for x in kvs) and rng.random() < 0.12:
        kvs.append(['delta', seq(lambda: rng.choice([I(1), F('1/2'), F(1), F(0), I(0)]))])     # delta AND dur given
    if rng.random() < 0.4 or force_legato:
        kvs.append(['legato', ['rep', rng.choice([F('1/2'), F(1), F('1/4'), F('3/2'), I(1), F(0), I(0), ['B', False]])]])
    if rng.random() < 0.2: kvs.append(['stretch', ['rep', rng.choice([F(2), F('1/2'), I(2)] + ([] if infinite else [F(0), I(0)]))]])
    if rng.random() < 0.15: kvs.append(['sustain', ['rep', rng.choice([F('1/8'), F(1), I(3), F(0), I(0)])]])
    p = rng.random()
    if p < 0.3: kvs.append(['freq', seq(lambda: numval(rng, 50, 900), rng.randint(n, n + 2))])
    elif p < 0.45: kvs.append(['midinote', seq(lambda: numval(rng, 40, 90, 0.8), rng.randint(n, n + 2))])
    elif p < 0.6 and not mono: kvs.append(['degree', seq(lambda: (R(1) if rests and rng.random() < 0.1 else I(rng.randint(-7, 14))),
                                                           rng.randint(n, n + 2))])
    for k, f, pr in (('pan', lambda: numval(rng, -1, 1), 0.3), ('amp', lambda: rng.choice([F(Fraction(rng.randint(0, 16), 16)), I(0), ['B', False]]), 0.3),
                     ('cutoff', lambda: I(rng.randint(100, 5000)), 0.2), ('detune', lambda: numval(rng, 0, 4), 0.15),
                     ('harmonic', lambda: I(rng.randint(1, 3)), 0.15), ('out', lambda: I(rng.randint(0, 3)), 0.15),
                     ('db', lambda: rng.choice([I(-6), I(0), F(0)]), 0.1), ('velocity', lambda: rng.choice([I(0), I(64)]), 0.06),
                     ('freq', lambda: rng.choice([I(0), F(0)]), 0.03), ('group', lambda: rng.choice(TARGETS), 0.15),
                     ('node_id', lambda: rng.choice([I(0), I(7)]), 0.06),
                     ('send_gate', lambda: ['B', rng.random() < 0.5], 0.1), ('has_gate', lambda: ['B', rng.random() < 0.5], 0.05)):
        if rng.random() < pr and not any(x[0] == k for x in kvs):
            kvs.append([k, ['rep', f()] if rng.random() < 0.5 else seq(f, rng.randint(n, n + 1))])
    if not mono and rng.random() < 0.3:
        kvs.append(['add_action', ['rep', rng.choice(ADD_ACTIONS)]])
    rng.shuffle(kvs)
    return kvs


def gen_pat(rng, depth, st):
    """st: {'mono_under_dur': bool, 'under_dur': bool}"""
    r = rng.random()
    if depth <= 0 or r < 0.3:
        if rng.random() < 0.2 and not st.get('mono_banned') and not (st['under_dur'] and st['mono_used']):
            st['mono_used'] = True
            if rng.random() < 0.4:
                # Pmono(..., articulate=True): held events (sustain >= delta) share a node, the others are plain notes;
                # rests and short events release the node
                kv = [x for x in gen_kvs(rng, mono=True, rests=True) if x[0] not in ('legato', 'sustain')]
                n = max([len(x[1][1]) for x in kv if x[1][0] == 'seq'] + [2])
                kv.append(['legato', ['seq', [rng.choice([F('3/2'), F(1), F('1/2'), I(2), F('1/4')]) for _ in range(n)]]])
                if rng.random() < 0.3:
                    kv.append(['pan', ['seq', [rng.choice([I(0), R(1), F('1/2')]) for _ in range(n)]]]) if not any(x[0] == 'pan' for x in kv) else None
                return ['mono', rng.choice(['c14a', 'c14b', 'c14c']), kv, True]
            return ['mono', rng.choice(['c14a', 'c14b', 'c14c']), gen_kvs(rng, mono=True)]
        return ['bind', gen_kvs(rng)]
    if r < 0.42:
        # one event pattern after the other (Pseq of event patterns, Pn): what a pattern RETURNS when it ends is the
        # input event of the next one, which starts inside the same pull
        st2 = dict(st, in_par=True)

        def item():
            # items that end in the middle of a pull are the interesting ones: a Pdur that cuts, a Pchain one of whose
            # streams ends first, a Ppar
            x = rng.random()
            if x < 0.25:
                if rng.random() < 0.4:
                    return ['durq', rng.choice([F(8), F('3/2'), I(2)]), F(Fraction(0.001)),
                            rng.choice([F(1), I(1), F(2), F('1/2'), F('3/2')]), ['bind', gen_kvs(rng, rests=False)]]
                return ['dur', rng.choice([F('3/2'), F(1), I(2), F('5/4')]), ['bind', gen_kvs(rng, infinite=rng.random() < 0.5)]]
            if x < 0.5:
                return ['chain', [['bind', gen_kvs(rng, rests=False)], ['bind', gen_kvs(rng)]]]
            return gen_pat(rng, depth - 1, st2)
        if rng.random() < 0.3:
            out = ['pn', item(), rng.randint(1, 3)]
        else:
            out = ['seq', [item() for _ in range(rng.randint(1, 3))], rng.randint(1, 2), rng.randint(-1, 3)]
        st['mono_used'] = st['mono_used'] or st2['mono_used']
        return out
    if r < 0.6:
        st2 = dict(st, in_par=True)
        out = ['par', [gen_pat(rng, depth - 1, st2) for _ in range(rng.choice([0, 1, 1, 2, 2, 2, 3, 3, 4]))]]
        st['mono_used'] = st['mono_used'] or st2['mono_used']
        return out
    if r < 0.7:
        a, b = gen_kvs(rng, rests=False), gen_kvs(rng)
        if rng.random() < 0.3:
            # the event given to Ppar carries a stretch (and other keys): Pchain(Ppar(voices), Pbind(stretch = ...))
            voices = [['bind', gen_kvs(rng)] for _ in range(rng.randint(2, 3))]
            n = rng.randint(3, 8)
            inner = [['stretch', ['rep', rng.choice([F(2), F('1/2'), I(2), F('3/2')])]],
                     ['pan', ['seq', [numval(rng, -1, 1) for _ in range(n)]]]]
            return ['chain', [['par', voices], ['bind', inner]]]
        if rng.random() < 0.1:
            return ['chain', [['bind', b]]]            # Pchain of a single pattern
        first = ['bind', a]
        if rng.random() < 0.3:      # the outer pattern delays itself: its input events are the inner pattern's outputs
            first = ['delta', rng.choice([F('1/2'), F(1), I(1), F(0)]), first]
        more = [['bind', gen_kvs(rng, rests=False)] for _ in range(rng.choice([0, 0, 1, 1, 2]))]
        if more and rng.random() < 0.3:
            return ['chain', [['chain', [first, ['bind', b]]]] + more]      # a chain of a chain
        return ['chain', [first, ['bind', b]] + more]
    if r < 0.82:
        return ['delta', rng.choice([F('1/2'), F(1), I(1), F(0), I(0), F('1/4'), R('1/2'), R(1)]), gen_pat(rng, depth - 1, st)]
    d = rng.choice([F('3/2'), F(1), I(2), F('5/4'), F(3), I(1), F('1/2'), F(0), I(0)])
    if rng.random() < 0.4:
        # every constructor argument at non-default values: Pdur(dur, pattern, tolerance, quant); the quant branch is taken
        # by children that END before dur (finite Pbind, long dur)
        if rng.random() < 0.35:
            # an event that ends INSIDE the tolerance window (dur - tolerance, dur): the cut comes one event early
            import math
            v, T = rng.choice([(Fraction(1, 4), Fraction(1, 2)), (Fraction(3, 4), Fraction(1, 2)), (Fraction(1, 4), Fraction(1)),
                               (Fraction(1, 2), Fraction(1)), (Fraction(3, 4), Fraction(1)), (Fraction(3, 4), Fraction(2))])
            k = rng.randint(1, 3)
            while (k * v) % T == 0:
                k += 1
            dd = math.ceil(k * v / T) * T
            kv = [x for x in gen_kvs(rng, rests=False, edge=False) if x[0] not in ('dur', 'delta', 'stretch')]
            kv.append(['dur', ['seq', [F(v)] * (k + rng.randint(1, 3))]])
            tolv = rng.choice([F(T), I(int(T))]) if T == int(T) else F(T)
            return ['durq', rng.choice([F(dd), I(int(dd))]) if dd == int(dd) else F(dd), tolv,
                    rng.choice([None, None, F(1), F(2)]), ['bind', kv]]
        tol = rng.choice([F(Fraction(0.001)), F(0), I(0), F('1/4'), F('1/8'), F('1/2'), F('1/2'), I(1), I(1), F('3/4'), F(2)])
        quant = rng.choice([None, F(1), I(1), F(2), I(2), F('1/2'), F('1/4'), F('3/2'), F('3/4')])
        dd = rng.choice([d, d, F(2), I(3), F('5/2'), F(8), I(16), F('9/2')])
        if rng.random() < 0.6:
            child = ['bind', gen_kvs(rng, rests=rng.random() < 0.3)]
        else:
            st3 = dict(st, under_dur=True, mono_banned=True)
            child = gen_pat(rng, depth - 1, st3)
        return ['durq', dd, tol, quant, child]
    if rng.random() < 0.25:
        return ['dur', d, ['bind', gen_kvs(rng, infinite=True)]]
    # a Pmono cut by a Pdur nested in a Ppar is released only when the whole player ends (not modelled)
    st2 = dict(st, under_dur=True, mono_banned=st.get('mono_banned') or st.get('in_par', False))
    out = ['dur', d, gen_pat(rng, depth - 1, st2)]
    st['mono_used'] = st['mono_used'] or st2['mono_used']
    return out


def force_legato(t):
    """every Pbind/Pmono gets an explicit dyadic legato (used when the proto event has none)"""
    def fix(kvs):
        if not any(k == 'legato' for k, _ in kvs):
            kvs.append(['legato', ['rep', F('1/2')]])
    if t[0] == 'bind': fix(t[1])
    elif t[0] == 'mono': fix(t[2])
    elif t[0] in ('chain', 'par', 'seq'):
        for c in t[1]: force_legato(c)
    elif t[0] == 'pn': force_legato(t[1])
    elif t[0] == 'durq': force_legato(t[4])
    else: force_legato(t[2])


def gen_pat_case(rng):
    proto = {'legato': rng.choice([F('1/2'), F(1), F('1/4'), F('3/4'), F(0)])}
    if rng.random() < 0.25: proto['amp'] = F('1/4')
    if rng.random() < 0.2: proto['stretch'] = rng.choice([F(2), F('1/2'), I(2), F('3/2')])
    if rng.random() < 0.15: proto['instrument'] = ['S', 'c14c']
    pat = gen_pat(rng, rng.choice([0, 1, 1, 2, 2, 3]), {'under_dur': False, 'mono_used': False})
    if rng.random() < 0.12:          # an EMPTY proto: `proto or dict()`, `inevent or dict()`, an empty NoteEvent is falsy
        proto = {}
        force_legato(pat)
    case = {'kind': 'pat', 'pat': pat, 'proto': proto, 'proto_event': rng.random() < 0.3,
            'latency': str(rng.choice([Fraction(0), Fraction(1, 4), Fraction(1, 2), Fraction(1, 8)])),
            'start': str(rng.choice([Fraction(0), Fraction(0), Fraction(1, 2), Fraction(3, 4), Fraction(2)])),
            'clock': rng.choice(['system', 'tempo'])}
    case['points'] = {'midicps': ref.midicps_points(pat, proto)}
    return case


def gen_ctl_case(rng):
    """a player stopped, or paused and resumed, from another routine at times off the event grid"""
    while True:
        case = gen_pat_case(rng)
        if '2047/2048' not in json.dumps(case['pat']):
            break
    st = Fraction(case['start'])
    t1 = st + Fraction(2 * rng.randint(0, 40) + 1, 16)
    if rng.random() < 0.5 and json.dumps(case['pat']).count('"mono"') <= 1:
        # stop() releases every live Pmono through the player's cleanup SET: with two of them the order of the two
        # releases at the same instant is not defined
        case['ctl'] = [['stop', str(t1)]]
    else:
        case['ctl'] = [['pause', str(t1)], ['resume', str(t1 + Fraction(rng.randint(1, 40), 16))]]
    return case


def cut_kvs(kvs, k):
    return [[key, (['seq', vs[1][:k]] if vs[0] == 'seq' else vs)] for key, vs in kvs]


def gen_raise_case(rng):
    """an event whose key function raises while it is played (midicps overflows for midinote 1e6): nothing of that
    event is sent, the player ends there; the model plays the pattern cut before that event"""
    n = rng.randint(1, 4)
    k = rng.randrange(n)
    kvs = [kv for kv in gen_kvs(rng, rests=False, edge=False, force_legato=True)
           if kv[0] not in ('freq', 'midinote', 'degree', 'dur', 'delta')]
    kvs.append(['dur', ['seq', [rng.choice(DURS) for _ in range(n)]]])
    notes = [I(rng.randint(40, 90)) for _ in range(n)]
    kvs_m = cut_kvs(kvs + [['midinote', ['seq', notes]]], k)
    notes_i = list(notes)
    notes_i[k] = ['BIG']
    kvs_i = kvs + [['midinote', ['seq', notes_i]]]
    wrap = rng.choice(['none', 'delta', 'chain', 'dur'])

    def w(b):
        if wrap == 'delta': return ['delta', F('1/2'), b]
        if wrap == 'chain': return ['chain', [b, ['bind', [['pan', ['rep', I(1)]]]]]]
        if wrap == 'dur': return ['dur', F(3), b]
        return b
    case = {'kind': 'pat', 'pat': w(['bind', kvs_i]), 'pat_model': w(['bind', kvs_m]), 'proto': {'legato': F('1/2')},
            'proto_event': rng.random() < 0.3, 'latency': str(rng.choice([Fraction(0), Fraction(1, 4)])),
            'start': str(rng.choice([Fraction(0), Fraction(1, 2)])), 'clock': rng.choice(['system', 'tempo']), 'raises': True}
    case['points'] = {'midicps': ref.midicps_points(case['pat_model'], case['proto'])}
    return case


def has_kind(t, kind):
    return ('"%s"' % kind) in json.dumps(t)


REPLAY_KEYS = {
    'amp': lambda rng: rng.choice([F(Fraction(rng.randint(0, 16), 16)), I(0), I(1)]),
    'pan': lambda rng: numval(rng, -1, 1),
    'freq': lambda rng: numval(rng, 50, 900),
    'midinote': lambda rng: I(rng.randint(40, 90)),
    'degree': lambda rng: I(rng.randint(-7, 14)),
    'harmonic': lambda rng: I(rng.randint(1, 3)),
    'detune': lambda rng: numval(rng, 0, 4),
    'cutoff': lambda rng: I(rng.randint(100, 5000)),
    'out': lambda rng: I(rng.randint(0, 3)),
    'sustain': lambda rng: rng.choice([F('1/8'), F(1), I(2), F(0)]),
    'dur': lambda rng: rng.choice(DURS),
    'legato': lambda rng: rng.choice([F('1/2'), F(1), F('1/4'), I(1)]),
    'instrument': lambda rng: ['S', rng.choice(['c14a', 'c14b', 'c14c'])],
    'group': lambda rng: rng.choice(TARGETS),
    'add_action': lambda rng: rng.choice(ADD_ACTIONS),
    'send_gate': lambda rng: ['B', rng.random() < 0.5],
}


def gen_replay_case(rng):
    """an event object that is played, changed (keys set, added, removed), played again; copies of a played event"""
    keys = {'instrument': ['S', rng.choice(['c14a', 'c14a', 'c14b', 'c14c'])], 'legato': rng.choice([F('1/2'), F(1), F('1/4')])}
    for k in rng.sample(sorted(REPLAY_KEYS), rng.randint(1, 5)):
        keys[k] = REPLAY_KEYS[k](rng)
    if rng.random() < 0.15:      # a control list given by the user: used as it is until the event has been played once
        keys['msg_params'] = ['P', [[k, REPLAY_KEYS[k](rng)] for k in rng.sample(['freq', 'amp', 'pan', 'cutoff'], rng.randint(1, 3))]]
    ops = [['play']]
    for _ in range(rng.randint(1, 3)):
        ops.append(['wait', str(rng.choice([Fraction(1, 4), Fraction(1, 2), Fraction(1), Fraction(0)]))])
        if rng.random() < 0.3:
            ops.append(['copy'])
        for _ in range(rng.randint(0, 3)):
            k = rng.choice(sorted(REPLAY_KEYS))
            if rng.random() < 0.2 and k not in ('instrument', 'legato'):
                ops.append(['del', k])
            else:
                ops.append(['set', k, REPLAY_KEYS[k](rng)])
        ops.append(['play'])
    case = {'kind': 'replay', 'keys': keys, 'ops': ops,
            'latency': str(rng.choice([Fraction(0), Fraction(1, 4), Fraction(1, 8)])),
            'start': str(rng.choice([Fraction(0), Fraction(1, 2)]))}
    pts = {Fraction(60)}
    for src in [keys] + [{op[1]: op[2]} for op in ops if op[0] == 'set']:
        for k, v in src.items():
            if k == 'midinote' and v[0] in ('I', 'F'): pts.add(Fraction(v[1]))
            if k == 'degree' and v[0] in ('I', 'F'): pts.add(60 + ref.degree_to_key(ref.MAJOR, Fraction(v[1])))
    case['points'] = {'midicps': sorted('%d/%d' % (x.numerator, x.denominator) for x in pts)}
    return case


def gen_alias_case(rng):
    while True:
        case = gen_pat_case(rng)
        if not has_kind(case['pat'], 'mono'):        # a Pmono stream needs a player around it
            break
    return {'kind': 'alias', 'pat': case['pat'], 'proto': case['proto']}


def gen_twice_group(rng, gid):
    """the same pattern OBJECT played by two players: the score is the union of the two single plays"""
    while True:
        case = gen_pat_case(rng)
        if '2047/2048' not in json.dumps(case['pat']):
            break
    tau = str(Fraction(rng.randint(0, 12), 4))
    st = Fraction(case['start'])
    a = dict(case, grp=gid, role='first')
    b = dict(case, grp=gid, role='second', start=str(st + Fraction(tau)))
    c = dict(case, grp=gid, role='both', twice=tau)
    return [a, b, c]


def bind(**kw):
    kvs = [['instrument', ['rep', ['S', 'c14a']]]]
    for k, v in kw.items():
        kvs.append([k, ['seq', v] if isinstance(v[0], list) else ['rep', v]])
    return ['bind', kvs]


def battery():
    """minimal cases for every defect found so far (signature, case)"""
    P = {'legato': F('1/2')}
    pc = lambda pat, **kw: dict({'kind': 'pat', 'pat': pat, 'proto': dict(P), 'proto_event': False, 'latency': '0/1',
                                 'start': '0/1', 'clock': 'system', 'points': {'midicps': ['60/1']}}, **kw)
    minor = {'degrees': SCALES['minor'], 'steps': [str(Fraction(i)) for i in range(12)], 'oct': '2/1'}
    wide = {'degrees': [0, 1, 2], 'steps': ['0/1', '4/1', '8/1'], 'oct': '4/1'}

    def kc(keys, scale):
        return {'kind': 'keys', 'keys': keys, 'scale': scale, 'ask': ['note', 'midinote', 'freq'],
                'points': ref.points_for_keys(keys, scale)}
    return [
        (SIG['rest'], pc(bind(dur=[R(1), F(1)]))),
        (SIG['pdur_dict'], pc(['dur', F('3/2'), bind(dur=[F(1), F(1)])])),
        (SIG['pdur_int'], pc(['dur', F('3/2'), ['mono', 'c14b', [['delta', ['seq', [I(1), I(1)]]]]]])),
        (SIG['pdelta_input'], pc(['chain', [['delta', F('1/2'), bind(dur=[F(1), F(1), F(1)])],
                                            ['bind', [['pan', ['seq', [I(1), I(2), I(3), I(4)]]]]]]])),
        (SIG['pchain_return'], pc(['seq', [['chain', [bind(dur=[F(1)]), ['bind', [['pan', ['seq', [I(1), I(2), I(3)]]]]]]],
                                            bind(dur=[F('1/2'), F('1/2')])], 1, 0])),
        (SIG['ppar_rest'], pc(['par', [bind(dur=[I(1), I(1)], pan=I(0)), bind(dur=[F('1/2')], pan=I(1))]],
                              proto={'legato': F('1/2'), 'stretch': I(2)})),
        (SIG['ppar_rest'], pc(['chain', [['par', [bind(dur=[I(1), I(1)], pan=I(0)), bind(dur=[F('1/2')], pan=I(1))]],
                                         ['bind', [['stretch', ['rep', F(2)]]]]]])),
        (SIG['pdur_pad'], pc(['seq', [['durq', F(8), F(Fraction(0.001)), F(1), bind(dur=[F('1/4')], pan=I(0))],
                                       bind(dur=[F(1)], pan=I(1))], 1, 0], proto={'legato': F('1/2'), 'stretch': I(2)})),
        # probes without a known finding: the quant grid of Pdur (child ends 1/4 past a grid point) seen by what follows it
        ('C14:probe_pdur_quant_grid', pc(['seq', [['durq', F(8), F(Fraction(0.001)), F(1),
                                                  bind(dur=[F('3/4'), F('3/4'), F('3/4')], pan=I(0))],
                                                 bind(dur=[F(1)], pan=I(1))], 1, 0])),
        ('C14:probe_pdur_quant_grid', pc(['pn', ['durq', F(8), F('1/4'), I(2), bind(dur=[F('3/4'), F('3/2')], pan=I(0))], 2])),
        (SIG['scale_key'], kc({'degree': I(2)}, minor)),
        (SIG['scale_tuning'], {'kind': 'scale', 'scale': wide}),
        (SIG['scale_tuning'], kc({'degree': I(4)}, wide)),
    ]


CORPUS = os.path.join(fw.VERIF, 'corpus', 'C14_cases.json')


def gen_cases(ctx):
    cases = [c for _, c in battery() if c['kind'] != 'scale']
    if os.path.exists(CORPUS):
        cases += json.load(open(CORPUS))
    def forms(case):
        # alternative entry points (Pchain.chain(), mappings as pairs, event(**kw), EventStreamPlayer(...), base.play ...):
        # chosen by the runner from this seed; the model has ONE form
        if ctx.rng.random() < 0.6:
            case['form_seed'] = ctx.rng.randrange(1 << 30)
        return case
    cases += [forms(gen_keys_case(ctx.rng)) for _ in range(ctx.n(400, 5000))]
    cases += [forms(gen_keys_zero_case(ctx.rng)) for _ in range(ctx.n(200, 2000))]
    pats = [forms(gen_pat_case(ctx.rng)) for _ in range(ctx.n(400, 5000))]
    pats += [forms(gen_ctl_case(ctx.rng)) for _ in range(ctx.n(120, 1500))]
    # raising events are interleaved with ordinary cases of the same process: state leaked by the failure would
    # show in the cases that follow
    for _ in range(ctx.n(40, 400)):
        pats.insert(ctx.rng.randrange(len(pats)), gen_raise_case(ctx.rng))
    cases += pats
    cases += [forms(gen_replay_case(ctx.rng)) for _ in range(ctx.n(150, 1500))]
    cases += [gen_alias_case(ctx.rng) for _ in range(ctx.n(60, 600))]
    for g in range(ctx.n(30, 300)):
        cases += gen_twice_group(ctx.rng, g)
    return cases


# --------------------------------------------------------------------------- correspondence
def run_impl(ctx, cases):
    out = []
    for i in range(0, len(cases), 4000):
        out += ctx.impl('c14_run', {'cases': cases[i:i + 4000]}, timeout=900)['out']
    return out


def content(m):
    return (Fraction(m['t']), m['cmd'], m.get('name', ''), tuple((k, Fraction(v[1]) if v[0] in ('I', 'F', 'B') else repr(v))
                                                                  for k, v in m.get('params', [])))


def twice_violation(g):
    """score(both players) must be the union of the scores of each player alone, and every node consistent"""
    both = g['both'][1]['msgs']
    want = sorted(content(m) for m in g['first'][1]['msgs'] + g['second'][1]['msgs'])
    have = sorted(content(m) for m in both)
    if want != have:
        d = next((i for i, (a, b) in enumerate(zip(want, have)) if a != b), min(len(want), len(have)))
        return 'the score is not the union of the two single plays (entry %d: expected %s, got %s)' % (
            d, want[d] if d < len(want) else None, have[d] if d < len(have) else None)
    _, stale = canon_msgs(both)
    if stale:
        return 'node ids reused or unknown: %s' % stale
    return None


def tables_ok(res):
    return all(b is not None for rows in res.get('tables', {}).values() for _, b in rows)


def count_tree(c, t):
    c.count('pattern:' + t[0])
    if t[0] == 'mono' and len(t) > 3 and t[3]: c.count('pattern:mono-articulate')
    if t[0] in ('chain', 'par', 'seq'):
        for x in t[1]: count_tree(c, x)
    elif t[0] == 'pn':
        count_tree(c, t[1])
    elif t[0] == 'durq':
        c.count('Pdur:tolerance=%s' % t[2][1]); c.count('Pdur:quant=%s' % (None if t[3] is None else t[3][1]))
        count_tree(c, t[4])
    elif t[0] in ('delta', 'dur'):
        count_tree(c, t[2])


def has_rest(t):
    return '"R"' in json.dumps(t)


def correspond(ctx):
    c = Corr()
    cases = gen_cases(ctx)
    res = run_impl(ctx, cases)
    keep, items, groups = [], [], {}
    for k, r in zip(cases, res):
        for fm in r.get('forms', []) if isinstance(r, dict) else []:
            c.count('entry-point:' + fm)
        if 'runner_error' in r:
            c.failures.append(Failure('correspondence', 'implementation runner could not run a case: ' + r['runner_error'],
                                      replay={'case': k}))
            continue
        if k['kind'] == 'alias':
            c.count('alias-probe')
            c.evaluations_extra = getattr(c, 'evaluations_extra', 0) + 1
            if r.get('input_changed'):
                c.failures.append(Failure(
                    'correspondence', 'a stream writes into the dict passed to next(): %s' % r['input_changed'], found_input=True,
                    theorem='streams share no state with their inputs', replay={'case': k, 'observed': r['input_changed']}))
            elif r['clean'] != r['mutated'] or not r['proto_unchanged']:
                d = next((i for i, (a, b) in enumerate(zip(r['clean'], r['mutated'])) if a != b), None)
                c.failures.append(Failure(
                    'correspondence', 'mutating an event a stream has yielded (or the dict passed to it) changes what the stream '
                    'yields later: first difference at event %s' % d, found_input=True, theorem='streams share no state with their outputs',
                    replay={'case': k, 'unmutated_run': r['clean'][:d + 1 if d is not None else 3],
                            'mutated_run': r['mutated'][:d + 1 if d is not None else 3], 'proto_unchanged': r['proto_unchanged']}))
            elif len(r['clean']) > 2:
                c.nontriv(('alias', k['pat']))
            continue
        if k.get('role') == 'both':
            groups.setdefault(k['grp'], {})['both'] = (k, r)
            continue
        if k.get('role') in ('first', 'second'):
            groups.setdefault(k['grp'], {})[k['role']] = (k, r)
        if k['kind'] == 'replay':
            if not tables_ok(r) or not encodable(r['msgs']):
                c.count('cases:skipped(kernel out of domain or non-numeric argument)')
                continue
            c.count('event-object-replayed:%d-plays' % sum(1 for o in k['ops'] if o[0] == 'play'))
            if any(o[0] == 'copy' for o in k['ops']): c.count('event-object-copied')
            if 'msg_params' in k['keys']: c.count('user-msg_params')
            _, stale = canon_msgs(r['msgs'])
            if stale:
                c.failures.append(Failure('correspondence', 'a /s_new reuses a node id or a /n_set refers to an unknown node: %s' % stale,
                                          replay={'case': k, 'impl': r['msgs']}))
            c.nontriv(('replay', k['keys'], k['ops']))
            items.append(item_replay(k, r))
            keep.append((k, r))
            continue
        if k['kind'] == 'pat' and (not tables_ok(r) or not encodable(r['msgs'])):
            c.count('cases:skipped(kernel out of domain or non-numeric argument)')
            continue
        if k['kind'] == 'pat' and not r.get('proto_unchanged', True):
            c.failures.append(Failure('correspondence', 'playing a pattern changed the proto dict given to Pattern.play',
                                      found_input=True, replay={'case': k}))
        if k['kind'] == 'keys':
            c.count('keys:' + '+'.join(sorted(x for x in k['keys'] if x in ('degree', 'note', 'midinote', 'freq'))) or 'keys:none')
            if k.get('zero'):
                for kk, vv in k['keys'].items():
                    if vv[0] == 'N' or (vv[0] in ('I', 'F', 'B') and not Fraction(vv[1])):
                        c.count('explicit-falsy:%s=%s' % (kk, vv[0]))
            c.count('scale:' + ('default' if k['scale'] is None else 'len%d/oct%s' % (len(k['scale']['steps']), k['scale']['oct'])))
            for a, v in zip(k['ask'], r['vals']):
                c.count('value-kind:' + v[0])
            if any(v[0] in ('I', 'F') for v in r['vals']) and len(k['keys']) > 0:
                c.nontriv(('keys', k['keys'], k['scale']))
            items.append(item_keys(k, r, 'patched'))
        else:
            count_tree(c, k['pat'])
            c.count('clock:' + k['clock']); c.count('latency:' + k['latency'])
            if k.get('ctl'): c.count('controller:' + k['ctl'][0][0])
            if k.get('raises'): c.count('event-raises-while-played')
            if not k.get('proto'): c.count('proto:empty')
            c.count('score-length:%d' % min(len(r['msgs']), 12))
            if has_rest(k['pat']): c.count('pattern-with-rests')
            if r['errors']: c.count('impl-logged-error')
            _, stale = canon_msgs(r['msgs'])
            if stale:
                c.failures.append(Failure('correspondence', 'a /s_new reuses a node id or a /n_set refers to an unknown node: %s' % stale,
                                          replay={'case': k, 'impl': r['msgs']}))
            if len(r['msgs']) >= 2:
                c.nontriv(('pat', k['pat'], k['proto'], k['latency'], k['start']))
            items.append(item_pat(k, r, 'patched'))
        keep.append((k, r))
    bad, errs = fw.check_shards(ctx, 'cases', HEADER, items, BODY, shard=max(30, len(items) // 16 + 1), timeout=1200)
    c.evaluations = len(keep) + getattr(c, 'evaluations_extra', 0)
    for gid, g in sorted(groups.items()):
        if len(g) == 3:
            c.evaluations += 1
            c.count('same-pattern-object-played-twice')
            v = twice_violation(g)
            if v:
                c.failures.append(Failure('correspondence', 'one pattern object played by two players: ' + v, found_input=True,
                                          theorem='streams of one pattern are independent',
                                          replay={'case': g['both'][0], 'both': g['both'][1]['msgs'][:12],
                                                  'first_alone': g['first'][1]['msgs'][:8], 'second_alone': g['second'][1]['msgs'][:8]}))
    c.rule = ('(1) random sets of explicit pitch/amplitude/duration keys (ints, dyadic floats, Rest durations; 5 scales x 4 tunings '
              'incl. a non-equal one, 24- and 19-step ones and octave ratio 4) -> e(key) for 22 keys compared with ev_call of '
              'coq/model/Event.v (kind int/float exactly, value to 2^-40; midicps/cpsmidi/dbamp/ampdb = the implementation\'s own '
              'functions at the model\'s exact arguments); (2) random Pbind/Pmono/Pchain/Ppar/Pdelta/Pdur compositions (depth <= 3, '
              'finite and constant value streams, rests, int and dyadic durations, proto dict or NoteEvent, latency and start time, '
              'SystemClock / TempoClock(1)) played in NRT; every /s_new, /n_set, /n_free of main.process() compared with the model\'s '
              'score: times exactly, names, add actions, groups, control names in order, values to 2^-40, node ids up to renaming by '
              'first appearance (+ freshness of the implementation\'s ids). non-trivial = a key case with at least one explicit key '
              'and a numeric answer / a pattern case whose score has at least two messages')
    c.samples = [{'case': k, 'impl': (r.get('vals') or r.get('msgs'))[:6]} for k, r in keep[:2] + keep[-2:]]
    for e in errs:
        c.failures.append(Failure('correspondence', 'coq evaluation of C14 cases failed: ' + e[-1500:]))
    if bad:
        def item_u(k, r):
            if k['kind'] == 'keys': return item_keys(k, r, 'unpatched')
            if k['kind'] == 'replay': return item_replay(k, r)
            return item_pat(k, r, 'unpatched')
        items_u = [item_u(keep[i][0], keep[i][1]) for i in bad]
        bad_u, errs_u = fw.check_shards(ctx, 'casesu', HEADER, items_u, BODY, shard=max(10, len(items_u) // 16 + 1))
        bad_u = set(bad_u)
        c.count('mismatch:patched-model', len(bad))
        c.count('mismatch:also-unpatched-model', len(bad_u))
        order = sorted(range(len(bad)), key=lambda j: len(json.dumps(keep[bad[j]][0])))
        for j in order[:6]:
            k, r = keep[bad[j]]
            follows = j not in bad_u and not errs_u
            c.failures.append(Failure(
                'correspondence',
                'model (event.py/eventstream.py/filterpatterns.py/scale.py with the C14 fixes) and implementation disagree on a %s case%s' % (
                    k['kind'], ' -- the implementation behaves exactly like the model of the code as released' if follows else ''),
                replay={'case': k, 'impl': r.get('vals') or r.get('msgs'), 'impl_errors': r.get('errors'), 'entry_points_used': r.get('forms'),
                        'follows_unpatched_model': follows}))
    ctx.c14 = (cases, res)
    return c


# --------------------------------------------------------------------------- search
def close(a, b):
    return abs(a - b) <= Fraction(1, 1 << 30) * (1 + abs(b))


def oracle_keys(case, res):
    """documented forward chains, recomputed directly; returns a list of violations (text)"""
    keys = {k: v for k, v in case['keys'].items()}
    p = ref.pitch({k: v for k, v in keys.items() if v[0] in ('I', 'F', 'B')}, case.get('scale'))
    got = dict(zip(case['ask'], res['vals']))
    bad = []

    def chk(name, exp):
        v = got.get(name)
        if v is None or exp is None:
            return
        if v[0] not in ('I', 'F', 'R'):
            bad.append('%s: expected %s, got %s' % (name, float(exp), v))
        elif not close(Fraction(v[1]), exp):
            bad.append('%s: expected %s, got %s' % (name, float(exp), float(Fraction(v[1]))))
    for k, v in keys.items():
        if v[0] in ('I', 'F', 'R', 'B') and k in got and got[k][0] != 'B':
            chk(k, Fraction(v[1]))          # explicit key precedence
    if 'note' not in keys: chk('note', p['note'])
    if 'midinote' not in keys: chk('midinote', p['midinote'])
    tabs = {n: {a: b for a, b in rows} for n, rows in res['tables'].items()}
    if 'freq' not in keys and p['freq_arg'] is not None:
        a = '%d/%d' % (p['freq_arg'].numerator, p['freq_arg'].denominator)
        y = tabs.get('midicps', {}).get(a)
        if y is not None:
            chk('freq', Fraction(y))
    numeric = {k: v for k, v in keys.items() if v[0] in ('I', 'F', 'R', 'B')}
    delta, sustain = ref.durations(numeric)
    if 'delta' not in keys: chk('delta', delta)
    if 'sustain' not in keys: chk('sustain', sustain)
    if 'amp' not in keys and 'db' not in keys and 'velocity' in keys: chk('amp', Fraction(keys['velocity'][1]) / 127)
    if 'amp' not in keys and 'db' in keys and keys['db'][0] in ('I', 'F', 'B'):
        a = Fraction(keys['db'][1])
        y = tabs.get('dbamp', {}).get('%d/%d' % (a.numerator, a.denominator))
        if y is not None:
            chk('amp', Fraction(y))
    return bad


def oracle_pat(case, res):
    if case.get('ctl') or case.get('raises') or case.get('twice') is not None:
        return []      # the reference knows neither controllers nor failing events
    txt = json.dumps(case['pat'])
    if '["chain", [["par"' in txt or (('"dur"' in txt or '"durq"' in txt) and '2047/2048' in txt):
        return []      # the reference neither feeds a Ppar one input event per pull nor knows Pdur's tolerance window
    if ', true]' in txt and '"mono"' in txt:
        return []      # articulated Pmono is the model's business
    if '"par"' in txt and '"mono"' in txt:
        return []      # the reference does not place the release of a Pmono inside a Ppar
    exp, total = ref.expected_score(case)
    tab = {a: Fraction(b) for a, b in res['tables'].get('midicps', []) if b is not None}

    def val(x):
        if isinstance(x, tuple):
            _, arg, h, d = x
            a = '%d/%d' % (arg.numerator, arg.denominator)
            base = tab.get(a)
            if base is None:
                base = Fraction(440 * 2 ** ((float(arg) - 69) / 12))
            return base * h + d
        return x
    want = sorted((t, cmd, name or '', [(k, val(v)) for k, v in ps]) for t, cmd, name, ps in exp)
    have = sorted((Fraction(m['t']), m['cmd'], m.get('name', ''),
                   ([('#action', Fraction(m['action'])), ('#group', Fraction(m['group'][1]))] if m['cmd'] == 's_new' else [])
                   + [(k, Fraction(v[1])) for k, v in m.get('params', [])])
                  for m in res['msgs'])
    bad = []
    if len(want) != len(have):
        bad.append('expected %d messages, got %d (%s)' % (len(want), len(have), '; '.join(res.get('errors', []))[:200]))
    for w, h in zip(want, have):
        same = (w[0] == h[0] and w[1] == h[1] and w[2] == h[2] and [k for k, _ in w[3]] == [k for k, _ in h[3]]
                and all(close(a[1], b[1]) for a, b in zip(h[3], w[3])))
        if not same:
            bad.append('expected %s, got %s' % ((float(w[0]), w[1], w[2], [(k, float(v)) for k, v in w[3]]),
                                                (float(h[0]), h[1], h[2], [(k, float(v)) for k, v in h[3]])))
            break
    return bad


def oracle_replay(case, res):
    """every play of an event object carries the event's CURRENT value for each control of its instrument it defines
    (freq is always defined; its value is left to the model: play() stores the detuned frequency back)"""
    keys = dict(case['keys'])
    played = False
    want = []
    for op in case['ops']:
        if op[0] == 'set': keys[op[1]] = op[2]
        elif op[0] == 'del': keys.pop(op[1], None)
        elif op[0] == 'play':
            instr = keys.get('instrument', ['S', 'default'])[1]
            if 'msg_params' in keys and not played:
                want.append([(k, Fraction(v[1])) for k, v in keys['msg_params'][1]])
            else:
                want.append([(c, None if c == 'freq' else Fraction(keys[c][1])) for c in ref.CONTROLS.get(instr, [])
                             if c != 'gate' and (c == 'freq' or (c in keys and keys[c][0] in ('I', 'F', 'B')))])
            played = True
    have = [[(k, Fraction(v[1])) for k, v in m['params']] for m in res['msgs'] if m['cmd'] == 's_new']
    bad = []
    if len(want) != len(have):
        bad.append('expected %d /s_new, got %d (%s)' % (len(want), len(have), '; '.join(res.get('errors', []))[:200]))
    for i, (w, h) in enumerate(zip(want, have)):
        if [k for k, _ in w] != [k for k, _ in h] or any(a[1] is not None and not close(b[1], a[1]) for a, b in zip(w, h)):
            bad.append('play %d: expected controls %s, got %s' % (i, [(k, None if v is None else float(v)) for k, v in w],
                                                                  [(k, float(v)) for k, v in h]))
            break
    return bad


def oracle_scale(case, res):
    s = case['scale']
    bad = []
    if Fraction(res['octave_ratio']) != Fraction(s['oct']):
        bad.append('Scale(degrees, Tuning(steps, %s)).tuning.octave_ratio = %s' % (float(Fraction(s['oct'])), float(Fraction(res['octave_ratio']))))
    return bad


def violations(case, res):
    if 'runner_error' in res:
        return []
    try:
        if case['kind'] == 'keys': return oracle_keys(case, res)
        if case['kind'] == 'scale': return oracle_scale(case, res)
        if case['kind'] == 'replay': return oracle_replay(case, res)
        return oracle_pat(case, res)
    except Exception as e:       # the oracle covers the documented forward chains / simple compositions only
        return []


def search(ctx, failures):
    """Direct recomputation of the documented chains / timelines against the implementation (no Coq model)."""
    found = []
    bat = battery()
    cases = [c for _, c in bat]
    extra = [f.replay['case'] for f in failures if f.replay.get('case')]
    allgen = [k for k in getattr(ctx, 'c14', ([], []))[0] if k['kind'] in ('keys', 'pat', 'replay')]
    pool = allgen[::max(1, len(allgen) // ctx.n(500, 3000))]
    allc = cases + extra + pool
    res = run_impl(ctx, allc)
    seen_sig = set()
    for (sig, k), r in zip(bat, res):
        v = violations(k, r)
        if v and sig not in seen_sig:
            seen_sig.add(sig)
            found.append(Failure('search', 'the implementation contradicts the documented behaviour: ' + v[0], signature=sig,
                                 found_input=True, theorem=THEOREM_OF.get(sig),
                                 replay={'case': k, 'observed': r.get('vals') or r.get('msgs') or r, 'impl_errors': r.get('errors'),
                                         'violations': v[:3], 'how': HOW}))
    other = []
    for k, r in list(zip(allc, res))[len(bat):]:
        v = violations(k, r)
        if v:
            other.append((len(json.dumps(k)), k, r, v))
    other.sort(key=lambda x: x[0])
    if other and not found:
        for _, k, r, v in other[:2]:
            found.append(Failure('search', 'the implementation contradicts the documented behaviour: ' + v[0], found_input=True,
                                 replay={'case': k, 'observed': r.get('vals') or r.get('msgs'), 'impl_errors': r.get('errors'),
                                         'violations': v[:3], 'how': HOW}))
    return found


THEOREM_OF = {SIG['pdur_pad']: 'pdurq_pad',
              SIG['ppar_rest']: 'ppar_preserves_child_timelines',
              SIG['pchain_return']: 'a pattern that ends hands the event it was sent, unchanged, to the pattern embedded next',
              SIG['pdelta_input']: 'streams share no state with their inputs (Pchain feeds every pattern its current input)',
              SIG['rest']: 'player_times', SIG['pdur_dict']: 'pdur_total_duration', SIG['pdur_int']: 'pdur_total_duration',
              SIG['scale_key']: 'explicit_key_precedence', SIG['scale_tuning']: 'pitch_chain'}
HOW = ('harness/impl/c14_run.py builds the pattern/event with the real classes (sc3.init("nrt")), registers SynthDefs c14a '
       '(freq amp gate pan), c14b (freq amp pan cutoff), c14c (out freq sustain gate detune dur legato), plays it from a routine '
       'and lists the /s_new /n_set /n_free bundles of main.process(); values: I int, F float n/d, R Rest(n/d), S symbol')


def replay(ctx, rp):
    case = rp.get('replay', {}).get('case')
    if not case:
        print(json.dumps(rp, indent=1))
        return 0
    res = run_impl(ctx, [case])[0]
    v = violations(case, res)
    print(json.dumps({'case': case, 'observed': res, 'violations': v}, indent=1))
    return 1 if v else 0
