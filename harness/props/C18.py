"""C18 -- incoming messages reach exactly the responders that should fire."""
import json, os, socket, struct
import fw
from fw import Corr, Failure, cbool, cbytes

TITLE = 'Incoming messages reach exactly the responders that should fire'
TRANSLATED = []
MODEL_TARGETS = ['model/OscMatch.vo', 'model/OscBundleParse.vo', 'model/Dispatch.vo', 'model/DispatchExc.vo', 'model/Registry.vo']
ALLOWED_AXIOMS = []
TRUSTED = [
    "Python's re engine, by specification: re.fullmatch(p, s) <=> s is in the regular language of p, for the fragment the "
    "rewrite of _oscmatch.py can produce (model/OscMatch.v re_parse = hand transcription of re/_parser.py for that fragment)",
    'CPython dict insertion order, list.remove/index/append, bytes slicing rules (model/OscBundleParse.v pyslice), struct, UTF-8 decoder',
    'SystemClock runs the tasks scheduled by _msg_dispatch in scheduling order (C09/C08)',
    'harness/impl/c18_*.py: drives OscInterface._handle_request on a real RT process, logs invocations from the responder functions',
    'OSC 1.0 address-pattern semantics transcribed by hand (model/OscMatch.v osc_lang, harness/oracles/oscpattern.py)',
]
ASSUMES = [
    'responder functions and template callables may raise Exceptions: the property then only requires that later messages are still '
    'delivered (model/DispatchExc.v says what the code does with the message at hand); they do not touch OTHER responders',
    'function objects may be shared between responders (compared by tag); wrappers are distinct per responder (C18_shared_function.diff)',
    'template values are compared with Python == (0 == 0.0 == False); callables are taken by truthiness',
    'responders are not made permanent; callbacks run by CmdPeriod/ServerAction/NotificationCenter only unregister entries of their own registry',
    'cross-dispatcher order (exact vs matching dispatcher live in a set) is not part of the statement; histories that share functions or '
    'raise use one dispatcher kind',
]

LITS = 'abc/01'
METAS = '?*[]!-{,}'
IP1, IP2 = 2130706433, 2130706434      # 127.0.0.1, 127.0.0.2


# --------------------------------------------------------------------------------------------
# Coq printers
def zl(bs):
    return cbytes(bytes(bs))


def cs(s):
    return cbytes(s.encode('utf-8'))


def cval(e):
    k, v = e
    if k == 'i':
        return '(VInt %s)' % (v if int(v) >= 0 else '(%s)' % v)
    if k == 'f':
        return '(VFloat %s)' % v
    if k == 's':
        return '(VStr %s)' % zl(v)
    if k == 'b':
        return '(VBlob %s)' % zl(v)
    if k == 'm':
        return '(VMidi %s)' % zl(v)
    if k == 'B':
        return '(VBool %s)' % cbool(v)
    if k == 'a':
        return '(VArr [%s])' % '; '.join(cval(x) for x in v)
    return '(VInt 123456789123456789)'       # something the model never produces


def cmsg(m):
    return '{| m_addr := %s; m_args := [%s] |}' % (zl(m[0]), '; '.join(cval(x) for x in m[1]))


def ctime(t):
    return 'TNow' if t[0] == 'now' else '(TTag %s)' % t[1]


def copt(x, f):
    return 'None' if x is None else '(Some %s)' % f(x)


def ip_int(s):
    return struct.unpack('>I', socket.inet_aton(s))[0]


# --------------------------------------------------------------------------------------------
# own OSC encoder (independent of sc3) for the valid datagrams
def pad_str(b):
    return b + b'\0' * (4 - len(b) % 4)


def enc_msg(addr, args, comma=True, notags=False):
    """args: list of (tag, value).  -> (bytes, offsets of blob size fields)
    comma=False: type tag string without its leading ','; notags: address only"""
    if notags:
        return pad_str(addr.encode('utf-8')), []
    tags = ',' if comma else ''
    body = b''
    offs = []
    for t, v in args:
        tags += t
        if t == 'i':
            body += struct.pack('>i', v)
        elif t in 'rt' and t == 'r':
            body += struct.pack('>I', v)
        elif t == 't':
            body += struct.pack('>Q', v)
        elif t == 'f':
            body += struct.pack('>f', v)
        elif t == 'd':
            body += struct.pack('>d', v)
        elif t == 's':
            body += pad_str(v.encode('utf-8'))
        elif t == 'b':
            offs.append(len(body))
            body += struct.pack('>i', len(v)) + v + b'\0' * (-len(v) % 4)
        elif t == 'm':
            body += bytes(v)
    head = pad_str(addr.encode('utf-8')) + pad_str(tags.encode('utf-8'))
    return head + body, [len(head) + o for o in offs]


def enc_bundle(tt, elems):
    """elems: list of (bytes, offsets).  -> (bytes, size-field offsets, blob offsets)"""
    out = b'#bundle\0' + struct.pack('>Q', tt)
    sizes, blobs = [], []
    for b, (so, bo) in elems:
        sizes.append(len(out))
        base = len(out) + 4
        out += struct.pack('>i', len(b)) + b
        sizes += [base + o for o in so]
        blobs += [base + o for o in bo]
    return out, sizes, blobs


# --------------------------------------------------------------------------------------------
# (i) pattern / address pairs
def gen_pattern(rng):
    """a well-formed OSC 1.0 pattern text, one address it matches, and the tokens it denotes
    (a Coq `list otok` term) with a flag telling whether a meaningless '-' was written before a ']'"""
    p, a = '/', '/'
    toks, dash = ['OLit 47'], False
    for _ in range(rng.randint(0, 5)):
        k = rng.random()
        if k < 0.45:
            c = rng.choice(LITS)
            p += c
            a += c
            toks.append('OLit %d' % ord(c))
        elif k < 0.58:
            p += '?'
            a += rng.choice('abc01')
            toks.append('OAny')
        elif k < 0.71:
            p += '*'
            a += ''.join(rng.choice('abc01') for _ in range(rng.randint(0, 2)))
            toks.append('OStar')
        elif k < 0.86:
            neg = rng.random() < 0.4
            items, chars, its = '', [], []
            for _ in range(rng.randint(1, 2)):
                if rng.random() < 0.4:
                    lo, hi = sorted(rng.sample('abc', 2)) if rng.random() < 0.6 else ('0', '1')
                    items += lo + '-' + hi
                    chars += [chr(x) for x in range(ord(lo), ord(hi) + 1)]
                    its.append('(%d, %d)' % (ord(lo), ord(hi)))
                else:
                    c = rng.choice('abc01')
                    items += c
                    chars.append(c)
                    its.append('(%d, %d)' % (ord(c), ord(c)))
            if rng.random() < 0.15:
                items += '-'                      # "a-]" : trailing '-' discarded by the rewrite
                dash = True
            p += '[' + ('!' if neg else '') + items + ']'
            pool = [c for c in 'abc01' if (c not in chars) == neg]
            a += rng.choice(pool) if pool else 'z'
            toks.append('OClass %s [%s]' % (cbool(neg), '; '.join(its)))
        else:
            alts = [''.join(rng.choice('abc01') for _ in range(rng.randint(0, 2))) for _ in range(rng.randint(1, 3))]
            p += '{' + ','.join(alts) + '}'
            a += rng.choice(alts)
            toks.append('OAlt [%s]' % '; '.join(cs(w) for w in alts))
    return p, a, '(Some ([%s], %s))' % ('; '.join(toks), cbool(dash))


def mutate_addr(rng, a):
    k = rng.random()
    if k < 0.3 or len(a) < 2:
        return a
    if k < 0.45:
        return a[:-1]                             # one shorter
    if k < 0.6:
        return a + rng.choice(LITS)               # one longer (the F3 shape)
    if k < 0.75:
        return a[:-1] + rng.choice(LITS)          # last character differs
    if k < 0.85:
        i = rng.randrange(1, len(a))
        return a[:i] + '/' + a[i:]                # an extra part boundary
    if k < 0.93:
        i = rng.randrange(1, len(a))
        return a[:i] + rng.choice(LITS) + a[i + 1:]
    return '/' + ''.join(rng.choice(LITS) for _ in range(rng.randint(0, 5)))


def gen_pairs(rng, n):
    pairs = [['/a', '/ab'], ['/ab', '/a'], ['/a', '/a'], ['/*', '/a/b'], ['/?', '//'], ['/[!a]', '//'], ['/a*', '/a'],
             ['/{a,ab}', '/ab'], ['/{a,ab}c', '/abc'], ['/[a-]', '/a'], ['/[a-]', '/-'], ['/a,/b', '/b'], ['/[]a]', '/]'],
             ['/[a-c-e]', '/-'], ['/[c-a]', '/b'], ['/{a', '/a'], ['/a}', '/a'], ['/a]', '/a]'], ['/*/*', '/a/b'], ['/a**b', '/ab']]
    while len(pairs) < n:
        if rng.random() < 0.72:
            p, a, toks = gen_pattern(rng)
            a = mutate_addr(rng, a)
            pairs.append([p, a, toks])
            continue
        else:
            p = '/' + ''.join(rng.choice(LITS * 2 + METAS) for _ in range(rng.randint(0, 6)))
            a = '/' + ''.join(rng.choice(LITS) for _ in range(rng.randint(0, 5)))
            if rng.random() < 0.5 and len(p) > 1:
                a = ''.join(c for c in p if c in LITS)[:rng.randint(1, 6)] or '/'
        pairs.append([p, a])
    return pairs


def corr_pairs(ctx, c):
    pairs = gen_pairs(ctx.rng, ctx.n(2500, 40000))
    corpus = os.path.join(fw.VERIF, 'corpus', 'C18_pairs.json')
    if os.path.exists(corpus):
        pairs = json.load(open(corpus)) + pairs
    toks = [q[2] if len(q) > 2 else 'None' for q in pairs]
    pairs = [q[:2] for q in pairs]
    res = ctx.impl('c18_match', {'pairs': pairs})
    out = res['out']
    mr = {'T': 'MTrue', 'F': 'MFalse', 'E': 'MReError'}
    items = ['(%s, %s, %s, %s)' % (cs(p), cs(a), mr.get(o, 'MOutOfFuel'), tk) for (p, a), o, tk in zip(pairs, out, toks)]
    c.count('pairs:with-osc10-tokens', sum(1 for tk in toks if tk != 'None'))
    # besides model = implementation: for the generated well-formed texts the tokens are well-formed, render to
    # the text (unless a meaningless '-' was added) and the implementation's answer is membership in the
    # OSC 1.0 language of the tokens (decided through compile_correct / deriv_match_correct)
    hdr = ('From Coq Require Import ZArith List Bool. Import ListNotations.\n'
           'Require Import SC3.lib.PyNum SC3.model.OscMatch SC3.model.OscBundleParse.\nOpen Scope Z_scope.\n'
           'Definition spec_ok (p a : list Z) (impl : mres) (o : option (list otok * bool)) : bool :=\n'
           '  match o with None => true | Some (ts, dash) => forallb tok_ok ts && (dash || list_eqb Z.eqb (render ts) p)\n'
           '    && mres_eqb (if rmatch (compile ts) a then MTrue else MFalse) impl end.\n')
    body = ('Eval vm_compute in bad_idx (fun c => match c with (p, a, impl, o) => '
            'mres_eqb (osc_rematch p a) impl && spec_ok p a impl o end) cases.')
    bad, errs = fw.check_shards(ctx, 'pairs', hdr, items, body, shard=500)
    for (p, a), o in zip(pairs, out):
        c.count('pairs:' + o)
        if o == 'T' and any(ch in p for ch in '?*[{'):
            c.nontriv(('pair', p, a))
        if o == 'F' and len(a) > 1 and p[:2] == a[:2]:
            c.nontriv(('pair', p, a))
    for e in errs:
        c.failures.append(Failure('correspondence', 'coq evaluation of matcher cases failed: ' + e))
    for i in sorted(bad, key=lambda i: len(pairs[i][0]) + len(pairs[i][1]))[:4]:
        p, a = pairs[i]
        c.failures.append(Failure('correspondence',
                                  'matcher: model (repaired _oscmatch) and responders._match_osc_address_pattern disagree on '
                                  'pattern %r address %r: impl=%s' % (p, a, out[i]),
                                  replay={'kind': 'pair', 'pattern': p, 'address': a, 'impl': out[i]}))
    c.samples += [{'pattern': p, 'address': a, 'impl': o} for (p, a), o in list(zip(pairs, out))[20:23]]
    return pairs, out, len(pairs)


# --------------------------------------------------------------------------------------------
# (ii) responder histories through the real receive path
PATHS = ['/a', '/ab', '/a/b', '/b', 'a', '/abc', '/', '/a/', '']
ADDRS = ['/a', '/ab', '/a/b', '/b', '/abc', '/?', '/a*', '/{a,ab}', '/[ab]', '/*', '/a?', '/*/b', '/[!b]*', '/c',
         '/', '/a/', '/a/*', '/*/', '/{,a}', '/[a-]', '/[', '/{a', '/a}', '/[c-a]']
SRCS = [None, ['127.0.0.1', None], ['127.0.0.1', 9001], ['127.0.0.2', None], ['127.0.0.1', 0], ['0.0.0.0', None]]
SENDERS = [['127.0.0.1', 9001], ['127.0.0.1', 9002], ['127.0.0.2', 9001], ['127.0.0.1', 0], ['0.0.0.0', 9001]]
F0, FM0, F1 = str(0), str(1 << 63), str(0x3ff0000000000000)          # 0.0, -0.0, 1.0 as binary64 words
# argument templates: None = wildcard; 0 / 0.0 / False / '' must match only what equals them (Python ==);
# callables are taken by truthiness (ident returns the argument itself), may raise (gt5raw); [] and a scalar
TMPLS = [[['eq', ['i', '1']]], [None, ['eq', ['s', list(b'x')]]], [['pred', 'pos']],
         [['eq', ['i', '1']], ['eq', ['i', '2']]], [None, None], [['pred', 'isstr'], None],
         [['eq', ['i', '0']]], [['eq', ['f', F0]]], [['eq', ['f', FM0]]], [['eq', ['B', 0]]], [['eq', ['B', 1]]],
         [['eq', ['s', []]]], [['eq', ['f', F1]]], [], {'scalar': ['eq', ['i', '0']]}, {'scalar': None},
         [['pred', 'ident']], [None, ['pred', 'ident']], [['pred', 'gt5raw']], [['eq', ['i', '0']], None]]
ARGS = [[], [('i', 1)], [('i', 1), ('i', 2)], [('i', 2), ('s', 'x')], [('s', 'x')], [('i', -3)], [('i', 1), ('s', 'x')],
        [('i', 0)], [('f', 0.0)], [('f', -0.0)], [('F', None)], [('T', None)], [('s', '')], [('d', 1.0)], [('i', 7)],
        [('b', b'')], [('b', b'x')], [('i', 0), ('i', 0)], [('f', 1.0), ('s', '')]]


# signature shapes of responder callables -> how many of (msg, time, addr, port) they must receive
CAP = {'full': 4, 'n3': 3, 'n2': 2, 'n1': 1, 'n0': 0, 'posonly': 4, 'posonly2': 2, 'varargs': 4, 'mixed': 4, 'kwonly': 2,
       'kwargs': 1, 'defaults': 4, 'partial': 2, 'object': 3, 'method': 1, 'builtin': 1, 'partialv': 4}
# families of callables that share ONE Python class but differ in arity (functools.partial, bound methods, instances of one
# callable class): several members of a family are mixed in one history, in both orders
FAMILIES = {'partial': ['partial%d' % k for k in range(5)], 'method': ['method%d' % k for k in range(5)],
            'object': ['object%d' % k for k in range(5)]}
for _fam in FAMILIES.values():
    for _k, _sh in enumerate(_fam):
        CAP[_sh] = _k
KW_SHAPES = ('kwonly', 'kwargs')


def gen_history(rng, maxops):
    """shape: 'plain' (both dispatchers, fresh functions), 'share' (one dispatcher kind, function
    objects shared between responders), 'raise' (one dispatcher kind, some functions / template
    callables raise)"""
    ops, n, tag, used = [], 0, 0, []
    shape = rng.random()
    kind = 'plain' if rng.random() < 0.6 else rng.choice(['share', 'raise'])
    only = None if kind == 'plain' else (rng.random() < 0.5)
    shared_tags = []
    has_builtin = [False]
    fam_pick = FAMILIES[rng.choice(sorted(FAMILIES))]        # this history mixes members of one family

    def new_fn():
        nonlocal tag
        if kind == 'share' and rng.random() < 0.6:
            if shared_tags and rng.random() < 0.7:
                return {'tag': rng.choice(shared_tags), 'share': True}
            shared_tags.append(tag)
            tag += 1
            return {'tag': shared_tags[-1], 'share': True}
        tag += 1
        f = {'tag': tag - 1, 'raises': kind == 'raise' and rng.random() < 0.35}
        if not f['raises'] and rng.random() < 0.35:
            shapes = [x for x in CAP if x != 'full' and (x != 'builtin' or not has_builtin[0])]
            f['shape'] = rng.choice(fam_pick) if rng.random() < 0.5 else rng.choice(shapes)
            if f['shape'] == 'builtin':
                has_builtin[0] = True
        return f

    for _ in range(rng.randint(3, maxops)):
        k = rng.random()
        if n == 0 or k < 0.28:
            path = rng.choice(PATHS[:2]) if shape < 0.4 else rng.choice(PATHS if rng.random() < 0.9 else PATHS[-1:])
            matching = (rng.random() < 0.45) if only is None else only
            tm = None
            if rng.random() < 0.3:
                tm = rng.choice(TMPLS)
                if kind != 'raise' and tm == [['pred', 'gt5raw']]:
                    tm = [['pred', 'ident']]
            if kind == 'share' and rng.random() < 0.7:
                tm = None
            src = rng.choice(SRCS) if rng.random() < 0.2 else None
            rif = rng.choice([None, None, None, None, None, None, 0, 1, 'zero'])
            if src is not None and rng.random() < 0.5:
                rif = rng.choice([0, 0, 1, 'zero'])          # both filters: a different wrapper class
            ops.append(['create', path, matching, src, rif, tm, new_fn()])
            if path != '':
                used.append(path if path[0] == '/' else '/' + path)
                n += 1
        elif k < 0.36:
            ops.append(['disable', rng.randrange(n)])
        elif k < 0.43:
            ops.append(['enable', rng.randrange(n)])
        elif k < 0.52:
            ops.append(['one_shot', rng.randrange(n)])
        elif k < 0.57:
            ops.append(['free', rng.randrange(n)])
        elif k < 0.63:
            ops.append(['set_func', rng.randrange(n), new_fn()])
        elif k < 0.66:
            ops.append(['cmd_period'])
        else:
            addr = rng.choice(used) if (used and rng.random() < 0.65) else rng.choice(ADDRS[:5]) if rng.random() < 0.3 else rng.choice(ADDRS)
            if kind == 'raise' and any(c in addr for c in '{[') and addr not in ('/{a,ab}', '/[ab]', '/[!b]*', '/{,a}', '/[a-]'):
                addr = '/a'
            if rng.random() < 0.8:
                r = rng.random()
                d = enc_msg(addr, rng.choice(ARGS), comma=r > 0.06, notags=r > 0.94)[0]
            else:
                tt = rng.choice([0, 1, 2, (1 << 40) + rng.randrange(1 << 20), (1 << 41) + rng.randrange(1 << 20)])
                e1 = enc_msg(addr, rng.choice(ARGS))
                e2 = enc_msg(rng.choice(ADDRS[:5]), rng.choice(ARGS))
                inner = enc_bundle(rng.choice([0, 1, (1 << 40) + 5]), [(e2[0], ([], e2[1]))])
                elems = [(e1[0], ([], e1[1]))]
                if rng.random() < 0.6:
                    elems.append((inner[0], (inner[1], inner[2])))
                d = enc_bundle(tt, elems)[0]
            ops.append(['dgram', d.hex(), rng.choice(SENDERS), rng.choice([0, 0, 1])])
    return ops


def matrix_histories(rng):
    """Filter-combination matrix.  Which wrapper class guards a responder depends on the COMBINATION of its
    filters (none / src_id / recv_port / both, each with or without an argument template), so every
    combination of dispatcher kind x source filter x receive-port filter x template is created, and every
    group of responders gets messages from every sender on both interfaces, with arguments that pass and
    that fail the template: each single condition is seen accepting and rejecting while the others accept."""
    combos = [(m, src, rif, tm) for m in (False, True) for src in SRCS for rif in (None, 0, 1, 'zero')
              for tm in (None, [['eq', ['i', '1']]], [None, ['eq', ['s', list(b'x')]]])]
    rng.shuffle(combos)
    hs = []
    for g in range(0, len(combos), 8):
        ops = [['create', '/a', m, src, rif, tm, {'tag': k}] for k, (m, src, rif, tm) in enumerate(combos[g:g + 8])]
        for snd in SENDERS:
            for iface in (0, 1):
                ops.append(['dgram', enc_msg('/a', rng.choice([[('i', 1), ('s', 'x')], [('i', 1)], [('i', 2), ('s', 'x')], []]))[0].hex(), snd, iface])
        hs.append(ops)
    return hs


def shape_histories(rng):
    """every signature shape of a responder callable (fewer parameters, positional-only, *args, keyword-only,
    **kwargs, defaults, functools.partial, callable object, bound method, builtin bound method), on both
    dispatchers, plain / one_shot / after a function replacement / behind a filter wrapper"""
    hs = []
    shapes = list(CAP)
    for matching in (False, True):
        order = shapes[:]
        rng.shuffle(order)
        ops = [['create', '/a', matching, None, None, None, {'tag': k, 'shape': sh}] for k, sh in enumerate(order)]
        ops += [['dgram', enc_msg('/a', [('i', 1), ('s', 'x')])[0].hex(), SENDERS[0], 0]]
        ops += [['one_shot', k] for k in range(0, len(order), 2)]
        ops += [['dgram', enc_bundle((1 << 40) + 7, [(enc_msg('/a', [])[0], ([], []))])[0].hex(), SENDERS[1], 1]]
        ops += [['dgram', enc_msg('/a', [('i', 2)])[0].hex(), SENDERS[0], 0]]
        hs.append(ops)
        order2 = [x for x in shapes if x != 'builtin']
        rng.shuffle(order2)
        ops = [['create', '/a', matching, rng.choice([None, ['127.0.0.1', None]]), rng.choice([None, 0]), rng.choice([None, [None]]), {'tag': 0}]
               for _ in order2]
        ops += [['set_func', k, {'tag': 100 + k, 'shape': sh}] for k, sh in enumerate(order2)]
        ops += [['dgram', enc_msg('/a', [('i', 1)])[0].hex(), SENDERS[0], 0]]
        hs.append(ops)
    # same-class families, ascending and descending arity, then interleaved families
    for fam in FAMILIES.values():
        for order in (fam, fam[::-1]):
            ops = [['create', '/a', False, None, None, None, {'tag': k, 'shape': sh}] for k, sh in enumerate(order)]
            ops += [['dgram', enc_msg('/a', [('i', 1)])[0].hex(), SENDERS[0], 0], ['dgram', enc_msg('/a', [])[0].hex(), SENDERS[1], 1]]
            hs.append(ops)
    mixed = [sh for fam in FAMILIES.values() for sh in fam]
    rng.shuffle(mixed)
    ops = [['create', '/a', True, None, None, None, {'tag': k, 'shape': sh}] for k, sh in enumerate(mixed)]
    ops += [['dgram', enc_msg('/?', [('i', 1)])[0].hex(), SENDERS[0], 0]]
    hs.append(ops)
    return hs


def fn(tag, **kw):
    d = {'tag': tag}
    d.update(kw)
    return d


def hist_kind(h):
    fns = [op[6] for op in h if op[0] == 'create'] + [op[2] for op in h if op[0] == 'set_func']
    return {'share': any(f.get('share') for f in fns), 'raise': any(f.get('raises') for f in fns),
            'kw': any(f.get('shape') in KW_SHAPES for f in fns), 'shapes': {f['tag']: f.get('shape', 'full') for f in fns},
            'predx': any(isinstance(op[5], list) and ['pred', 'gt5raw'] in op[5] for op in h if op[0] == 'create')}


M_A1 = enc_msg('/a', [('i', 1)])[0].hex()
FIXED_HISTORIES = [
    # a one-shot responder followed by ordinary ones on the same path
    [['create', '/a', False, None, None, None, fn(0)], ['one_shot', 0], ['create', '/a', False, None, None, None, fn(1)],
     ['create', '/a', False, None, None, None, fn(2)], ['dgram', M_A1, SENDERS[0], 0], ['dgram', M_A1, SENDERS[0], 0]],
    # the same on the matching dispatcher
    [['create', '/a', True, None, None, None, fn(0)], ['one_shot', 0], ['create', '/a', True, None, None, None, fn(1)],
     ['dgram', enc_msg('/?', [])[0].hex(), SENDERS[0], 0]],
    # a template longer than the message, then an unfiltered responder
    [['create', '/a', False, None, None, [['eq', ['i', '1']], ['eq', ['i', '2']]], fn(0)], ['create', '/a', False, None, None, None, fn(1)],
     ['dgram', M_A1, SENDERS[0], 0], ['dgram', enc_msg('/a', [('i', 1), ('i', 2)])[0].hex(), SENDERS[0], 0]],
    # prefix: /a must not fire the matching responder /ab
    [['create', '/ab', True, None, None, None, fn(0)], ['create', '/a', True, None, None, None, fn(1)],
     ['dgram', enc_msg('/a', [])[0].hex(), SENDERS[0], 0], ['dgram', enc_msg('/a*', [])[0].hex(), SENDERS[0], 0]],
    # matching dispatcher: ONE registration order across paths
    [['create', '/a', True, None, None, None, fn(0)], ['create', '/b', True, None, None, None, fn(1)], ['create', '/a', True, None, None, None, fn(2)],
     ['dgram', enc_msg('/?', [])[0].hex(), SENDERS[0], 0], ['cmd_period'], ['dgram', enc_msg('/?', [])[0].hex(), SENDERS[0], 0]],
    # one function object in two responders, then function replacement / one_shot / disable on the second
    [['create', '/a', False, None, None, None, fn(0, share=True)], ['create', '/a', False, None, None, None, fn(0, share=True)],
     ['set_func', 1, fn(1)], ['dgram', M_A1, SENDERS[0], 0], ['one_shot', 0], ['dgram', M_A1, SENDERS[0], 0], ['dgram', M_A1, SENDERS[0], 0]],
    # template 0 is not a wildcard; re-enable goes to the end; replacement keeps the place
    [['create', '/a', False, None, None, [['eq', ['i', '0']]], fn(0)], ['create', '/a', False, None, None, None, fn(1)],
     ['create', '/a', False, None, 'zero', None, fn(2)], ['create', '/a', False, ['127.0.0.1', 0], None, None, fn(3)],
     ['dgram', enc_msg('/a', [('i', 5)])[0].hex(), SENDERS[0], 0], ['dgram', enc_msg('/a', [('i', 0)])[0].hex(), SENDERS[3], 0],
     ['disable', 0], ['enable', 0], ['set_func', 1, fn(4)], ['dgram', enc_msg('/a', [('F', None)])[0].hex(), SENDERS[3], 0]],
    # a raising responder between two others, then the next datagram
    [['create', '/a', False, None, None, None, fn(0)], ['create', '/a', False, None, None, None, fn(1, raises=True)], ['one_shot', 1],
     ['create', '/a', False, None, None, None, fn(2)], ['dgram', M_A1, SENDERS[0], 0], ['dgram', M_A1, SENDERS[0], 0]],
    # a raising template callable
    [['create', '/a', True, None, None, [['pred', 'gt5raw']], fn(0)], ['create', '/a', True, None, None, None, fn(1)],
     ['dgram', enc_msg('/a', [('s', 'x')])[0].hex(), SENDERS[0], 0], ['dgram', enc_msg('/a', [('i', 9)])[0].hex(), SENDERS[0], 0]],
    # '' is refused, '/' is a path
    [['create', '', False, None, None, None, fn(0)], ['create', '/', False, None, None, None, fn(1)],
     ['dgram', enc_msg('/', [], notags=True)[0].hex(), SENDERS[0], 0]],
]


def item_term(it):
    if it is None:
        return 'TAny'
    if it[0] == 'eq':
        return '(TEq %s)' % cval(it[1])
    return '(TPredX pred_gt5raw)' if it[1] == 'gt5raw' else '(TPred pred_%s)' % it[1]


def op_term(op, ports):
    k = op[0]
    if k == 'create':
        _, path, matching, src, rif, tmpl, f = op
        srct = copt(src, lambda s: '(%d, %s)' % (ip_int(s[0]), copt(s[1], str)))
        if isinstance(tmpl, dict):
            tm = '(Some [%s])' % item_term(tmpl['scalar'])
        else:
            tm = copt(tmpl, lambda t: '[%s]' % '; '.join(item_term(it) for it in t))
        return '(OpCreate %s %s %s %s %s %d%%nat)' % (cs(path), cbool(matching), srct,
                                                      copt(rif, lambda i: '0' if i == 'zero' else str(ports[i])), tm, f['tag'])
    if k in ('enable', 'disable', 'one_shot', 'free'):
        return '(Op%s %d%%nat)' % ({'enable': 'Enable', 'disable': 'Disable', 'one_shot': 'OneShot', 'free': 'Free'}[k], op[1])
    if k == 'set_func':
        return '(OpSetFunc %d%%nat %d%%nat)' % (op[1], op[2]['tag'])
    if k == 'cmd_period':
        return 'OpCmdPeriod'
    if k == 'dgram':
        return '(OpDatagram %s (%d, %d) %d)' % (cbytes(bytes.fromhex(op[1])), ip_int(op[2][0]), op[2][1], ports[op[3]])
    raise ValueError(op)


DUMMY_MSG = [[], []]


def inv_term(x):
    """(inv, number of leading arguments the callable received); fields not received are dummies"""
    if isinstance(x, str):       # HANG / RAISED / OPERROR / ARITY marker: never equal to a model invocation
        return '({| i_id := 99999%nat; i_tag := 0%nat; i_msg := {| m_addr := []; m_args := [] |}; i_time := TNow; i_src := (0, 0); i_port := 0 |}, 4%nat)'
    rid, tag, msg, t, sa, sp, rp, n = x
    return '({| i_id := %d%%nat; i_tag := %d%%nat; i_msg := %s; i_time := %s; i_src := (%d, %d); i_port := %d |}, %d%%nat)' % (
        rid, tag, cmsg(msg if n >= 1 else DUMMY_MSG), ctime(t) if n >= 2 else 'TNow', sa if n >= 3 else 0, sp if n >= 3 else 0,
        rp if n >= 4 else 0, n)


def state_term(st):
    tbl = lambda t: '[%s]' % '; '.join('(%s, [%s])' % (zl(k), '; '.join('%d%%nat' % i for i in ids)) for k, ids in t)
    nl = lambda l: '[%s]' % '; '.join('%d%%nat' % i for i in l)
    return '((%s, %s, %s, %s, %s, %s) : sstate)' % ('[%s]' % '; '.join(cbool(b) for b in st['en']), tbl(st['ex']), tbl(st['mt']),
                                                    nl(st['cp']), nl(st['we']), nl(st['wm']))


def raises_of(h):
    fns = [op[6] for op in h if op[0] == 'create'] + [op[2] for op in h if op[0] == 'set_func']
    return sorted(set(f['tag'] for f in fns if f.get('raises')))


RT_HEADER = '''From Coq Require Import ZArith List Bool. Import ListNotations.
Require Import SC3.lib.PyNum SC3.model.OscMatch SC3.model.OscBundleParse SC3.model.Dispatch SC3.model.DispatchExc.
Open Scope Z_scope.
Definition pred_pos (v : oval) : bool := match v with VInt z => 0 <? z | _ => false end.
Definition pred_isstr (v : oval) : bool := match v with VStr _ => true | _ => false end.
(* lambda x: x  -- taken by truthiness *)
Definition pred_ident (v : oval) : bool :=
  match v with
  | VInt z => negb (z =? 0) | VFloat w => negb ((w =? 0) || (w =? 9223372036854775808)) | VBool b => b
  | VStr l => negb (match l with [] => true | _ => false end) | VBlob l => negb (match l with [] => true | _ => false end)
  | VArr l => negb (match l with [] => true | _ => false end) | VMidi _ => true
  end.
(* lambda x: x > 5  -- TypeError (None) on str, bytes, tuple, list *)
Definition pred_gt5raw (v : oval) : option bool :=
  match v with
  | VInt z => Some (5 <? z)
  | VBool _ => Some false
  | VFloat w => match f64_parts w with
                | Some (m, e) => Some (if 0 <=? e then 5 <? m * 2 ^ e else 5 * 2 ^ (- e) <? m)
                | None => Some (w =? 9218868437227405312)            (* +inf; -inf and nan are not > 5 *)
                end
  | _ => None
  end.
(* the implementation reports float(timetag): round to 53 bits, ties to even *)
Definition round53 (n : Z) : Z :=
  let k := Z.log2 n - 52 in
  if k <=? 0 then n
  else let q := Z.shiftr n k in let r := n - Z.shiftl q k in let h := Z.shiftl 1 (k - 1) in
       Z.shiftl (if (h <? r) || ((r =? h) && Z.odd q) then q + 1 else q) k.
Definition time_agree (model impl : mtime) : bool :=
  match model, impl with TNow, TNow => true | TTag x, TTag y => round53 x =? y | _, _ => false end.
(* 77777 = the invocation came from a function object shared by several responders; n = how many of
   (msg, time, addr, port) the callable takes and received: only those are compared *)
Definition inv_agree (a : inv) (bn : inv * nat) : bool :=
  let b := fst bn in let n := snd bn in
  (Nat.eqb (i_id b) 77777 || Nat.eqb (i_id a) (i_id b)) && Nat.eqb (i_tag a) (i_tag b)
  && (Nat.ltb n 1 || omsg_eqb (i_msg a) (i_msg b)) && (Nat.ltb n 2 || time_agree (i_time a) (i_time b))
  && (Nat.ltb n 3 || ((fst (i_src a) =? fst (i_src b)) && (snd (i_src a) =? snd (i_src b)))) && (Nat.ltb n 4 || (i_port a =? i_port b)).
Fixpoint invs_agree (a : list inv) (b : list (inv * nat)) : bool :=
  match a, b with
  | [], [] => true
  | x :: a', y :: b' => inv_agree x y && invs_agree a' b'
  | _, _ => false
  end.
(* invocations of the two dispatchers may interleave either way in the implementation: compare per dispatcher *)
(* a history that shares function objects uses one dispatcher kind only: a wildcard id has the kind of responder 0 *)
Definition is_matching (st : dstate) (i : inv) : bool :=
  match nth_error (resps st) (if Nat.eqb (i_id i) 77777 then 0%nat else i_id i) with Some r => r_matching r | None => false end.
Definition split_d (st : dstate) (l : list inv) : list inv :=
  filter (fun i => negb (is_matching st i)) l ++ filter (is_matching st) l.
Definition split_d2 (st : dstate) (l : list (inv * nat)) : list (inv * nat) :=
  filter (fun i => negb (is_matching st (fst i))) l ++ filter (fun i => is_matching st (fst i)) l.
(* the dispatchers' tables, the enabled flags and CmdPeriod's registry after every operation *)
Definition sstate := (list bool * list (list Z * list nat) * list (list Z * list nat) * list nat * list nat * list nat)%type.
Definition tbl_agree (t : table) (e : list (list Z * list nat)) : bool :=
  list_eqb (fun a b => list_eqb Z.eqb (fst a) (fst b) && list_eqb Nat.eqb (snd a) (snd b))
           (map (fun kl => (fst kl, map w_id (snd kl))) t) e.
Definition state_agree (st : dstate) (e : sstate) : bool :=
  match e with (en, ex, mt, cp, we, wm) =>
    let kind (b : bool) := filter (fun id => match nth_error (resps st) id with Some r => Bool.eqb (r_matching r) b | None => false end) (cmdp st) in
    list_eqb Bool.eqb (map r_enabled (resps st)) en && tbl_agree (act_exact st) ex && tbl_agree (act_match st) mt
    && list_eqb Nat.eqb (cmdp st) cp
    (* each dispatcher's wrapped_funcs lists ITS responders in registration order (what the matching dispatcher walks) *)
    && list_eqb Nat.eqb (kind false) we && list_eqb Nat.eqb (kind true) wm end.
Fixpoint outs_agree (stepf : dstate -> op -> dstate * list inv) (st : dstate) (h : list op) (exp : list (list (inv * nat) * sstate)) : bool :=
  match h, exp with
  | [], [] => true
  | o :: h', (e, se) :: exp' =>
    let '(st', out) := stepf st o in
    invs_agree (split_d st' out) (split_d2 st' e) && state_agree st' se && outs_agree stepf st' h' exp'
  | _, _ => false
  end.
(* every history through the raising-callback model; a history without raising callbacks also through model/Dispatch.v *)
Definition hist_agree (c : list op * list nat * bool * list (list (inv * nat) * sstate)) : bool :=
  match c with (h, rs, calm, exp) =>
    outs_agree (step_x (fun tag => existsb (Nat.eqb tag) rs)) init_state h exp
    && (negb calm || outs_agree step init_state h exp) end.
Definition msgs_agree (model : presult) (impl : list (mtime * omsg)) : bool :=
  match model with
  | POk ms => list_eqb (fun u v => time_agree (fst u) (fst v) && omsg_eqb (snd u) (snd v)) ms impl
  | PError => match impl with [] => true | _ => false end
  | POutOfFuel => false
  end.
'''


# --------------------------------------------------------------------------------------------
# (iii) byte strings
def gen_valid_dgram(rng):
    def rand_args():
        a, depth = [], 0
        for _ in range(rng.randint(0, 5)):
            t = rng.choice('iifdsssbTF[mrtNI')
            if t == 'i':
                a.append(('i', rng.choice([0, 1, -1, 2 ** 31 - 1, -2 ** 31, rng.randint(-1000, 1000)])))
            elif t == 'f':
                a.append(('f', rng.choice([0.0, -0.0, 1.5, -2.25, 1e-40, 3.0e38, float('inf')])))
            elif t == 'd':
                a.append(('d', rng.choice([0.0, -0.0, -1.5, 1e300, 5e-324])))
            elif t == 's':
                a.append(('s', rng.choice(['', 'a', 'abc', 'abcd', 'abcdefg', 'éé', '/x'])))
            elif t == 'b':
                a.append(('b', bytes(rng.randrange(256) for _ in range(rng.choice([0, 0, 1, 3, 4, 5, 9])))))
            elif t == '[':
                a.append(('[', None))
                depth += 1
            elif t == 'm':
                a.append(('m', [rng.randrange(256) for _ in range(4)]))
            elif t == 'r':
                a.append(('r', rng.randrange(2 ** 32)))
            elif t == 't':
                a.append(('t', rng.randrange(2 ** 64)))
            else:
                a.append((t, None))
            if depth and rng.random() < 0.5:
                a.append((']', None))
                depth -= 1
        a += [(']', None)] * depth
        if rng.random() < 0.12:                      # unbalanced array brackets
            a.insert(rng.randint(0, len(a)), (rng.choice('[]'), None))
        return a

    def rand_msg():
        r = rng.random()
        return enc_msg(rng.choice(['/a', '/ab', '/abc', '/a/b', '/abcdefg', '/x*', '/', '/a/']), rand_args(),
                       comma=r > 0.08, notags=r > 0.95)

    def rand_bundle(depth):
        elems = []
        for _ in range(rng.randint(0, 3)):
            if depth < 5 and rng.random() < (0.3 if depth < 2 else 0.6):
                b = rand_bundle(depth + 1)
                elems.append((b[0], (b[1], b[2])))
            else:
                m = rand_msg()
                elems.append((m[0], ([], m[1])))
        tt = rng.choice([0, 1, 2, (1 << 40) + rng.randrange(100), (1 << 41), rng.randrange(1 << 53), rng.randrange(1 << 64)])
        return enc_bundle(tt, elems)

    if rng.random() < 0.35:
        m = rand_msg()
        return m[0], [], m[1]
    return rand_bundle(0)


def gen_dgram_case(rng):
    d, sizes, blobs = gen_valid_dgram(rng)
    k = rng.random()
    kind = 'valid'
    b = bytearray(d)
    if k < 0.18:
        pass
    elif k < 0.36 and len(b) > 1:
        kind = 'truncated'
        b = b[:rng.randrange(1, len(b))]
    elif k < 0.66 and (sizes or blobs):
        kind = 'length'
        off = rng.choice(sizes if (sizes and (not blobs or rng.random() < 0.7)) else blobs)
        old = struct.unpack('>i', bytes(b[off:off + 4]))[0]
        rem = len(b) - (off + 4)                      # bytes after this size field
        new = rng.choice([-4, -8, -1, -old, -old - 4, -2 ** 31, old + 4, old + 400, old + 1, old - 1, old + 2, 2 ** 31 - 1, 0, old - 4,
                          -12, -16, -20, -(off + 4), -(off + 8), rem - 4, rem, rem + 4, rem + 1, len(b), len(b) - 4, off, off + 4])
        b[off:off + 4] = struct.pack('>i', max(-2 ** 31, min(2 ** 31 - 1, new)))
        kind = 'length:' + ('negative' if new < 0 else 'oversized' if new > rem else 'other')
    elif k < 0.76:
        kind = 'tags'
        i = bytes(b).find(b',')
        if i >= 0:
            j = i + 1
            while j < len(b) and b[j] != 0:
                if rng.random() < 0.4:
                    b[j] = ord(rng.choice('[]ifsbdTFx'))
                j += 1
    elif k < 0.86 and len(b) > 0:
        kind = 'flip'
        for _ in range(rng.randint(1, 3)):
            b[rng.randrange(len(b))] = rng.choice([0, 0xff, 0x80, 0xc3, 0x2f, 0x23, rng.randrange(256)])
    elif k < 0.93:
        kind = 'utf8'
        i = rng.randrange(len(b)) if b else 0
        if b:
            b[i] = rng.choice([0x80, 0xc0, 0xe0, 0xf5, 0xff, 0xed])
    else:
        kind = 'random'
        b = bytearray(rng.choice([b'', b'#bundle\0', b'/', b'#bundle\0' + b'\0' * 8, b'/a\0\0,i\0\0', b'\0\0\0\0'])
                      + bytes(rng.randrange(256) for _ in range(rng.randint(0, 12))))
    return {'hex': bytes(b).hex(), 'src': ['127.0.0.1', 9001], 'kind': kind}


FIXED_DGRAMS = [
    (b'#bundle\0' + struct.pack('>Q', 1) + struct.pack('>i', -4), 'length:negative'),
    (b'#bundle\0' + struct.pack('>Q', 1) + struct.pack('>i', 416) + enc_msg('/m', [('i', 7)])[0], 'length:oversized'),
    (b'#bundle\0' + struct.pack('>Q', 1) + struct.pack('>i', 12) + enc_msg('/m', [('i', 7)])[0] + struct.pack('>i', -20), 'length:negative'),
    (b'#bundle\0' + struct.pack('>Q', 1 << 40) + struct.pack('>i', 12) + enc_msg('/m', [('i', 7)])[0], 'valid'),
    (b'', 'random'), (b'#bundle\0', 'truncated'),
]
# every length 0..20 of three valid datagrams
for _d in (enc_msg('/ab', [('i', 1), ('s', 'xy')])[0], enc_bundle(2, [(enc_msg('/a', [])[0], ([], []))])[0],
           enc_bundle(1, [(enc_bundle(2, [])[0], ([], [])), (enc_msg('/a', [('T', None)])[0], ([], []))])[0]):
    FIXED_DGRAMS += [(_d[:_n], 'truncated') for _n in range(0, 21)]
# nesting depth 0..5
_d = enc_msg('/deep', [('i', 5)])[0]
for _n in range(6):
    FIXED_DGRAMS.append((_d, 'valid'))
    _d = enc_bundle(3 + _n, [(_d, ([], []))])[0]


def msgs_term(out):
    return '[%s]' % '; '.join('(%s, %s)' % (ctime(x[1]), cmsg(x[0])) for x in out)


# --------------------------------------------------------------------------------------------
# (iv) registries
def gen_reg_history(rng, n):
    ops = []
    removes = {}
    for a in range(1, 6):
        if rng.random() < 0.3:
            removes[a] = sorted(set(rng.choice([a, a, rng.randint(1, 5)]) for _ in range(rng.randint(1, 2))))
    skeys = [['srv', 0], ['srv', 1], ['srv', 2], 'default', 'all']
    for _ in range(n):
        k = rng.random()
        if k < 0.16:
            ops.append(['sa_add', rng.randint(1, 5), rng.randint(0, 9)])
        elif k < 0.24:
            ops.append(['sa_remove', rng.randint(1, 5)])
        elif k < 0.26:
            ops.append(['sa_remove_all'])
        elif k < 0.36:
            ops.append(['sa_run'])
        elif k < 0.52:
            ops.append(['sv_add', rng.choice(skeys), rng.randint(1, 5), rng.randint(0, 9)])
        elif k < 0.62:
            ops.append(['sv_remove', rng.choice(skeys), rng.randint(1, 5)])
        elif k < 0.64:
            ops.append(['sv_remove_server', rng.choice(skeys)])
        elif k < 0.74:
            ops.append(['sv_run', rng.randint(0, 2)])
        elif k < 0.86:
            ops.append(['nc_register', rng.randint(1, 2), rng.randint(1, 2), rng.randint(1, 4), rng.randint(1, 9)])
        elif k < 0.90:
            ops.append(['nc_unregister', rng.randint(1, 2), rng.randint(1, 2), rng.randint(1, 4)])
        elif k < 0.93:
            ops.append(['nc_unregister_msg', rng.randint(1, 2), rng.randint(1, 2)] if rng.random() < 0.7 else ['nc_unregister_obj', rng.randint(1, 2)])
        else:
            ops.append(['nc_notify', rng.randint(1, 2), rng.randint(1, 2)])
    return {'ops': ops, 'removes': {str(k): v for k, v in removes.items()}}


def exhaustive_reg_histories(thorough):
    """Small-scope exhaustive: EVERY operation sequence up to a small length over a small alphabet, per
    registry, each followed by the observations (run / notify of everything).  Complements the random
    mixed histories, where a particular 3-step interaction inside one registry is rare."""
    import itertools
    out = []
    # NotificationCenter: one object, two message names, two listeners
    nc = [['nc_register', 1, m, l, 2 * m + l] for m in (1, 2) for l in (1, 2)] + \
         [['nc_unregister', 1, m, l] for m in (1, 2) for l in (1, 2)] + \
         [['nc_unregister_msg', 1, m] for m in (1, 2)] + [['nc_unregister_obj', 1]]
    tail = [['nc_notify', 1, 1], ['nc_notify', 1, 2]]
    for seq in itertools.product(nc, repeat=4 if thorough else 3):
        out.append({'ops': [list(o) for o in seq] + tail, 'removes': {}})
    # SystemAction: two actions, with and without actions that unregister others while running
    sa = [['sa_add', 1, 0], ['sa_add', 1, 1], ['sa_add', 2, 0], ['sa_remove', 1], ['sa_remove', 2], ['sa_remove_all'], ['sa_run']]
    for rem in ({}, {'1': [2], '2': [2]}):
        for seq in itertools.product(sa, repeat=4 if thorough else 3):
            out.append({'ops': [list(o) for o in seq] + [['sa_run']], 'removes': rem})
    # ServerAction: the default server, another server, 'default', 'all'; two actions
    keys = [['srv', 0], ['srv', 1], 'default', 'all']
    sv = [['sv_add', k, a, a] for k in keys for a in (1, 2)] + [['sv_remove', k, 1] for k in keys] + [['sv_remove_server', k] for k in keys]
    tail = [['sv_run', 0], ['sv_run', 1]]
    for seq in itertools.product(sv, repeat=3 if thorough else 2):
        out.append({'ops': [list(o) for o in seq] + tail, 'removes': {}})
    sv3 = [['sv_add', k, a, a] for k in (['srv', 0], 'default', 'all') for a in (1, 2)] + \
          [['sv_remove', k, 1] for k in (['srv', 0], 'default', 'all')] + [['sv_remove_server', 'all']]
    for seq in itertools.product(sv3, repeat=3):
        out.append({'ops': [list(o) for o in seq] + tail, 'removes': {}})
    return out


def rop_term(op):
    def sk(k):
        return 'KDefault' if k == 'default' else 'KAll' if k == 'all' else '(KServer %d)' % k[1]
    k = op[0]
    if k == 'sa_add':
        return '(SaAdd %d %d)' % (op[1], op[2])
    if k == 'sa_remove':
        return '(SaRemove %d)' % op[1]
    if k == 'sa_remove_all':
        return 'SaRemoveAll'
    if k == 'sa_run':
        return 'SaRun'
    if k == 'sv_add':
        return '(SvAdd %s %d %d)' % (sk(op[1]), op[2], op[3])
    if k == 'sv_remove':
        return '(SvRemove %s %d)' % (sk(op[1]), op[2])
    if k == 'sv_remove_server':
        return '(SvRemoveServer %s)' % sk(op[1])
    if k == 'sv_run':
        return '(SvRun %d %s)' % (op[1], cbool(op[1] == 0))
    if k == 'nc_register':
        return '(NcRegister %d %d %d %d)' % tuple(op[1:])
    if k == 'nc_unregister':
        return '(NcUnregister %d %d %d)' % tuple(op[1:])
    if k == 'nc_notify':
        return '(NcNotify %d %d)' % tuple(op[1:])
    if k == 'nc_unregister_msg':
        return '(NcUnregisterMsg %d %d)' % tuple(op[1:])
    if k == 'nc_unregister_obj':
        return '(NcUnregisterObj %d)' % op[1]
    raise ValueError(op)


def corr_registry(ctx, c):
    hs = [gen_reg_history(ctx.rng, ctx.rng.randint(4, 30)) for _ in range(ctx.n(240, 3000))] + exhaustive_reg_histories(not ctx.quick)
    hs.insert(0, {'ops': [['sv_add', ['srv', 1], 1, 5], ['sv_add', ['srv', 1], 2, 6], ['sv_remove', ['srv', 1], 1], ['sv_run', 1]], 'removes': {}})
    hs.insert(1, {'ops': [['sa_add', 1, 1], ['sa_add', 2, 2], ['sa_add', 3, 3], ['sa_add', 1, 9], ['sa_run'], ['sa_run']], 'removes': {'1': [2], '3': [3]}})
    out = ctx.impl('c18_registry', {'histories': hs})['out']
    items = []
    for h, o in zip(hs, out):
        rm = h['removes']
        remf = '(fun a : nat => %s ([] : list nat))' % ''.join('if Nat.eqb a %s then [%s] else ' % (k, '; '.join(map(str, v))) for k, v in sorted(rm.items()))
        exp = '[%s]' % '; '.join('[%s]' % '; '.join('(%d, %d)' % (x[0], x[1]) if isinstance(x[1], int) and x[0] >= 0 else '(77777, 0)' for x in lg) for lg in o)
        items.append('(%s, [%s], (%s : list (list (nat * nat))))' % (remf, '; '.join(rop_term(op) for op in h['ops']), exp))
        for op in h['ops']:
            c.count('registry-op:' + op[0])
        if any(len(lg) >= 2 for lg in o) and len(h['ops']) > 6:
            c.nontriv(('reg', json.dumps(h, sort_keys=True)))
    hdr = ('From Coq Require Import List Arith. Import ListNotations.\n'
           'Require Import SC3.lib.PyNum SC3.model.Registry.\n')
    body = 'Eval vm_compute in bad_idx (fun c => logs_eqb (rrun (fst (fst c)) rinit (snd (fst c))) (snd c)) cases.'
    bad, errs = fw.check_shards(ctx, 'reg', hdr, items, body, shard=300)
    for e in errs:
        c.failures.append(Failure('correspondence', 'coq evaluation of registry cases failed: ' + e))
    for i in sorted(bad, key=lambda i: len(hs[i]['ops']))[:3]:
        c.failures.append(Failure('correspondence', 'registries: model and implementation disagree on history %s: impl logs %s' % (
            json.dumps(hs[i]), json.dumps(out[i])), replay={'kind': 'registry', 'history': hs[i], 'impl': out[i]}))
    c.samples.append({'registry_history': hs[1], 'impl': out[1]})
    return len(hs)


# --------------------------------------------------------------------------------------------
def free_port_base(rng):
    for _ in range(200):
        base = 20000 + rng.randrange(0, 3500) * 10
        ok = True
        socks = []
        try:
            for p in range(base, base + 8):
                s = socket.socket(socket.AF_INET, socket.SOCK_DGRAM)
                socks.append(s)
                s.bind(('127.0.0.1', p))
        except OSError:
            ok = False
        for s in socks:
            s.close()
        if ok:
            return base
    raise RuntimeError('no free port range')


def corr_rt(ctx, c):
    rng = ctx.rng
    hists = list(FIXED_HISTORIES) + matrix_histories(rng) + shape_histories(rng) + [gen_history(rng, rng.choice([8, 14, 22])) for _ in range(ctx.n(230, 3000))]
    corpus = os.path.join(fw.VERIF, 'corpus', 'C18_histories.json')
    if os.path.exists(corpus):
        hists = json.load(open(corpus)) + hists
    dcases = [{'hex': d.hex(), 'src': ['127.0.0.1', 9001], 'kind': k} for d, k in FIXED_DGRAMS]
    dcases += [gen_dgram_case(rng) for _ in range(ctx.n(420, 6000))]
    corpus = os.path.join(fw.VERIF, 'corpus', 'C18_dgrams.json')
    if os.path.exists(corpus):
        dcases = json.load(open(corpus)) + dcases
    udp = [dc for dc in dcases if dc['kind'] == 'valid'][:4] + [dc for dc in dcases if dc['kind'].startswith('length')][:6] \
        + [dc for dc in dcases if dc['kind'] == 'truncated'][:3]
    base = free_port_base(rng)
    res = ctx.impl('c18_rt', {'port': base, 'histories': hists, 'dgrams': dcases, 'udp': udp, 'watchdog': 0.3, 'probes': True},
                   mode='rt', timeout=ctx.n(170, 800))
    ports = res['ports']
    pr = res['probes']
    # fixed probes (class 2 / 4): signatured findings with the input as replay
    shared_defect = pr['shared_replace'] != ['F', 'G']
    if shared_defect:
        c.failures.append(Failure('correspondence', "two responders on '/c18p' created with the SAME function object F, then r1.func = G: "
                                  'the message invokes %s, registration order demands [F, G] (list.index finds the first equal entry: '
                                  "the replacement lands in the other responder's place)" % pr['shared_replace'],
                                  signature='C18:shared-function-replace-order', found_input=True, theorem='dispatch_exact',
                                  replay={'kind': 'probe', 'probe': 'shared_replace', 'impl': pr['shared_replace'],
                                          'how': "r0 = OscFunc(F, '/p'); r1 = OscFunc(F, '/p'); r1.func = G; send '/p'"}))
    kw_defect = pr['signatures'] != [['kwonly', 2], ['kwargs', 1], ['last', 1]]
    if kw_defect:
        c.failures.append(Failure('correspondence', "responders on one path with functions `def f(msg, time, *, flag=True)`, `def g(msg, **kw)`, `def h(msg)`: "
                                  'a message invokes %s, expected all three with their leading arguments (functions.value passes as many positional '
                                  'arguments as the callable has parameters of ANY kind: TypeError in the dispatch, the later responders are skipped)' % pr['signatures'],
                                  signature='C18:callable-keyword-only-parameters', found_input=True, theorem='dispatch_exact',
                                  replay={'kind': 'probe', 'probe': 'signatures', 'impl': pr['signatures'],
                                          'how': "OscFunc(lambda msg, time, *, flag=True: ..., '/p'); send '/p'"}))
    order_defect = pr['matching_order'] != [0, 1, 2]
    if order_defect:
        c.failures.append(Failure('correspondence', "matching responders 0 ('/c18a'), 1 ('/c18b'), 2 ('/c18a') in this order; the message '/c18?' invokes %s, "
                                  'registration order demands [0, 1, 2]: the matching dispatcher walks its table path by path' % pr['matching_order'],
                                  signature='C18:matching_order_grouped_by_path', found_input=True, theorem='dispatch_matching',
                                  replay={'kind': 'probe', 'probe': 'matching_order', 'impl': pr['matching_order'],
                                          'how': "OscFunc.matching(f0, '/a'); OscFunc.matching(f1, '/b'); OscFunc.matching(f2, '/a'); send '/?'",
                                          'witness': 'matching_global_order_refuted (coq/props/C18.v)'}))
    ex, aex, bx, abx = pr['exception'], pr['after_exception'], pr['baseexception'], pr['after_baseexception']
    c.notes.append('responders a, b, c on one path, b raises ValueError: invoked %s (the exception ends the clock task of that message); next '
                   'message invokes %s' % (ex['log'], aex['log']))
    if aex['log'] != ['a', 'b', 'c'] or aex['raised'] or ex['raised'] or ex['in_awake_call']:
        c.failures.append(Failure('correspondence', 'after a responder raised ValueError the next message invokes %s (raised=%s, '
                                  '_in_awake_call left %s), expected [a, b, c]' % (aex['log'], aex['raised'], ex['in_awake_call']),
                                  signature='C18:callback-exception-breaks-dispatch', found_input=True, theorem='receiver_survives',
                                  replay={'kind': 'probe', 'probe': 'exception', 'impl': [ex, aex]}))
    # outside the property (coordinator's decision; C08 owns clock survival and reads "exception" as Exception
    # subclasses): a callback raising a BaseException that is not an Exception ends the SystemClock thread
    # like any Python thread.  Observed and recorded, never a failure.
    if abx['log'] != ['a', 'b', 'c'] or abx['raised'] or bx['raised']:
        text = ('observation, not required by C18: a responder function raising a non-Exception BaseException (e.g. sys.exit()) ends the '
                'SystemClock thread; invoked %s, the next message then invokes %s (%s)' % (bx['log'], abx['log'], abx['raised']))
        c.notes.append(text)
        c.known_demonstrated.append(('C18:callback-baseexception-kills-dispatch', text))
    def check_histories(hists, res, ports, name):
        # (ii)
        items = []
        for h, o in zip(hists, res['histories']):
            hk = hist_kind(h)
            exp = []
            for op, r in zip(h, o):
                lg = r['log']
                if op[0] == 'create' and op[1] == '' and lg == ['OPERROR:IndexError']:
                    lg = []                                   # path[0] on '' : refused, as the model says
                lg = [x if isinstance(x, str) or x[7] == CAP[hk['shapes'].get(x[1], 'full')] else
                      'ARITY: %s callable received %d of (msg, time, addr, port), it takes %d' % (hk['shapes'].get(x[1]), x[7], CAP[hk['shapes'].get(x[1], 'full')])
                      for x in lg]
                exp.append('(([%s] : list (inv * nat)), %s)' % ('; '.join(inv_term(x) for x in lg), state_term(r['state'])))
            calm = not (hk['raise'] or hk['predx'])
            items.append('([%s], ([%s] : list nat), %s, [%s])' % ('; '.join(op_term(op, ports) for op in h),
                                                                    '; '.join('%d%%nat' % t for t in raises_of(h)), cbool(calm), '; '.join(exp)))
            for op in h:
                c.count('history-op:' + op[0])
            c.count('history-kind:' + ('share' if hk['share'] else 'raise' if (hk['raise'] or hk['predx']) else 'plain'))
            ninv = sum(len([x for x in r['log'] if not isinstance(x, str)]) for r in o)
            c.count('history-invocations', ninv)
            if ninv >= 1:
                c.nontriv(('hist', json.dumps(h)))
        body = 'Eval vm_compute in bad_idx hist_agree cases.'
        bad, errs = fw.check_shards(ctx, name, RT_HEADER, items, body, shard=12)
        for e in errs:
            c.failures.append(Failure('correspondence', 'coq evaluation of responder histories failed: ' + e))
        shown = 0
        for i in sorted(bad, key=lambda i: len(hists[i])):
            share = hist_kind(hists[i])['share']
            if share and shared_defect:
                c.count('history-mismatch-explained-by:C18:shared-function-replace-order')
                continue
            if kw_defect and hist_kind(hists[i])['kw']:
                c.count('history-mismatch-explained-by:C18:callable-keyword-only-parameters')
                continue
            mpaths = set((op[1] if op[1].startswith('/') else '/' + op[1]) for op in hists[i] if op[0] == 'create' and op[2] and op[1])
            if order_defect and len(mpaths) >= 2:
                c.count('history-mismatch-explained-by:C18:matching_order_grouped_by_path')
                continue
            if shown >= 4:
                break
            shown += 1
            c.failures.append(Failure('correspondence', 'responder history: model and implementation disagree (invocations, dispatcher tables, enabled '
                                      'flags or CmdPeriod registry); ops=%s impl=%s' % (json.dumps(hists[i]), json.dumps(
                                          [{'log': [x if isinstance(x, str) else x[:2] + [x[7]] for x in r['log']], 'state': r['state']} for r in res['histories'][i]])),
                                      replay={'kind': 'history', 'ops': hists[i], 'impl': res['histories'][i], 'ports': ports}))
        left = [(i, l) for i, l in enumerate(res['leftover']) if l != [0, 0]]
        if left:
            i, l = left[0]
            c.failures.append(Failure('correspondence', 'after free() of every responder of a history the dispatchers still hold %s extra paths '
                                      '(exact, matching): ops=%s' % (l, json.dumps(hists[i])), found_input=True, theorem='disabled_freed_oneshot_never',
                                      replay={'kind': 'history', 'ops': hists[i], 'impl': res['histories'][i], 'ports': ports, 'leftover': l}))
    def check_binding(r, first, busy):
        """two sites: the port an interface REPORTS (handed to every responder, NetAddr.lang_port) vs the port its socket is bound to"""
        rep = r['reported']
        if rep['iface_ports'] != r['ports'] or rep['lang_port'] != r['ports'][0] or r['ports'][0] != first + busy or \
                sorted(r['ports']) != [p for p in rep['endpoints'] if p in r['ports']] or (busy and r['busy_open'] != 'OSError'):
            c.failures.append(Failure('correspondence', 'library range starting at %d with its first %d port(s) in use: sockets bound to %s, the interfaces '
                                      'report %s, NetAddr.lang_port() %s, registered endpoints %s, opening a busy extra port: %s -- every responder is handed '
                                      'the reported port and recv_port filters compare with it' % (first, busy, r['ports'], rep['iface_ports'], rep['lang_port'],
                                                                                                   rep['endpoints'], r['busy_open']),
                                      found_input=True, theorem='dispatch_exact (port passed unchanged)',
                                      replay={'kind': 'binding', 'first_port': first, 'busy': busy, 'bound': r['ports'], 'reported': rep,
                                              'how': 'hold UDP sockets on the first ports of LIB_PORT..LIB_PORT+LIB_PORT_RANGE, then sc3.init("rt")'}))

    check_histories(hists, res, ports, 'hist')
    check_binding(res, base, 0)
    # the same receive path under NON-DEFAULT BINDING: the first two ports of the library's range are busy, the interface
    # falls back to a later one; responders, filters and the model use the port the sockets are really bound to
    base2 = free_port_base(rng)
    hists2 = FIXED_HISTORIES[:3] + matrix_histories(rng)[:5] + [gen_history(rng, 10) for _ in range(ctx.n(12, 200))]
    udp2 = [dc for dc in dcases if dc['kind'] == 'valid'][:3]
    res2 = ctx.impl('c18_rt', {'port': base2, 'busy': 2, 'histories': hists2, 'dgrams': dcases[:12], 'udp': udp2, 'watchdog': 0.3},
                    mode='rt', timeout=ctx.n(120, 500))
    check_histories(hists2, res2, res2['ports'], 'hist_busy')
    check_binding(res2, base2, 2)
    for dc, o in zip(dcases[:12], res2['dgrams']):
        if o['hang'] or o['raised'] or not o['alive']:
            c.failures.append(Failure('correspondence', 'busy-port configuration: datagram %s: hang=%s raised=%s; the following valid datagram was delivered '
                                      'with the right sender and the port it arrived on: %s' % (dc['hex'], o['hang'], o['raised'], o['alive']),
                                      replay={'kind': 'dgram', 'case': dc, 'impl': o, 'busy': 2}))
            break
    for dc, o in zip(udp2, res2['udp']):
        if o.get('skipped'):
            continue
        if not o['alive'] or any(x[3] != res2['ports'][0] for x in o['out']):
            c.failures.append(Failure('correspondence', 'busy-port configuration, UDP loopback to the port the socket is bound to (%d): receiver alive=%s, '
                                      'messages delivered with ports %s' % (res2['ports'][0], o['alive'], [x[3] for x in o['out']]), found_input=True,
                                      theorem='dispatch_exact (port passed unchanged)', replay={'kind': 'udp', 'case': dc, 'impl': o, 'busy': 2}))
            break
    c.count('busy-port-histories', len(hists2))
    c.count('cross-dispatcher-order:' + '>'.join(res.get('order', [])))
    c.notes.append('cross-dispatcher order observed for one message (exact vs matching dispatcher, both live in a set): %s' % res.get('order'))
    # (iii)
    items = []
    for dc, o in zip(dcases, res['dgrams']):
        ok_flags = (not o['hang']) and (not o['raised']) and o['alive']
        items.append('(%s, %s, %s)' % (cbytes(bytes.fromhex(dc['hex'])), msgs_term(o['out']), cbool(ok_flags)))
        c.count('dgram:' + dc['kind'])
        c.count('dgram-outcome:' + ('hang' if o['hang'] else 'raised' if o['raised'] else 'dead-after' if not o['alive']
                                    else 'dispatched' if o['out'] else 'nothing'))
        if o['out']:
            c.nontriv(('dgram', dc['hex']))
    body = 'Eval vm_compute in bad_idx (fun c => msgs_agree (parse_packet (fst (fst c))) (snd (fst c)) && snd c) cases.'
    bad, errs = fw.check_shards(ctx, 'dgram', RT_HEADER, items, body, shard=120)
    for e in errs:
        c.failures.append(Failure('correspondence', 'coq evaluation of datagram cases failed: ' + e))
    for i in sorted(bad, key=lambda i: len(dcases[i]['hex']))[:4]:
        o = res['dgrams'][i]
        c.failures.append(Failure('correspondence', 'datagram %s (%s): receive path and model disagree: hang=%s raised=%s next-datagram-delivered=%s dispatched=%s' % (
            dcases[i]['hex'], dcases[i]['kind'], o['hang'], o['raised'], o['alive'], json.dumps(o['out'])),
            replay={'kind': 'dgram', 'case': dcases[i], 'impl': o}))
    # UDP subset: real socket, real receive thread
    direct = {dc['hex']: o for dc, o in zip(dcases, res['dgrams'])}
    for dc, o in zip(udp, res['udp']):
        c.count('udp:' + ('skipped' if o.get('skipped') else 'alive' if o['alive'] else 'receiver-dead'))
        if o.get('skipped'):
            continue
        want = [x[0] for x in direct[dc['hex']]['out']]
        got = [x[0] for x in o['out']]
        if not o['alive'] or got != want:
            c.failures.append(Failure('correspondence', 'UDP loopback: datagram %s (%s): receiver alive=%s, messages %s, expected (direct call) %s' % (
                dc['hex'], dc['kind'], o['alive'], json.dumps(got), json.dumps(want)),
                replay={'kind': 'udp', 'case': dc, 'impl': o}))
    c.samples.append({'history': hists[len(FIXED_HISTORIES)][:6], 'impl': res['histories'][len(FIXED_HISTORIES)][:6]})
    c.samples.append({'datagram': dcases[8], 'impl': res['dgrams'][8]})
    return len(hists) + len(dcases) + len(udp)


def correspond(ctx):
    c = Corr()
    n = 0
    # each part on its own: a runner that dies (e.g. the library cannot even initialise) must not hide the others
    for part in (lambda: corr_pairs(ctx, c)[2], lambda: corr_registry(ctx, c), lambda: corr_rt(ctx, c)):
        try:
            n += part()
        except fw.ImplError as e:
            c.failures.append(Failure('correspondence', 'implementation runner failed: %s' % str(e)[-1500:], replay={'error': str(e)[-3000:]}))
    c.evaluations = n
    c.rule = ('(i) pattern/address pairs against responders._match_osc_address_pattern (T/F/re.error), non-trivial = a match through a '
              'metacharacter or a non-match sharing a prefix; (ii) responder histories (create enable disable one_shot free set_func '
              'CmdPeriod datagrams) driven through OscInterface._handle_request on a real RT process, every invocation compared '
              '(responder, function, message, time, sender, port), non-trivial = at least one invocation; (iii) valid datagrams mutated '
              '(truncation, element/blob size corruption, tags, bytes, UTF-8) through the same path under a watchdog, each followed by a '
              'valid datagram, parsed messages compared with model/OscBundleParse.v, non-trivial = something dispatched; (iv) registry '
              'histories on SystemAction/CmdPeriod, ServerAction, NotificationCenter, non-trivial = a run calling >= 2 actions')
    return c


# --------------------------------------------------------------------------------------------
# search: look for a concrete failing input of the PROPERTY on the implementation, with oracles that do
# not share code with the model
def search(ctx, failures):
    from oracles import oscpattern
    found = []
    # matcher against the direct recursive OSC 1.0 matcher
    pairs = [q[:2] for q in gen_pairs(ctx.rng, ctx.n(3000, 30000))]
    for f in failures:
        if f.replay.get('kind') == 'pair':
            pairs.insert(0, [f.replay['pattern'], f.replay['address']])
    out = ctx.impl('c18_match', {'pairs': pairs})['out']
    best = {}
    for (p, a), o in zip(pairs, out):
        want = oscpattern.osc_match(p, a)
        if want is None or o not in 'TF' or (o == 'T') == want:
            continue
        if o == 'T' and any(oscpattern.osc_match(p, a[:i]) for i in range(len(a))):
            sig, why = 'C18:F3-prefix-match', 'only a proper prefix of the address is matched (re.match)'
        elif o == 'T':
            sig, why = 'C18:wildcard-crosses-slash', "a wildcard matched '/' (OSC 1.0 matches part by part)"
        else:
            sig, why = 'C18:matcher-misses', 'OSC 1.0 says it matches'
        cost = lambda pp, aa: len(pp) + len(aa) + (10 if '//' in aa or aa == '/' or pp == '/' else 0)
        if sig not in best or cost(p, a) < cost(best[sig][0], best[sig][1]):
            best[sig] = (p, a, o, want, why)
    for sig, (p, a, o, want, why) in sorted(best.items()):
        found.append(Failure('search', 'incoming address pattern %r vs responder path %r: implementation says %s, OSC 1.0 says %s (%s)' % (
            p, a, o == 'T', want, why), signature=sig, found_input=True, theorem='match_whole_length',
            replay={'kind': 'pair', 'pattern': p, 'address': a, 'impl': o, 'osc10': want,
                    'how': "sc3.base.responders._match_osc_address_pattern(pattern, address)"}))
    # receive path probes
    m7 = enc_msg('/m', [('i', 7)])[0]
    probes = [
        {'hex': (b'#bundle\0' + struct.pack('>Q', 1) + struct.pack('>i', -4)).hex(), 'src': ['127.0.0.1', 9001], 'kind': 'length:negative'},
        {'hex': (b'#bundle\0' + struct.pack('>Q', 1) + struct.pack('>i', len(m7) + 400) + m7).hex(), 'src': ['127.0.0.1', 9001], 'kind': 'length:oversized'},
    ]
    for f in failures:
        if f.replay.get('kind') == 'dgram':
            probes.append(f.replay['case'])
    hists = list(FIXED_HISTORIES[:3])
    res = ctx.impl('c18_rt', {'port': free_port_base(ctx.rng), 'histories': hists, 'dgrams': probes, 'udp': [], 'watchdog': 0.5},
                   mode='rt', timeout=120)
    seen = set()
    for dc, o in zip(probes, res['dgrams']):
        if o['hang'] or not o['alive']:
            sig = 'C18:F4-negative-bundle-size'
            what = 'datagram %s: OscInterface._handle_request does not return (watchdog fired=%s), next datagram delivered=%s' % (dc['hex'], o['hang'], o['alive'])
        elif dc['kind'] == 'length:oversized' and o['out']:
            sig = 'C18:F4-oversized-bundle-size'
            what = 'datagram %s: a bundle element whose size field reaches past the end of the datagram is dispatched: %s' % (dc['hex'], json.dumps([x[0] for x in o['out']]))
        else:
            continue
        if sig in seen:
            continue
        seen.add(sig)
        found.append(Failure('search', what, signature=sig, found_input=True, theorem='parse_total / malformed_dispatches_nothing',
                             replay={'kind': 'dgram', 'case': dc, 'impl': o,
                                     'how': 'main._osc_interface._handle_request(bytes.fromhex(hex), ("127.0.0.1", 9001))'}))
    h = res['histories']
    ids = lambda r: [x[0] for x in r['log'] if not isinstance(x, str)]
    if ids(h[0][4]) != [0, 1, 2]:
        found.append(Failure('search', 'responders 0 (one-shot), 1, 2 on /a; message /a invokes %s instead of [0, 1, 2]: the responder registered after a '
                                       'one-shot responder misses the message' % ids(h[0][4]), signature='C18:oneshot-skips-next', found_input=True,
                             theorem='dispatch_exact', replay={'kind': 'history', 'ops': FIXED_HISTORIES[0], 'impl': h[0]}))
    if ids(h[2][2]) != [1]:
        found.append(Failure('search', 'responder 0 has arg_template [1, 2], responder 1 none; message ["/a", 1] invokes %s instead of [1]: IndexError in '
                                       'OscArgsMatcher aborts the dispatch' % ids(h[2][2]), signature='C18:template-indexerror', found_input=True,
                             theorem='dispatch_exact', replay={'kind': 'history', 'ops': FIXED_HISTORIES[2], 'impl': h[2]}))
    # correspondence disagreements re-examined against the references written from the property text
    from oracles import c18_ref
    extra = []
    for f in failures:
        rp = f.replay
        if rp.get('kind') == 'history':
            dev = c18_ref.check_history(rp['ops'], rp['impl'], rp['ports'])
            if dev:
                extra.append(Failure('search', 'responder history %s: at operation %d %s' % (json.dumps(rp['ops']), dev[0], dev[1]),
                                     found_input=True, theorem='dispatch_exact / disabled_freed_oneshot_never', replay=rp))
        elif rp.get('kind') == 'registry' and 'history' in rp:
            dev = c18_ref.check_registry(rp['history'], rp['impl'])
            if dev:
                extra.append(Failure('search', 'registry history %s: at operation %d %s' % (json.dumps(rp['history']), dev[0], dev[1]),
                                     found_input=True, theorem='registry_runs_current_in_order', replay=rp))
        elif rp.get('kind') == 'dgram':
            o, dc = rp['impl'], rp['case']
            data = bytes.fromhex(dc['hex'])
            if o['out'] and not c18_ref.bundle_structure_ok(data) and 'C18:F4-oversized-bundle-size' not in seen:
                extra.append(Failure('search', 'datagram %s has a bundle element size that is negative or reaches past the end, yet %d message(s) were dispatched' % (
                    dc['hex'], len(o['out'])), found_input=True, theorem='malformed_dispatches_nothing', replay=rp))
            elif not o['hang'] and not o['raised']:
                # a datagram the strict reference reader can read: addresses and times of the delivered messages must be its own
                try:
                    want = [[list(a.encode('utf-8')), ['now'] if tt in (None, 1) else ['tag', str(int(float(tt)))]] for tt, a, _ in c18_ref.read_packet(data)]
                except (c18_ref.Bad, UnicodeDecodeError):
                    want = None
                got = [[x[0][0], x[1]] for x in o['out']]
                if want is not None and got != want:
                    extra.append(Failure('search', 'datagram %s: a well-formed datagram; delivered (address, time) %s, its bundles say %s '
                                         '(each message carries the timetag of its own enclosing bundle, in timetag order)' % (dc['hex'], json.dumps(got), json.dumps(want)),
                                         found_input=True, theorem='dispatch_exact (time passed unchanged) / parse model', replay=rp))
            elif o['raised']:
                extra.append(Failure('search', 'datagram %s: %s raised into the receiver' % (dc['hex'], o['raised']), found_input=True,
                                     theorem='receiver_survives', replay=rp))
        elif rp.get('kind') == 'udp' and not rp['impl'].get('alive', True) and 'C18:F4-negative-bundle-size' not in seen:
            extra.append(Failure('search', 'UDP datagram %s: the receive thread stops answering' % rp['case']['hex'], found_input=True,
                                 theorem='receiver_survives', replay=rp))
    # registries
    rh = {'ops': [['sv_add', ['srv', 1], 1, 5], ['sv_add', ['srv', 1], 2, 6], ['sv_remove', ['srv', 1], 1], ['sv_run', 1]], 'removes': {}}
    ro = ctx.impl('c18_registry', {'histories': [rh]})['out'][0]
    if ro[3] != [[2, 6]]:
        found.append(Failure('search', 'ServerAction: add(s, f1); add(s, f2); remove(s, f1); run(s) calls %s instead of [f2]' % ro[3],
                             signature='C18:F5-serveraction-remove', found_input=True, theorem='registry_runs_current_in_order',
                             replay={'kind': 'registry', 'history': rh, 'impl': ro}))
    return found + extra[:3]
