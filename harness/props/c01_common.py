"""Shared by the C01 and C20 check modules: prog generator, prog -> Gallina printer,
implementation result -> Gallina printer, shrinker."""
from fractions import Fraction
import fw
from fw import cz, cq, cnat, clist, cstr

RATES = {'audio': 'Audio', 'control': 'Control', 'scalar': 'Scalar', 'demand': 'Demand'}
ERRS = {'KeyError': 'EKey', 'ValueError': 'EValue', 'TypeError': 'EType', 'AttributeError': 'EAttr',
        'GraphFuncError': 'EGraphFunc', 'GraphFuncBase': 'EGraphBase', 'Unsupported': 'EUnsupported'}

HEADER = ('From Coq Require Import ZArith QArith List String Bool.\nImport ListNotations.\n'
          'Require Import SC3.lib.PyNum SC3.gen.Gen_opcodes SC3.model.Graph.\n'
          'Open Scope string_scope.\n'
          'Definition T := mkT unops_list binops_list.\n')

def ensure_models(targets):
    """(Re)build the executable models and the regenerated tables the correspondence evaluates
    (the property file of C20 does not depend on gen/Gen_opcodes.vo, so `make props/C20.vo` alone
    would leave a stale one)."""
    with fw.Lock():
        rc, out = fw.make(list(targets), timeout=900)
    return rc, out


# catalogue as the generator sees it: name -> (rates, arity, nchannels of the value, usable in arithmetic)
CAT = {
    'SinOsc': (('audio', 'control'), 2, 1, True), 'Impulse': (('audio', 'control'), 2, 1, True),
    'Saw': (('audio', 'control'), 1, 1, True), 'WhiteNoise': (('audio', 'control'), 0, 1, True),
    'LFNoise0': (('audio', 'control'), 1, 1, True), 'Line': (('audio', 'control'), 4, 1, True),
    'LPF': (('audio', 'control'), 2, 1, True), 'K2A': (('audio',), 1, 1, True),
    'DC': (('audio', 'control'), 1, 1, True), 'In1': (('audio', 'control'), 1, 1, True),
    'In2': (('audio', 'control'), 1, 2, True), 'Pan2': (('audio', 'control'), 3, 2, True),
    'SampleRate': (('scalar',), 0, 1, True), 'Rand': (('scalar',), 2, 1, True),
    'RandSeed': (('audio', 'control', 'scalar'), 2, 0, False), 'FFT': (('control',), 2, 1, False),
    'IFFT': (('audio', 'control'), 1, 1, True), 'Dseries': (('demand',), 3, 1, True),
    'Duty': (('audio', 'control'), 3, 1, True), 'Demand1': (('audio', 'control'), 3, 1, True),
}
# python selector names (function __name__) used by the generator
BIN_INFIX = ['add', 'sub', 'mul', 'truediv', 'floordiv', 'mod', 'pow', 'lt', 'gt', 'le', 'ge']
BIN_METHODS = ['min', 'max', 'bitand', 'bitor', 'bitxor', 'lcm', 'gcd', 'round', 'roundup', 'trunc', 'atan2',
               'hypot', 'hypotx', 'lshift', 'rshift', 'urshift', 'ring1', 'ring2', 'ring3', 'ring4', 'difsqr',
               'sumsqr', 'sqrsum', 'sqrdif', 'absdif', 'thresh', 'amclip', 'scaleneg', 'clip2', 'excess',
               'fold2', 'wrap2', 'rrand', 'exprand']
UN_METHODS = ['neg', 'abs', 'ceil', 'floor', 'frac', 'sign', 'squared', 'cubed', 'sqrt', 'exp', 'reciprocal',
              'midicps', 'cpsmidi', 'midiratio', 'ratiomidi', 'dbamp', 'ampdb', 'octcps', 'cpsoct', 'log', 'log2',
              'log10', 'sin', 'cos', 'tan', 'asin', 'acos', 'atan', 'sinh', 'cosh', 'tanh', 'rand', 'rand2',
              'linrand', 'bilinrand', 'sum3rand', 'distort', 'softclip', 'coin', 'rectwindow', 'hanwindow',
              'welwindow', 'triwindow', 'ramp', 'scurve']


# operators that also exist as functions of sc3.base.builtins (function-call form bi.f(a, b) / bi.f(x))
BIN_FUNC = ['mod', 'pow'] + [n for n in BIN_METHODS if n not in ('bitand', 'bitor', 'bitxor', 'lshift', 'rshift')]
UN_FUNC = [n for n in UN_METHODS if n not in ('neg', 'abs')]
BIN_NONCOMM = ['pow', 'mod', 'atan2', 'round', 'roundup', 'trunc', 'hypotx', 'ring1', 'ring2', 'ring3', 'ring4', 'difsqr',
               'sqrdif', 'thresh', 'amclip', 'scaleneg', 'clip2', 'excess', 'fold2', 'wrap2', 'rrand', 'exprand', 'urshift']


def carg(a):
    if a[0] == 'c':
        return '(AC %s)' % cq(Fraction(a[1]))
    if a[0] == 'v':
        return '(AV %d %d)' % (a[1], a[2])
    return '(AP %s %d)' % ('true' if a[1] == 'kr' else 'false', a[2])


def cinstr(i):
    k = i[0]
    if k == 'U':
        return '(IU %s %s %s)' % (cstr(i[1]), RATES[i[2]], clist(i[3], carg))
    if k == 'un':
        return '(IUn %s %s)' % (cstr(i[1]), carg(i[2]))
    if k == 'bin':
        return '(IBin %s %s %s)' % (cstr(i[1]), carg(i[2]), carg(i[3]))
    if k == 'madd':
        return '(IMulAdd %s %s %s)' % tuple(carg(x) for x in i[1:4])
    if k == 'sum':
        return '(ISum %s)' % clist(i[1], carg)
    if k == 'sum3':
        return '(ISum3 %s %s %s)' % tuple(carg(x) for x in i[1:4])
    if k == 'sum4':
        return '(ISum4 %s %s %s %s)' % tuple(carg(x) for x in i[1:5])
    if k == 'out':
        return '(IOut %s %s %s)' % (RATES[i[1]], carg(i[2]), clist(i[3], carg))
    if k == 'raise':
        return '(IRaise %s)' % ('true' if i[1] == 'base' else 'false')
    raise ValueError(k)


def cprog(p):
    return '(mkP %s %s %s)' % (clist(p.get('ir', []), lambda x: cq(Fraction(x))),
                               clist(p.get('kr', []), lambda x: cq(Fraction(x))),
                               clist(p['ins'], cinstr))


def cresult(d):
    """implementation description -> Graph.iresult"""
    if not d['ok']:
        return '(IErr %s)' % ERRS.get(d['err'], 'EInternal')

    def cin(i):
        if i[0] == 'c':
            return '(GK %s)' % cq(Fraction(i[1]))
        return '(GO %s %d)' % (cz(i[1]), i[2])
    us = clist(d['units'], lambda u: '(%s, %s, %s, %d, %s)' % (cstr(u[0]), RATES[u[1]], clist(u[2], cin), u[3], cz(u[4])))
    return '(IOk %s %s %s)' % (us, clist(d['consts'], lambda x: cq(Fraction(x))),
                               clist(d['controls'], lambda x: cq(Fraction(x))))


# ---------------------------------------------------------------------------
# generator

CONSTS = ['0', '1', '-1', '2', '3', '1/2', '-1/2', '440', '5/4', '7', '0', '1', '-1']


class Gen:
    """Builds one random prog.  Tracks, for every instruction, the kind of each channel of its
    value: ('c', Fraction) constant, ('u', rate) UGen signal, ('x',) not usable in arithmetic."""

    def __init__(self, rng, size, demand=True, wf=True, invalid=0.0, mce=None):
        self.rng, self.size, self.demand, self.wf, self.invalid = rng, size, demand, wf, invalid
        self.use_mce = (rng.random() < 0.5) if mce is None else mce
        self.ins, self.kinds = [], []
        self.nir = rng.choice([0, 0, 1, 2, 3, 4])
        self.nkr = rng.choice([0, 1, 2, 3, 4, 6])
        self.ffts = []

    def const(self):
        v = self.rng.choice(CONSTS)
        r = self.rng.random()
        # the same number as a Python int (0, 1, -1, 2, ...) or as -0.0: the shortcuts compare with ==
        if '/' not in v and r < 0.4:
            return ['c', v, 'i']
        if v == '0' and r < 0.55:
            return ['c', v, 'z']
        return ['c', v]

    def sigs(self, rates=None):
        out = []
        for i, ks in enumerate(self.kinds):
            for ch, k in enumerate(ks):
                if k[0] == 'u' and (rates is None or k[1] in rates):
                    out.append((['v', i, ch], k[1]))
        for j in range(self.nir):
            if rates is None or 'scalar' in rates:
                out.append((['p', 'ir', j], 'scalar'))
        for j in range(self.nkr):
            if rates is None or 'control' in rates:
                out.append((['p', 'kr', j], 'control'))
        return out

    def any_arg(self, rates=None, pconst=0.35):
        s = self.sigs(rates)
        if not s or self.rng.random() < pconst:
            return self.const(), 'scalar'
        # bias towards recent values and towards re-using the same value (sharing)
        if self.rng.random() < 0.6:
            s = s[-6:]
        return self.rng.choice(s)

    def kind_of(self, a):
        if a[0] == 'c':
            return ('c', Fraction(a[1]))
        if a[0] == 'p':
            return ('u', 'scalar' if a[1] == 'ir' else 'control')
        return self.kinds[a[1]][a[2]]

    def add(self, ins, kinds):
        self.ins.append(ins)
        self.kinds.append(kinds)

    def ugen(self):
        rng = self.rng
        names = [n for n in CAT if (self.demand or n not in ('Dseries', 'Duty', 'Demand1'))
                 and (self.wf or n not in ('RandSeed', 'FFT', 'IFFT'))]
        name = rng.choice(names)
        rates, arity, nch, arith = CAT[name]
        rate = rng.choice(rates)
        valid = rng.random() >= self.invalid
        args = []
        if name == 'IFFT':
            if not self.ffts:
                name, (rates, arity, nch, arith) = 'Saw', CAT['Saw']
                rate = rng.choice(rates)
            else:
                self.add(['U', 'IFFT', rate, [['v', rng.choice(self.ffts), 0]]], [('u', rate)])
                return
        if name == 'Demand1':
            ds = [(['v', i, 0], 'demand') for i, ks in enumerate(self.kinds) if ks and ks[0] == ('u', 'demand')]
            if not ds:
                name, (rates, arity, nch, arith) = 'Dseries', CAT['Dseries']
                rate = 'demand'
            else:
                trig, _ = self.any_arg([rate] if valid else None)
                self.add(['U', 'Demand1', rate, [trig, self.const(), rng.choice(ds)[0]]], [('u', rate)])
                return
        for j in range(arity):
            want = None
            if valid and j == 0 and name in ('LPF', 'Pan2'):
                want = [rate] if (name == 'LPF' or rate == 'audio') else None
                s = self.sigs(want)
                if not s:
                    name, (rates, arity, nch, arith) = 'Saw', CAT['Saw']
                    args = [self.any_arg()[0]]
                    break
                args.append(rng.choice(s[-5:])[0])
                continue
            if name == 'Dseries':
                args.append(self.const())
                continue
            a, _ = self.any_arg(None if not self.demand else ['audio', 'control', 'scalar'])
            args.append(a)
        if name == 'FFT':
            self.ffts.append(len(self.ins))
        kinds = [('u', rate)] * nch if arith else ([('x',)] * nch)
        self.add(['U', name, rate, args], kinds)

    def arith(self):
        rng = self.rng
        r = rng.random()
        ar = None if self.demand else ['audio', 'control', 'scalar']
        if r < 0.5:
            r2 = rng.random()
            op = (rng.choice(['add', 'add', 'add', 'sub', 'sub', 'mul', 'mul', 'truediv']) if r2 < 0.78
                  else rng.choice(BIN_NONCOMM) if r2 < 0.9 else rng.choice(BIN_INFIX + BIN_METHODS))
            a, _ = self.any_arg(ar)
            b, _ = self.any_arg(ar)
            if rng.random() < 0.15:
                b = a                      # `a op a`
            ka, kb = self.kind_of(a), self.kind_of(b)
            if ka[0] == 'c' and kb[0] == 'c':
                if op not in ('add', 'sub', 'mul'):
                    op = 'add'
                v = {'add': ka[1] + kb[1], 'sub': ka[1] - kb[1], 'mul': ka[1] * kb[1]}[op]
                self.add(['bin', op, a, b], [('c', v)])
                return
            # every way of writing the application: infix / reflected infix, method form, function-call form
            # bi.f(a, b) with the unit on either side (a number first is only expressible as reflected infix or as
            # the function form)
            form = None
            if op in BIN_FUNC and (rng.random() < 0.5 or (ka[0] == 'c' and op not in BIN_INFIX)):
                form = 'func'
            if ka[0] == 'c' and form is None and op not in ('add', 'sub', 'mul', 'truediv', 'floordiv', 'mod', 'pow'):
                a, b, ka, kb = b, a, kb, ka
            self.add(['bin', op, a, b] + ([form] if form else []), [self.bin_kind(op, ka, kb)])
        elif r < 0.62:
            s = self.sigs(ar)
            if not s:
                return self.ugen()
            a = rng.choice(s[-6:])[0]
            op = 'neg' if rng.random() < 0.7 else rng.choice(UN_METHODS)
            form = ['func'] if (op in UN_FUNC and rng.random() < 0.5) else []
            self.add(['un', op, a] + form, [('u', self.kind_of(a)[1])])
        elif r < 0.75:
            a, b, c = self.any_arg(ar, 0.15)[0], self.any_arg(ar)[0], self.any_arg(ar)[0]
            self.add(['madd', a, b, c], [self.madd_kind(a, b, c)])
        elif r < 0.85:
            n = rng.choice([0, 1, 2, 3, 4, 5])
            xs = [self.any_arg(ar, 0.2)[0] for _ in range(n)]
            k = ('c', Fraction(0))
            for x in xs:
                k = self.bin_kind('add', k, self.kind_of(x))
            self.add(['sum', xs], [k])
        elif r < 0.93:
            xs = [self.any_arg(ar, 0.25)[0] for _ in range(3)]
            self.add(['sum3'] + xs, [self.sumn_kind(xs)])
        else:
            xs = [self.any_arg(ar, 0.25)[0] for _ in range(4)]
            self.add(['sum4'] + xs, [self.sumn_kind(xs)])

    # --- abstract interpretation of the constructors (only: constant or signal-at-rate)
    ORDER = {'scalar': 0, 'control': 1, 'audio': 2, 'demand': 3}

    def rmax(self, *ks):
        rs = [k[1] if k[0] == 'u' else 'scalar' for k in ks]
        return max(rs, key=lambda r: self.ORDER[r])

    def smin(self, *ks):
        rs = [k[1] if k[0] == 'u' else 'scalar' for k in ks]
        return min(rs)

    def bin_kind(self, op, ka, kb):
        if ka[0] == 'c' and kb[0] == 'c':
            return ('c', {'add': ka[1] + kb[1], 'sub': ka[1] - kb[1], 'mul': ka[1] * kb[1]}[op])
        ca = ka[1] if ka[0] == 'c' else None
        cb = kb[1] if kb[0] == 'c' else None
        neg = lambda k: ('c', -k[1]) if k[0] == 'c' else k
        if op == 'mul':
            if ca == 0 or cb == 0:
                return ('c', Fraction(0))
            if ca == 1:
                return kb
            if ca == -1:
                return neg(kb)
            if cb == 1:
                return ka
            if cb == -1:
                return neg(ka)
        elif op == 'add':
            if ca == 0:
                return kb
            if cb == 0:
                return ka
        elif op == 'sub':
            if ca == 0:
                return neg(kb)
            if cb == 0:
                return ka
        elif op == 'truediv':
            if cb == 1:
                return ka
            if cb == -1:
                return neg(ka)
        return ('u', self.rmax(ka, kb))

    def madd_kind(self, a, b, c):
        ki, km, ka = self.kind_of(a), self.kind_of(b), self.kind_of(c)
        cm = km[1] if km[0] == 'c' else None
        cadd = ka[1] if ka[0] == 'c' else None
        if cm == 0:
            return ka
        minus, nomul, noadd = cm == -1, cm == 1, cadd == 0
        if nomul and noadd:
            return ki
        if minus and noadd:
            return ('c', -ki[1]) if ki[0] == 'c' else ki
        if noadd:
            return self.bin_kind('mul', ki, km)
        if minus:
            return self.bin_kind('sub', ka, ki)
        if nomul:
            return self.bin_kind('add', ki, ka)
        if ki[0] == 'c' and km[0] == 'c' and ka[0] == 'c':
            return ('c', ki[1] * km[1] + ka[1])

        def can(i, m, a_):
            ri = i[1] if i[0] == 'u' else 'scalar'
            rm = m[1] if m[0] == 'u' else 'scalar'
            ra = a_[1] if a_[0] == 'u' else 'scalar'
            return ri == 'audio' or (ri == 'control' and rm in ('control', 'scalar') and ra in ('control', 'scalar'))
        if can(ki, km, ka) or can(km, ki, ka):
            return ('u', self.smin(ki, km, ka))
        return self.bin_kind('add', self.bin_kind('mul', ki, km), ka)

    def sumn_kind(self, xs):
        ks = [self.kind_of(x) for x in xs]
        nz = [k for k in ks if not (k[0] == 'c' and k[1] == 0)]
        if len(nz) == len(ks):
            return ('u', self.smin(*ks))
        # first zero (in the order the code tests them) is dropped, then Sum3 / a + b
        if len(ks) == 4:
            for j in range(4):
                if ks[j][0] == 'c' and ks[j][1] == 0:
                    rest = ks[:j] + ks[j + 1:]
                    return self._sum3_kind(rest)
        return self._sum3_kind(ks)

    def _sum3_kind(self, ks):
        for j in (2, 1, 0):
            if ks[j][0] == 'c' and ks[j][1] == 0:
                rest = ks[:j] + ks[j + 1:]
                return self.bin_kind('add', rest[0], rest[1])
        return ('u', self.smin(*ks))

    def out(self, force_valid=True):
        rng = self.rng
        rate = 'audio' if rng.random() < 0.75 else 'control'
        n = rng.choice([1, 1, 2, 3])
        xs = []
        for _ in range(n):
            if rate == 'audio' and force_valid:
                s = self.sigs(['audio'])
                if rng.random() < 0.12 or not s:
                    xs.append(['c', '0'])
                else:
                    xs.append(rng.choice(s[-8:])[0])
            else:
                xs.append(self.any_arg(['audio', 'control', 'scalar'], 0.1)[0])
        self.add(['out', rate, ['c', rng.choice(['0', '1', '2'])], xs], [])

    MCE_CLASSES = ('SinOsc', 'Saw', 'LFNoise0', 'LPF', 'Line', 'Impulse')

    def mce_group(self):
        """2-4 sibling instructions of one kind (same operator / class and rate, arguments chosen independently,
        channels of different rates and constants mixed in): written as ONE multichannel call in Python."""
        rng = self.rng
        n = rng.choice([2, 2, 3, 4])
        ar = None if self.demand else ['audio', 'control', 'scalar']
        start = len(self.ins)
        kind = rng.choice(['madd', 'madd', 'bin', 'bin', 'un', 'sum3', 'sum4', 'U'])
        if kind == 'un' and not self.sigs(ar):
            kind = 'U'
        if kind == 'U' and not [x for x in self.sigs(ar) if x[1] in CAT['LPF'][0]]:
            pass
        op = rng.choice(['add', 'sub', 'mul', 'truediv', 'mul', 'add'] if rng.random() < 0.7 else BIN_NONCOMM + BIN_INFIX[:7])
        uop = 'neg' if rng.random() < 0.6 else rng.choice(UN_METHODS)
        bform = ['func'] if (op in BIN_FUNC and rng.random() < 0.5) else []
        uform = ['func'] if (uop in UN_FUNC and rng.random() < 0.5) else []
        name = rng.choice(self.MCE_CLASSES)
        rate = rng.choice(CAT[name][0])
        shared = [self.any_arg(ar, 0.3)[0] for _ in range(4)]      # a column may be common to all channels
        common = [rng.random() < 0.35 for _ in range(4)]
        snapshot = list(self.sigs(ar))          # values that exist BEFORE the group (channels do not read each other)
        pool = snapshot[-8:]

        def pick(j, pconst=0.3):
            if common[j]:
                return shared[j]
            if pool and rng.random() >= pconst:
                return rng.choice(pool)[0]
            return self.const()
        for _ in range(n):
            if kind == 'madd':
                a = pick(0, 0.1)
                if self.kind_of(a)[0] == 'c' and pool:
                    a = rng.choice(pool)[0]
                b, c = pick(1), pick(2)
                self.add(['madd', a, b, c], [self.madd_kind(a, b, c)])
            elif kind in ('sum3', 'sum4'):
                xs = [pick(j, 0.25) for j in range(3 if kind == 'sum3' else 4)]
                self.add([kind] + xs, [self.sumn_kind(xs)])
            elif kind == 'bin':
                a, b = pick(0, 0.3 if bform else 0.1), pick(1)
                if self.kind_of(a)[0] == 'c' and pool and (not bform or self.kind_of(b)[0] == 'c'):
                    a = rng.choice(pool)[0]
                ka, kb = self.kind_of(a), self.kind_of(b)
                if ka[0] == 'c' and kb[0] == 'c':
                    if pool:
                        b = rng.choice(pool)[0]
                        kb = self.kind_of(b)
                    else:
                        self.add(['bin', 'add', a, b], [self.bin_kind('add', ka, kb)])     # breaks the group: not registered
                        continue
                self.add(['bin', op, a, b] + bform, [self.bin_kind(op, ka, kb)])
            elif kind == 'un':
                a = rng.choice(pool)[0]
                self.add(['un', uop, a] + uform, [('u', self.kind_of(a)[1])])
            else:
                arity = CAT[name][1]
                args = []
                for j in range(arity):
                    if name == 'LPF' and j == 0:
                        s = [x for x in snapshot if x[1] == rate]
                        args.append(rng.choice(s[-5:])[0] if s else self.const())
                    else:
                        args.append(pick(j))
                self.add(['U', name, rate, args], [('u', rate)])
        group = self.ins[start:]
        # a group must differ in at least one argument and be homogeneous (the `bin` operator may have been changed)
        same = all(g == group[0] for g in group)
        homog = all(g[0] == group[0][0] and (g[0] not in ('bin', 'un') or g[1] == group[0][1]) for g in group)
        if not same and homog:
            self.mce.append([start, n])

    # ---- sum helpers: ChannelList.sum() and Mix.new over flat lists and over NESTED lists of channels (rows given as
    # plain Python lists or as ChannelList objects).  The block of instructions is what the helper does, in the
    # order it does it (utils.list_sum row by row, Mix clumping by four into Sum4 / Sum3 / list_sum and reducing
    # again); Python runs ONE call of the helper.
    def sum_block(self):
        rng = self.rng
        ar = None if self.demand else ['audio', 'control', 'scalar']
        snapshot = list(self.sigs(ar))
        if not snapshot:
            return self.ugen()
        form = rng.choice(['cl_flat', 'mix_flat', 'mix_flat', 'cl_nested_plain', 'cl_nested_cl', 'mix_nested_plain', 'mix_nested_cl'])
        nested = 'nested' in form
        nch = rng.choice([2, 2, 3]) if nested else 1
        nrows = rng.choice([2, 2, 3, 4, 5, 7, 9, 13] if form.startswith('mix') else [2, 3, 4, 5])
        pool = snapshot[-10:]

        def pick():
            return rng.choice(pool)[0] if rng.random() >= 0.2 else self.const()
        rows = [[pick() for _ in range(nch)] for _ in range(nrows)]
        if all(self.kind_of(x)[0] == 'c' for x in rows[0]):
            rows[0][0] = rng.choice(pool)[0]
        start = len(self.ins)

        def emit(i):
            if i[0] == 'bin':
                k = self.bin_kind('add', self.kind_of(i[2]), self.kind_of(i[3]))
            else:
                k = self.sumn_kind(i[1:])
            self.add(i, [k])
            return ['v', len(self.ins) - 1, 0]
        finals = (expand_mix if form.startswith('mix') else expand_sum)(rows, emit)
        count = len(self.ins) - start
        keep = set(a[1] for a in finals if a[0] == 'v' and a[1] >= start)
        for j in range(start, start + count):
            if j not in keep:
                self.kinds[j] = [('x',)]          # intermediate values of the helper are not visible to the program
        if count:
            self.blocks.append([start, count, {'form': form, 'rows': rows, 'result': finals}])

    def run(self):
        rng = self.rng
        self.mce = []
        self.blocks = []
        for _ in range(self.size):
            r = rng.random()
            if r < 0.33 or not self.sigs():
                self.ugen()
            elif r < 0.42 and self.use_mce:
                self.mce_group()
            elif r < 0.47 and self.use_mce:
                self.sum_block()
            elif r < 0.93:
                self.arith()
            else:
                self.out(force_valid=rng.random() >= self.invalid)
        for _ in range(rng.choice([1, 1, 2])):
            self.out(force_valid=rng.random() >= self.invalid)
        p = {'ins': self.ins}
        if self.mce:
            p['mce'] = self.mce
        if self.blocks:
            p['blocks'] = self.blocks
        if self.nir:
            p['ir'] = [rng.choice(CONSTS) for _ in range(self.nir)]
        if self.nkr:
            p['kr'] = [rng.choice(CONSTS) for _ in range(self.nkr)]
        # the control slots are grouped into PARAMETERS: scalars and array-valued defaults mixed
        for key, n in (('irshape', self.nir), ('krshape', self.nkr)):
            if n >= 2 and rng.random() < 0.6:
                shape = []
                while sum(shape) < n:
                    shape.append(min(rng.choice([1, 1, 2, 2, 3]), n - sum(shape)))
                if any(x > 1 for x in shape):
                    p[key] = shape
        return p


def gen_prog(rng, size, **kw):
    return Gen(rng, size, **kw).run()


# the F10 shape and close relatives: always part of the case list
def C(x):
    return ['c', x]


def V(i, k=0):
    return ['v', i, k]


SEED_PROGS = [
    # x = SinOsc.ar(); y = x * x; Out.ar(0, x)        (DESIGN.md section 6, F10)
    {'ins': [['U', 'SinOsc', 'audio', [C('440'), C('0')]], ['bin', 'mul', V(0), V(0)], ['out', 'audio', C('0'), [V(0)]]]},
    {'ins': [['U', 'Saw', 'audio', [C('440')]], ['bin', 'add', V(0), V(0)], ['out', 'audio', C('0'), [V(0)]]]},
    {'ins': [['U', 'Saw', 'audio', [C('440')]], ['U', 'LPF', 'audio', [V(0), V(0)]], ['out', 'audio', C('0'), [V(0)]]]},
    {'ins': [['U', 'Saw', 'audio', [C('440')]], ['sum3', V(0), V(0), C('2')], ['un', 'neg', V(1)], ['out', 'audio', C('0'), [V(0)]]]},
    # the same value used twice, and the product is used
    {'ins': [['U', 'SinOsc', 'audio', [C('440'), C('0')]], ['bin', 'mul', V(0), V(0)], ['out', 'audio', C('0'), [V(1)]]]},
    # (p + q) + (p + q) -> Sum4 (a is b)
    {'ins': [['U', 'Saw', 'audio', [C('1')]], ['U', 'Saw', 'audio', [C('2')]], ['bin', 'add', V(0), V(1)],
             ['bin', 'add', V(2), V(2)], ['out', 'audio', C('0'), [V(3)]]]},
    # shared sum: (p + q) used by two sums -> no Sum3
    {'ins': [['U', 'Saw', 'audio', [C('1')]], ['U', 'Saw', 'audio', [C('2')]], ['bin', 'add', V(0), V(1)],
             ['bin', 'add', V(2), V(0)], ['bin', 'add', V(2), V(1)], ['out', 'audio', C('0'), [V(3), V(4)]]]},
    # a - (-b), a + (-b), (-a) + b
    {'ins': [['U', 'Saw', 'audio', [C('1')]], ['U', 'Saw', 'control', [C('2')]], ['un', 'neg', V(1)],
             ['bin', 'sub', V(0), V(2)], ['un', 'neg', V(0)], ['bin', 'add', V(4), V(1)], ['out', 'audio', C('0'), [V(3), V(5)]]]},
    # muladd through the optimiser, control * audio
    {'kr': ['1/2'], 'ins': [['U', 'Saw', 'audio', [['p', 'kr', 0]]], ['bin', 'mul', ['p', 'kr', 0], V(0)],
                            ['bin', 'add', C('5'), V(1)], ['out', 'audio', C('0'), [V(2), C('0')]]]},
    # dead code through a proxy, width-first ordering
    {'ins': [['U', 'Saw', 'audio', [C('1')]], ['U', 'Pan2', 'audio', [V(0), C('0'), C('1')]], ['bin', 'mul', V(1, 1), C('2')],
             ['out', 'audio', C('0'), [V(1, 0)]]]},
    {'ins': [['U', 'Saw', 'audio', [C('1')]], ['U', 'FFT', 'control', [C('3'), V(0)]], ['U', 'Saw', 'audio', [C('2')]],
             ['U', 'IFFT', 'audio', [V(1)]], ['U', 'RandSeed', 'control', [C('1'), C('7')]], ['U', 'WhiteNoise', 'audio', []],
             ['out', 'audio', C('0'), [V(3), V(2), V(5)]]]},
    # F21: a dead unit reads X after X was rewritten during its own elimination (stale self.inputs tuple):
    # p, q, b; a = p + q; X = a + b; W = a * X; Y = W * X (dead); Out(X)
    {'ins': [['U', 'Saw', 'audio', [C('1')]], ['U', 'Saw', 'audio', [C('2')]], ['U', 'Saw', 'audio', [C('3')]],
             ['bin', 'add', V(0), V(1)], ['bin', 'add', V(3), V(2)], ['bin', 'mul', V(3), V(4)], ['bin', 'mul', V(5), V(4)],
             ['out', 'audio', C('0'), [V(4)]]]},
    # F22: n - n where n = -(p + q): _optimize_sub without the `a is b` guard
    {'ins': [['U', 'Saw', 'audio', [C('1')]], ['U', 'Saw', 'audio', [C('2')]], ['bin', 'add', V(0), V(1)], ['un', 'neg', V(2)],
             ['bin', 'sub', V(3), V(3)], ['out', 'audio', C('0'), [V(4)]]]},
    {'ins': [['U', 'Saw', 'audio', [C('1')]], ['un', 'neg', V(0)], ['bin', 'sub', V(1), V(1)], ['out', 'audio', C('0'), [V(2)]]]},
    # parameters with array-valued defaults next to scalar ones, every slot read: g(a=(100, 200), b=300), ir and kr
    {'kr': ['100', '200', '300'], 'krshape': [2, 1],
     'ins': [['U', 'SinOsc', 'audio', [['p', 'kr', 2], C('0')]], ['U', 'SinOsc', 'audio', [['p', 'kr', 0], C('0')]],
             ['U', 'SinOsc', 'audio', [['p', 'kr', 1], C('0')]], ['out', 'audio', C('0'), [V(0), V(1), V(2)]]]},
    {'ir': ['1', '2', '3', '4'], 'irshape': [1, 2, 1], 'kr': ['5', '6', '7', '8', '9', '10'], 'krshape': [3, 1, 2],
     'ins': [['U', 'Saw', 'audio', [['p', 'ir', 3]]], ['U', 'Saw', 'audio', [['p', 'ir', 0]]], ['U', 'Saw', 'audio', [['p', 'ir', 2]]],
             ['U', 'Saw', 'control', [['p', 'kr', 3]]], ['U', 'Saw', 'control', [['p', 'kr', 5]]], ['U', 'Saw', 'control', [['p', 'kr', 2]]],
             ['bin', 'mul', V(0), ['p', 'kr', 4]], ['bin', 'add', V(1), ['p', 'ir', 1]], ['out', 'audio', C('0'), [V(6), V(7), V(2)]],
             ['out', 'control', C('3'), [V(3), V(4), V(5), ['p', 'kr', 0], ['p', 'kr', 1]]]]},
    # a rewritten unit that is rewritten again (the replacement of one fusion is the auxiliary unit of the next):
    # a + b + c + d (+ -> Sum3 -> Sum4), five terms, x * y - (-z) (sub -> + -> MulAdd), (a + b) + (-c) + d, with a
    # second output unit AFTER and BEFORE the sum
    {'ins': [['U', 'Saw', 'audio', [C('1')]], ['U', 'Saw', 'audio', [C('2')]], ['U', 'Saw', 'audio', [C('3')]], ['U', 'Saw', 'audio', [C('4')]],
             ['bin', 'add', V(0), V(1)], ['bin', 'add', V(4), V(2)], ['bin', 'add', V(5), V(3)], ['out', 'audio', C('0'), [V(6)]]]},
    {'ins': [['U', 'Saw', 'audio', [C('1')]], ['U', 'Saw', 'audio', [C('2')]], ['U', 'Saw', 'audio', [C('3')]], ['U', 'Saw', 'audio', [C('4')]],
             ['U', 'Saw', 'audio', [C('5')]], ['out', 'audio', C('1'), [V(0)]], ['sum', [V(0), V(1), V(2), V(3), V(4)]],
             ['out', 'audio', C('0'), [V(6)]], ['out', 'audio', C('2'), [V(4)]]]},
    {'ins': [['U', 'Saw', 'audio', [C('1')]], ['U', 'Saw', 'audio', [C('2')]], ['U', 'Saw', 'audio', [C('3')]], ['bin', 'mul', V(0), V(1)],
             ['un', 'neg', V(2)], ['bin', 'sub', V(3), V(4)], ['out', 'audio', C('0'), [V(5)]]]},
    {'ins': [['U', 'Saw', 'audio', [C('1')]], ['U', 'Saw', 'audio', [C('2')]], ['U', 'Saw', 'audio', [C('3')]], ['U', 'Saw', 'audio', [C('4')]],
             ['bin', 'add', V(0), V(1)], ['un', 'neg', V(2)], ['bin', 'add', V(4), V(5)], ['bin', 'add', V(6), V(3)],
             ['out', 'audio', C('0'), [V(7)]], ['out', 'audio', C('1'), [V(0)]]]},
    # invalid: control signal into Out.ar
    {'ins': [['U', 'Saw', 'control', [C('1')]], ['out', 'audio', C('0'), [V(0)]]]},
    {'ins': [['U', 'Saw', 'control', [C('1')]], ['raise', 'exc']]},
]


def expand_sum(rows, emit):
    """utils.list_sum(rows): res = 0; res = res + row, element by element (0 + x is x)."""
    acc = list(rows[0])
    for r in rows[1:]:
        for ch in range(len(acc)):
            acc[ch] = emit(['bin', 'add', acc[ch], r[ch]])
    return acc


def expand_mix(rows, emit):
    """Mix.new(rows): clumps of four -> Sum4, of three -> Sum3, shorter -> list_sum; then the same on the results."""
    nch = len(rows[0])
    mixed = []
    for i in range(0, len(rows), 4):
        cl = rows[i:i + 4]
        if len(cl) == 4:
            mixed.append([emit(['sum4'] + [cl[j][ch] for j in range(4)]) for ch in range(nch)])
        elif len(cl) == 3:
            mixed.append([emit(['sum3'] + [cl[j][ch] for j in range(3)]) for ch in range(nch)])
        else:
            mixed.append(expand_sum(cl, emit))
    if len(mixed) < 3:
        return expand_sum(mixed, emit)
    if len(mixed) == 3:
        return [emit(['sum3'] + [mixed[j][ch] for j in range(3)]) for ch in range(nch)]
    return expand_mix(mixed, emit)


def fix_blocks(q, k):
    """Instruction k was deleted from q: False if it belongs to (or is read by) a helper block, else renumber."""
    if 'blocks' not in q:
        return True

    def ren(a):
        if isinstance(a, list) and a and a[0] == 'v':
            if a[1] == k:
                raise KeyError
            return ['v', a[1] - (1 if a[1] > k else 0), a[2]]
        if isinstance(a, list) and a and a[0] in ('c', 'p'):
            return a
        if isinstance(a, list):
            return [ren(x) for x in a]
        return a
    out = []
    try:
        for s0, n, spec in q['blocks']:
            if s0 <= k < s0 + n:
                return False
            out.append([s0 - 1 if k < s0 else s0, n, {'form': spec['form'], 'rows': ren(spec['rows']), 'result': ren(spec['result'])}])
    except KeyError:
        return False
    q['blocks'] = out
    return True


def fix_mce(q, k):
    """Instruction k was deleted from q: renumber / shorten the multichannel groups."""
    if 'mce' in q:
        gs = []
        for s0, n in q['mce']:
            if k < s0:
                gs.append([s0 - 1, n])
            elif k < s0 + n:
                if n - 1 >= 2:
                    gs.append([s0, n - 1])
            else:
                gs.append([s0, n])
        q['mce'] = gs


def operator_form_progs():
    """Every way the library offers to write an operator application must give the same unit wiring: for each
    operator that exists as a function of sc3.base.builtins, bi.f(number, unit), bi.f(unit, number), bi.f(unit, unit)
    and the method / infix form in one definition; unary functions eight per definition."""
    out = []
    for op in BIN_FUNC:
        out.append({'ins': [['U', 'Saw', 'audio', [C('3')]], ['U', 'LFNoise0', 'control', [C('5')]],
                            ['bin', op, C('1/2'), V(0), 'func'], ['bin', op, V(0), C('1/2'), 'func'],
                            ['bin', op, V(1), V(0), 'func'], ['bin', op, V(0), V(1)], ['bin', op, ['c', '2', 'i'], V(1), 'func'],
                            ['out', 'audio', C('0'), [V(2), V(3), V(4), V(5)]], ['out', 'control', C('1'), [V(6)]]]})
    for k in range(0, len(UN_FUNC), 8):
        ops = UN_FUNC[k:k + 8]
        ins = [['U', 'Saw', 'audio', [C('3')]]]
        for j, op in enumerate(ops):
            ins.append(['un', op, V(0), 'func'] if j % 2 == 0 else ['un', op, V(0)])
        ins.append(['out', 'audio', C('0'), [V(j + 1) for j in range(len(ops))]])
        out.append({'ins': ins})
    return out


def sum_helper_progs():
    """Deterministic instances of the sum helpers: flat and nested (plain lists / ChannelLists), 2 to 13 summands."""
    out = []
    for form, nrows, nch in (('cl_nested_plain', 2, 2), ('cl_nested_plain', 3, 2), ('cl_nested_cl', 2, 3), ('mix_nested_plain', 2, 2),
                             ('mix_nested_plain', 5, 2), ('mix_nested_cl', 4, 2), ('mix_flat', 2, 1), ('mix_flat', 5, 1),
                             ('mix_flat', 13, 1), ('cl_flat', 4, 1), ('cl_nested_plain', 2, 1)):
        nested = 'nested' in form
        ins = [['U', 'Saw', 'audio' if j % 3 else 'control', [C(str(j + 1))]] for j in range(nrows * nch)]
        rows = [[V(r * nch + ch) for ch in range(nch)] for r in range(nrows)]
        if nrows > 2:
            rows[1][0] = C('0')
            rows[2][nch - 1] = ['c', '2', 'i']
        start = len(ins)

        def emit(i, ins=ins):
            ins.append(i)
            return ['v', len(ins) - 1, 0]
        finals = (expand_mix if form.startswith('mix') else expand_sum)(rows, emit)
        count = len(ins) - start
        ins.append(['out', 'audio', C('0'), [['c', '0']]])
        ins.append(['out', 'control', C('1'), list(finals)])
        ins.append(['out', 'control', C('5'), [V(0)]])
        out.append({'ins': ins, 'blocks': [[start, count, {'form': form if nested or nch == 1 else form, 'rows': rows, 'result': finals}]]})
    return out


def shrink(prog, still_fails, budget=60):
    """Greedy instruction deletion (with index renumbering) while `still_fails(prog)`."""
    def drop(p, k):
        ins = []
        for j, i in enumerate(p['ins']):
            if j == k:
                continue
            bad = [False]

            def ren(a):
                if isinstance(a, list) and a and a[0] == 'v':
                    if a[1] == k:
                        bad[0] = True
                    return ['v', a[1] - (1 if a[1] > k else 0), a[2]]
                if isinstance(a, list) and a and a[0] in ('c', 'p'):
                    return a
                if isinstance(a, list):
                    return [ren(x) for x in a]
                return a
            ni = [i[0]] + [ren(x) for x in i[1:]]
            if bad[0]:
                return None
            ins.append(ni)
        q = dict(p)
        q['ins'] = ins
        fix_mce(q, k)
        if not fix_blocks(q, k):
            return None
        return q
    cur = prog
    changed = True
    while changed and budget > 0:
        changed = False
        for k in reversed(range(len(cur['ins']))):
            q = drop(cur, k)
            budget -= 1
            if q is not None and still_fails(q):
                cur, changed = q, True
                break
            if budget <= 0:
                break
    return cur
