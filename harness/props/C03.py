"""C03 -- multichannel expansion follows the wrap-and-zip law everywhere."""
import json
import os
import fw
from fw import Corr, Failure, cz, cnat, clist

TITLE = 'Multichannel expansion follows the wrap-and-zip law everywhere'
TRANSLATED = []
MODEL_TARGETS = ['model/Mce.vo']
ALLOWED_AXIOMS = []
TRUSTED = [
    'hand-written model coq/model/Mce.v of SynthObject._multi_new, utils.flop/wrap_extend/list_unop/list_binop/list_narop, '
    'ChannelList._multichannel_perform/madd, Out.ar/kr splicing and _replace_zeroes_with_silence; tied to the code by the '
    'differential correspondence only (harness/impl/c03_mce.py)',
    'a unit generator class is abstracted to (class name, rate, operator, number of outputs); per-class constructors that do '
    'more than delegate to _multi_new are outside the property (its own quantifier)',
    'list and ChannelList are one constructor (Lst) of the model; the harness checks separately that expanded results are ChannelList',
]
ASSUMES = [
    'numeric constants 0, 1, -1 are not used as operands of arithmetic operators / MulAdd in the correspondence (they trigger the '
    '_new1 shortcuts that belong to property C01)',
    'int and float constants are identified by value',
    'arithmetic between a ChannelList and a tuple treats the tuple as a sequence (utils.list_binop docstring, pinned by '
    'tests/test_multichannel.py); the theorem list_binop_wrap_law states exactly that',
    'empty list arguments are outside the quantifier of the law (i mod 0); their behaviour is modelled and compared, see notes/C03.md',
]

CTORS = {
    'SinOsc': dict(rates=['ar', 'kr'], defaults=[440, 0], nouts=1),
    'Saw': dict(rates=['ar', 'kr'], defaults=[440], nouts=1),
    'LFNoise0': dict(rates=['ar', 'kr'], defaults=[500], nouts=1),
    'Line': dict(rates=['ar', 'kr'], defaults=[0, 1, 1, 0], nouts=1),
    'XLine': dict(rates=['ar', 'kr'], defaults=[1, 2, 1, 0], nouts=1),
    'Impulse': dict(rates=['ar', 'kr'], defaults=[440, 0], nouts=1),
    'LFSaw': dict(rates=['ar', 'kr'], defaults=[440, 0], nouts=1),
    'Pan2': dict(rates=['ar', 'kr'], defaults=[None, 0, 1], nouts=2),
    'Clip': dict(rates=['ar', 'kr', 'ir'], defaults=[0, 0, 1], nouts=1),
    'Delay1': dict(rates=['ar', 'kr'], defaults=[0], nouts=1),
    # the delay-line family: .ar converts the signal input to audio rate (element-wise) before the
    # expansion; the other defaults are not integers, so those positions are always given
    'DelayN': dict(rates=['ar', 'kr'], defaults=[0, None, None], nouts=1, audio_in=0),
    'DelayC': dict(rates=['ar', 'kr'], defaults=[0, None, None], nouts=1, audio_in=0),
    'CombL': dict(rates=['ar', 'kr'], defaults=[0, None, None, None], nouts=1, audio_in=0),
    'AllpassC': dict(rates=['ar', 'kr'], defaults=[0, None, None, None], nouts=1, audio_in=0),
    'BufDelayN': dict(rates=['ar', 'kr'], defaults=[0, 0, None], nouts=1, audio_in=1),
    'BufCombL': dict(rates=['ar'], defaults=[0, 0, None, None], nouts=1, audio_in=1),
    'DelTapWr': dict(rates=['ar', 'kr'], defaults=[0, 0], nouts=1, audio_in=1),
}
PARAMS = {'SinOsc': ['freq', 'phase'], 'Saw': ['freq'], 'LFNoise0': ['freq'], 'Line': ['start', 'end', 'dur', 'done_action'],
          'XLine': ['start', 'end', 'dur', 'done_action'], 'Impulse': ['freq', 'phase'], 'LFSaw': ['freq', 'iphase'],
          'Pan2': ['input', 'pos', 'level'], 'Clip': ['input', 'lo', 'hi'], 'Delay1': ['input'],
          'DelayN': ['input', 'max_delay', 'delay_time'], 'DelayC': ['input', 'max_delay', 'delay_time'],
          'CombL': ['input', 'max_delay', 'delay_time', 'decay_time'], 'AllpassC': ['input', 'max_delay', 'delay_time', 'decay_time'],
          'BufDelayN': ['buf', 'input', 'delay_time'], 'BufCombL': ['buf', 'input', 'delay_time', 'decay_time'],
          'DelTapWr': ['buf', 'input']}
RATE = {'ar': 'audio', 'kr': 'control', 'ir': 'scalar'}
METHODS = {'lag': ('Lag', 1, 'MLag'), 'lag2': ('Lag2', 1, 'MLag'), 'lag3': ('Lag3', 1, 'MLag'),
           'lagud': ('LagUD', 2, 'MDirect'), 'slew': ('Slew', 2, 'MDirect'), 'clip': ('Clip', 2, 'MClip'),
           'fold': ('Fold', 2, 'MClip'), 'wrap': ('Wrap', 2, 'MClip'), 'moddif': ('ModDif', 2, 'MClip'),
           'range': ('MulAdd', 2, 'MRange')}
NUMERIC_KERNEL = ('clip', 'fold', 'wrap', 'moddif', 'range')     # numbers answer these with builtins kernels (C15) / not at all
OPNUM = {'+': 'Z.add', '*': 'Z.mul', '-': 'Z.sub'}

# ---------------------------------------------------------------------------
# class ids and string ids (harness-assigned, shared by model call and expectation)
# class id = 4 * base + rate code; base identifies "Name[/operator]/o<outputs>/s<special index>"
_CID, _SID = {}, {}
RCODE = {'scalar': 0, None: 0, 'control': 1, 'audio': 2, 'demand': 3}
NOUTS = {'Pan2': 2, 'Out': 0, 'ReplaceOut': 0, 'OffsetOut': 0, 'LocalOut': 0, 'XOut': 0}
META = {'localout_kr_rate': 'audio'}
SPECIAL = {'BinaryOpUGen/+': 0, 'BinaryOpUGen/-': 1, 'BinaryOpUGen/*': 2, 'UnaryOpUGen/neg': 0}
# the other operator methods of AbstractObject / functions of builtins: python name -> (server name, special index)
NAMED_BIN = {'round': ('round', 19), 'roundup': ('roundUp', 20), 'trunc': ('trunc', 21), 'min': ('min', 12), 'max': ('max', 13),
             'atan2': ('atan2', 22), 'hypot': ('hypot', 23), 'ring1': ('ring1', 30), 'ring2': ('ring2', 31), 'difsqr': ('difsqr', 34),
             'sumsqr': ('sumsqr', 35), 'absdif': ('absdif', 38), 'thresh': ('thresh', 39), 'amclip': ('amclip', 40),
             'scaleneg': ('scaleneg', 41), 'clip2': ('clip2', 42), 'excess': ('excess', 43), 'fold2': ('fold2', 44),
             'wrap2': ('wrap2', 45), 'lcm': ('lcm', 17), 'gcd': ('gcd', 18)}
NAMED_DEFAULT = {'round': 1, 'roundup': 1, 'trunc': 1, 'max': 0}          # methods with a default second operand
NAMED_UN = {'abs': ('abs', 5), 'reciprocal': ('reciprocal', 16), 'ceil': ('ceil', 8), 'floor': ('floor', 9), 'frac': ('frac', 10),
            'sign': ('sign', 11), 'log': ('log', 25), 'exp': ('exp', 15), 'sin': ('sin', 28), 'cos': ('cos', 29), 'tanh': ('tanh', 36),
            'midicps': ('midicps', 17), 'cpsmidi': ('cpsmidi', 18), 'ampdb': ('ampdb', 22), 'dbamp': ('dbamp', 21),
            'squared': ('squared', 12), 'cubed': ('cubed', 13), 'sqrt': ('sqrt', 14), 'distort': ('distort', 42), 'softclip': ('softclip', 43)}
SPECIAL.update({'BinaryOpUGen/' + v[0]: v[1] for v in NAMED_BIN.values()})
SPECIAL.update({'UnaryOpUGen/' + v[0]: v[1] for v in NAMED_UN.values()})


def basekey(name):
    """'SinOsc' / 'BinaryOpUGen/+' -> the key the implementation side reports for such a unit"""
    return '%s/o%d/s%d' % (name, NOUTS.get(name.split('/')[0], 1), SPECIAL.get(name, 0))


def base_n(key):
    if key not in _CID:
        _CID[key] = len(_CID) + 1
    return _CID[key]


def base(name):
    return cz(base_n(basekey(name)))


def cid(name, rate):
    return cz(4 * base_n(basekey(name)) + RCODE[rate])


def cid_impl(key):
    return cz(4 * base_n(key[0]) + RCODE[key[1]])


def sid(s):
    if s not in _SID:
        _SID[s] = len(_SID) + 1
    return cz(_SID[s])


def ctree(t):
    """harness tree (case side or implementation side) -> Gallina arg; None if unrepresentable"""
    k = t[0]
    if k in ('K', 'F', 'B'):
        return '(Scalar (K %s))' % cz(t[1])       # by value (bools and floats behave as their value everywhere in scope)
    if k == 'Z':
        return '(Scalar (K 0%Z))'                 # -0.0
    if k == 'U':
        if t[1] < 0:
            return None
        return '(Scalar (U %d %d))' % (t[1], t[2])
    if k == 'S':
        return '(Scalar (Str %s))' % sid(t[1])
    if k == 'N':
        return '(Scalar (Str 0%Z))'
    if k in ('T', 'L', 'C', 'M'):
        xs = [ctree(x) for x in t[1]]
        if any(x is None for x in xs):
            return None
        return '(%s [%s])' % ('Tuple' if k == 'T' else 'Lst', '; '.join(xs))
    return None


def cunits(units):
    out = []
    for key, ins in units:
        xs = [ctree(x) for x in ins]
        if any(x is None for x in xs):
            return None
        out.append('mkUnit %s [%s]' % (cid_impl(key), '; '.join(xs)))
    return '[' + '; '.join(out) + ']'


PRE = {'sin': ('SinOsc', 'audio', 1), 'sink': ('SinOsc', 'control', 1), 'ir': ('Clip', 'scalar', 1),
       'pan': ('Pan2', 'audio', 2), 'pank': ('Pan2', 'control', 2)}


def prelude_units(pre):
    us = []
    for j, kind in enumerate(pre):
        name, rate, nouts = PRE[kind]
        ins = [['K', 100 + j], ['K', 0]] + ([['K', 1]] if kind != 'sin' and kind != 'sink' else [])
        us.append([[basekey(name), rate], ins])
    return us


# ---------------------------------------------------------------------------
# generators

class Gen:
    def __init__(self, rng):
        self.rng = rng
        self.mylist = False

    def prelude(self, need_unit=False):
        n = self.rng.choice([0, 1, 2, 2, 3]) if not need_unit else self.rng.choice([1, 2, 2, 3])
        # units of ALL calculation rates, so that one list argument mixes ar / kr / ir units and numbers
        return [self.rng.choice(['sin', 'sin', 'sink', 'sink', 'ir', 'pan', 'pank']) for _ in range(n)]

    def ref(self, pre):
        j = self.rng.randrange(len(pre))
        return ['U', j, self.rng.randrange(PRE[pre[j]][2])]

    def scalar(self, pre, consts, strs=False, p_unit=0.35):
        r = self.rng.random()
        if pre and r < p_unit:
            return self.ref(pre)
        if strs and r > 0.93:
            return self.rng.choice([['S', 'x'], ['S', 'label'], ['N']])
        v = self.rng.choice(consts)
        r2 = self.rng.random()
        if v in (0, 1) and r2 < 0.15:
            return ['B', v]                       # False / True
        if v == 0 and r2 < 0.3:
            return ['Z']                          # -0.0
        return ['F', v] if r2 < 0.5 else ['K', v]

    def tree(self, pre, depth, consts, empty=0.0, tuples=0.12, strs=False, p_list=0.5, cl=0.3, p_unit=0.35):
        r = self.rng.random()
        if depth <= 0 or r > p_list + tuples:
            return self.scalar(pre, consts, strs, p_unit)
        if r < tuples:
            n = self.rng.choice([1, 2, 2, 3] + ([0] if empty else []))
            return ['T', [self.tree(pre, depth - 1, consts, empty, tuples, strs, 0.3, cl, p_unit) for _ in range(n)]]
        n = 0 if self.rng.random() < empty else self.rng.choice([1, 1, 2, 2, 2, 3, 3, 4])
        r3 = self.rng.random()
        tag = 'C' if r3 < cl else 'M' if (self.mylist and r3 > 0.93) else 'L'
        return [tag, [self.tree(pre, depth - 1, consts, empty, tuples, strs, p_list * 0.7, cl, p_unit) for _ in range(n)]]

    def aslist(self, t, tag=None):
        if t[0] not in ('L', 'C', 'M'):
            t = ['L', [t]]
        return [tag or t[0], t[1]]

    # -- case kinds ---------------------------------------------------------
    CONST = [0, 1, 2, 3, 5, 7, 220, 440, -1, -3]
    OPCONST = [2, 3, 5, 7, 11, 40, 50, -2, -7, 0, 1, -1, 0, 1]     # 0, 1, -1: the _new1 shortcuts are modelled

    def ctor(self, empty=0.04):
        name = self.rng.choice(sorted(CTORS))
        spec = CTORS[name]
        pre = self.prelude()
        arity = len(spec['defaults'])
        lo = 1 if spec['defaults'][0] is None else 0
        npos = self.rng.randint(lo, arity)
        ai = spec.get('audio_in')
        if ai is not None:
            npos = ai if self.rng.random() < 0.12 else arity      # the signal input omitted (default 0.0) or all given
        depth = self.rng.choice([0, 1, 1, 2, 2, 3, 4])
        self.mylist = True
        args = [self.tree(pre, depth, self.CONST, empty=empty, strs=True) for _ in range(npos)]
        kwargs = {}
        for j in range(npos, arity):
            if (self.rng.random() < 0.3 and ai is None) or (ai is not None and j != ai):
                kwargs[PARAMS[name][j]] = self.tree(pre, depth, self.CONST, empty=empty, strs=True)
        self.mylist = False
        return {'kind': 'ctor', 'pre': pre, 'cls': name, 'rate': self.rng.choice(spec['rates']), 'args': args, 'kwargs': kwargs}

    def clbinop(self):
        pre = self.prelude()
        d = self.rng.choice([1, 1, 2, 3])
        a = self.aslist(self.tree(pre, d, self.OPCONST, empty=0.03, tuples=0.15, p_list=0.9), 'C')
        b = self.tree(pre, d, self.OPCONST, empty=0.03, tuples=0.2, p_list=0.6)
        return {'kind': 'clbinop', 'pre': pre, 'op': self.rng.choice('+*-'), 'a': a, 'b': b}

    def clrbinop(self):
        pre = self.prelude()
        d = self.rng.choice([1, 1, 2, 3])
        b = self.aslist(self.tree(pre, d, self.OPCONST, empty=0.03, tuples=0.15, p_list=0.9), 'C')
        a = self.tree(pre, d, self.OPCONST, empty=0.03, tuples=0.25, p_list=0.6, cl=0.0, p_unit=0.0)
        if a[0] in ('L', 'T'):
            # the elements of a plain list / tuple may be anything, only the top object must not be a UGen or ChannelList
            a = [a[0], [self.tree(pre, d - 1, self.OPCONST, empty=0.03, tuples=0.2) for _ in a[1]]]
        return {'kind': 'clrbinop', 'pre': pre, 'op': self.rng.choice('+*-'), 'a': a, 'b': b}

    def clunop(self):
        pre = self.prelude()
        a = self.aslist(self.tree(pre, self.rng.choice([1, 2, 3]), self.OPCONST, empty=0.05, tuples=0.2, p_list=0.9), 'C')
        return {'kind': 'clunop', 'pre': pre, 'a': a}

    def ugenbinop(self, rev=False):
        pre = self.prelude(need_unit=True)
        d = self.rng.choice([1, 2, 3])
        y = self.tree(pre, d, self.OPCONST, empty=0.0, tuples=0.15, p_list=0.9, cl=0.0 if rev else 0.3)
        if self.rng.random() < 0.04:
            y = self.rng.choice([['L', []], ['T', []]])
        if rev and y[0] == 'U':
            y = ['K', 5]
        x = self.ref(pre)
        if rev:
            return {'kind': 'ugenrbinop', 'pre': pre, 'op': self.rng.choice('+*-'), 'a': y, 'b': x}
        return {'kind': 'ugenbinop', 'pre': pre, 'op': self.rng.choice('+*-'), 'a': x, 'b': y}

    def named_op(self):
        """every other operator method / builtins function at the ChannelList and UGen level; one side holds
        only signals, so that no pair of plain numbers (numeric kernel, C15) arises; the other mixes numbers
        and signals, numbers on the LEFT of a signal included (reflected dispatch)"""
        rng = self.rng
        pre = self.prelude(need_unit=True)
        d = rng.choice([1, 1, 2, 3])
        mixed = lambda dd, cl: self.tree(pre, dd, self.OPCONST, empty=0.0, tuples=0.0, p_list=0.8, cl=cl, p_unit=0.5)
        sigs = lambda dd, cl: self.tree(pre, dd, self.OPCONST, empty=0.0, tuples=0.0, p_list=0.7, cl=cl, p_unit=1.0)
        shape = rng.choice(['cl', 'cl', 'clr', 'ugen', 'ugenr', 'un'])
        if shape == 'un':
            name = rng.choice(sorted(NAMED_UN))
            a = self.aslist(sigs(d, 0.3), 'C')
            form = 'builtin' if (name == 'abs' and rng.random() < 0.5) else rng.choice(['method', 'function'] if name != 'abs' else ['method'])
            return {'kind': 'clunop', 'pre': pre, 'named': name, 'form': form, 'a': a}
        name = rng.choice(sorted(NAMED_BIN))
        if shape == 'cl':
            left_sig = rng.random() < 0.5
            a = self.aslist(sigs(d, 0.3) if left_sig else mixed(d, 0.3), 'C')
            b = mixed(d, 0.3) if left_sig else sigs(d, 0.3)
            form = rng.choice(['method', 'function'] + (['builtin'] if name == 'round' else []))
            if left_sig and name in NAMED_DEFAULT and rng.random() < 0.3 and (form != 'function' or name != 'max'):
                b = None                                   # the default operand
            return {'kind': 'clbinop', 'pre': pre, 'named': name, 'form': form, 'op': name, 'a': a, 'b': b}
        if shape == 'clr':
            b = self.aslist(sigs(d, 0.3), 'C')
            a = mixed(d, 0.0)
            if a[0] == 'U':
                a = ['K', 5]
            return {'kind': 'clrbinop', 'pre': pre, 'named': name, 'form': 'function', 'op': name, 'a': a, 'b': b}
        x = self.ref(pre)
        if shape == 'ugen':
            return {'kind': 'ugenbinop', 'pre': pre, 'named': name, 'form': rng.choice(['method', 'function']), 'op': name,
                    'a': x, 'b': mixed(d, 0.3)}
        y = mixed(d, 0.0)
        if y[0] == 'U':
            y = ['K', 7]
        return {'kind': 'ugenrbinop', 'pre': pre, 'named': name, 'form': 'function', 'op': name, 'a': y, 'b': x}

    def receiver(self, pre, depth, numbers):
        n = self.rng.choice([1, 2, 2, 3, 3, 4])
        items = []
        for _ in range(n):
            r = self.rng.random()
            if depth > 1 and r < 0.2:
                items.append(self.receiver(pre, depth - 1, numbers))
            elif numbers and r > 0.9:
                items.append(['K', self.rng.choice(self.OPCONST)])
            else:
                items.append(self.ref(pre))
        return ['C', items]

    def method(self):
        pre = self.prelude(need_unit=True)
        meth = self.rng.choice(sorted(METHODS))
        _, nargs, _ = METHODS[meth]
        recv = self.receiver(pre, self.rng.choice([1, 1, 2, 3]), numbers=(meth not in NUMERIC_KERNEL))
        consts = self.OPCONST + ([0] if meth.startswith('lag') and len(meth) <= 4 else [])
        args = [self.tree(pre, self.rng.choice([0, 1, 1, 2]), consts, empty=0.04, tuples=0.15, p_list=0.7) for _ in range(nargs)]
        if meth == 'range':
            # (hi - lo) * 0.5 and its sum with lo must be integers outside {0, 1, -1}
            def nums(pool):
                if self.rng.random() < 0.5:
                    return ['K', self.rng.choice(pool)]
                return ['L', [[self.rng.choice('KF'), self.rng.choice(pool)] for _ in range(self.rng.choice([1, 2, 3]))]]
            args = [nums([2, 4]), nums([8, 10, 12])]
        return {'kind': 'method', 'pre': pre, 'meth': meth, 'self': recv, 'args': args}

    def madd(self, kind='madd'):
        pre = self.prelude(need_unit=True)
        recv = self.receiver(pre, self.rng.choice([1, 1, 2]), numbers=False)
        d = self.rng.choice([0, 1, 1, 2])
        mul = self.tree(pre, d, self.OPCONST, empty=0.0, tuples=0.1, p_list=0.7)
        add = self.tree(pre, d, self.OPCONST, empty=0.0, tuples=0.1, p_list=0.5)
        if kind == 'madd' and self.rng.random() < 0.15:
            add = None                                  # default add=0.0
            if self.rng.random() < 0.4:
                mul = None                              # default mul=1.0
        return {'kind': kind, 'pre': pre, 'self': recv, 'mul': mul, 'add': add}

    def dup(self):
        pre = self.prelude()
        recv = self.aslist(self.tree(pre, self.rng.choice([1, 2]), self.CONST, empty=0.05, strs=True, p_list=0.9), 'C')
        return {'kind': 'dup', 'pre': pre, 'self': recv, 'n': self.rng.choice([0, 1, 2, 2, 3, 5])}

    def sum(self):
        pre = self.prelude()
        recv = self.aslist(self.tree(pre, self.rng.choice([1, 1, 2, 3]), self.OPCONST + [0, 0], empty=0.04, tuples=0.1, p_list=0.9, p_unit=0.75), 'C')
        return {'kind': 'sum', 'pre': pre, 'self': recv}

    def labels(self, n):
        r = self.rng.random()
        if r < 0.35:
            return ['N']
        if r < 0.55:
            return ['S', self.rng.choice(['a', 'freq', 'x y'])]
        return ['L', [['S', 'l%d' % i] for i in range(self.rng.choice([1, 2, 3, n, n + 1]))]]

    def poll(self):
        pre = self.prelude(need_unit=True)
        recv = self.receiver(pre, self.rng.choice([1, 1, 2]), numbers=False)
        trig = self.tree(pre, self.rng.choice([0, 0, 1]), [10, 4, 2, 0], tuples=0.0, p_list=0.6, p_unit=0.4)
        tid = self.tree(pre, self.rng.choice([0, 0, 1]), [-1, 3, 7, 0], tuples=0.0, p_list=0.6, p_unit=0.0)
        if self.rng.random() < 0.5:
            return {'kind': 'poll', 'pre': pre, 'self': recv, 'trig': trig, 'label': self.labels(len(recv[1])), 'tid': tid}
        run = self.tree(pre, self.rng.choice([0, 0, 1]), [1, 2, 0], tuples=0.0, p_list=0.6, p_unit=0.2)
        return {'kind': 'dpoll', 'pre': pre, 'self': recv, 'run': run, 'label': self.labels(len(recv[1])), 'tid': tid}

    def narop(self):
        # utils.list_narop with a NON-symmetric ternary operation on pure number trees
        a = self.tree([], self.rng.choice([0, 1, 2, 3]), [1, 2, 3, 0, -4], empty=0.05, tuples=0.25, p_list=0.8, cl=0.0)
        return {'kind': 'narop', 'pre': [], 'a': a, 'args': [['K', self.rng.choice([1, 2, 3])], ['K', self.rng.choice([4, 5, 6])]]}

    def alias(self, case):
        """class (4): the same argument OBJECT in two positions and/or the same objects used by two calls"""
        r = self.rng.random()
        if r < 0.12:
            case['twice'] = True
        elif r < 0.24:
            k = case['kind']
            pairs = {'clbinop': ('b', 'a'), 'madd': ('add', 'mul'), 'muladd_new': ('add', 'mul')}
            if k == 'ctor' and len(case['args']) >= 2:
                case['args'][-1] = case['args'][0]
                case['share'] = True
            elif k in pairs and not case.get('named') and case.get(pairs[k][1]) is not None and case.get(pairs[k][0]) is not None:
                case[pairs[k][0]] = case[pairs[k][1]]
                case['share'] = True
            elif k == 'method' and len(case['args']) >= 2:
                case['args'][1] = case['args'][0]
                case['share'] = True
            elif k in ('out_ar', 'out_kr') and case['output'][0] in ('L', 'C', 'M') and case['output'][1]:
                case['output'] = [case['output'][0], case['output'][1] + [case['output'][1][0]]]
                case['share'] = True
            if case.get('share') and self.rng.random() < 0.3:
                case['twice'] = True
        return case

    def out(self):
        pre = self.prelude()
        cls = self.rng.choice(['Out', 'Out', 'ReplaceOut', 'OffsetOut', 'XOut', 'XOut', 'LocalOut'])
        rate = self.rng.choice(['out_ar', 'out_ar', 'out_kr'])
        if cls == 'OffsetOut':
            rate = 'out_ar'                      # OffsetOut.kr raises NotImplementedError by design
        bus = self.tree(pre, 1, [0, 1, 2, 8], empty=0.0, tuples=0.0, p_list=0.25, p_unit=0.1)
        self.mylist = True
        output = self.tree(pre, self.rng.choice([0, 1, 2, 2, 3, 4]), [0, 0, 0, 1, 7, -1], empty=0.04, tuples=0.06, p_list=0.92)
        self.mylist = False
        case = {'kind': rate, 'pre': pre, 'cls': cls, 'bus': bus, 'output': output}
        if cls == 'XOut':
            case['xfade'] = self.tree(pre, 1, [0, 1, 5], empty=0.0, tuples=0.0, p_list=0.3, p_unit=0.2)
        if cls == 'LocalOut':
            case['bus'] = None
        return case


_LIN = ['inmin', 'inmax', 'outmin', 'outmax']
METH_SIG = {     # ChannelList convenience methods: parameter names, number of required ones
    'madd': (['mul', 'add'], 0), 'range': (['lo', 'hi'], 0), 'exprange': (['lo', 'hi'], 0),
    'curverange': (['lo', 'hi', 'curve'], 0), 'unipolar': (['mul'], 0), 'bipolar': (['mul'], 0),
    'clip': (['lo', 'hi'], 0), 'fold': (['lo', 'hi'], 0), 'wrap': (['lo', 'hi'], 0), 'min_nyquist': ([], 0),
    'blend': (['other', 'frac'], 1), 'lag': (['time'], 0), 'lag2': (['time'], 0), 'lag3': (['time'], 0),
    'lagud': (['utime', 'dtime'], 0), 'lag2ud': (['utime', 'dtime'], 0), 'lag3ud': (['utime', 'dtime'], 0),
    'varlag': (['time', 'curvature', 'wrap', 'start'], 0), 'slew': (['up', 'down'], 0),
    'prune': (['min', 'max', 'type'], 2),
    'linlin': (_LIN + ['clip'], 4), 'linexp': (_LIN + ['clip'], 4), 'explin': (_LIN + ['clip'], 4), 'expexp': (_LIN + ['clip'], 4),
    'lincurve': (_LIN + ['curve', 'clip'], 4), 'curvelin': (_LIN + ['curve', 'clip'], 4),
    'bilin': (['incenter', 'inmin', 'inmax', 'outcenter', 'outmin', 'outmax', 'clip'], 6),
    'biexp': (['incenter', 'inmin', 'inmax', 'outcenter', 'outmin', 'outmax', 'clip'], 6),
    'moddif': (['that', 'mod'], 0), 'check_bad_values': (['id', 'post'], 0)}
OTHER_METHODS = {'dup', 'sum', 'poll', 'dpoll'}          # have case kinds of their own
# methods a NUMBER element answers (UGenScalar)
SCALAR_METHODS = {'clip', 'fold', 'wrap', 'blend', 'lag', 'lag2', 'lag3', 'lagud', 'lag2ud', 'lag3ud', 'varlag', 'slew', 'prune',
                  'linlin', 'linexp', 'explin', 'expexp', 'lincurve', 'curvelin', 'bilin', 'biexp', 'moddif'}


def clmeth_sweep():
    """systematic part: EVERY convenience method with EVERY number of trailing positions left to the
    defaults (0 .. all optional arguments given), on a two-channel mixed-rate receiver -- so that a
    default-filled position of any method is exercised on every run, not by chance"""
    vals = {'clip': ['S', 'min'], 'type': ['S', 'max'], 'start': ['N'], 'other': ['U', 1, 0]}
    nums = [2, 3, 5, 7, 4, 6, 8]
    out = []
    for meth in sorted(METH_SIG):
        names, nreq = METH_SIG[meth]
        for ngiven in range(nreq, len(names) + 1):
            args = [vals.get(nm, ['K', nums[j % len(nums)]]) for j, nm in enumerate(names[:ngiven])]
            out.append({'kind': 'clmeth', 'pre': ['sin', 'sink'], 'meth': meth, 'self': ['C', [['U', 0, 0], ['U', 1, 0]]], 'args': args})
    return out


def gen_clmeth(g):
    """any ChannelList convenience method with explicit trailing optional arguments, scalars, lists and
    nested lists in every position: compared with the right-hand side of channel_list_methods_law"""
    rng = g.rng
    meth = rng.choice(sorted(METH_SIG))
    names, nreq = METH_SIG[meth]
    pre = g.prelude(need_unit=True)
    recv = g.receiver(pre, rng.choice([1, 1, 2]), numbers=(meth in SCALAR_METHODS))
    ngiven = len(names) if rng.random() < 0.5 else rng.randint(nreq, len(names))

    def one(name):
        if name in ('clip', 'type'):
            return rng.choice([['S', 'minmax'], ['S', 'min'], ['S', 'max'], ['N'], ['S', 'min'], ['N']])
        if name == 'start' and rng.random() < 0.5:
            return ['N']
        if name == 'other' or rng.random() < 0.12:
            return g.ref(pre)
        v = rng.choice(['0', '1', '-1', '2', '1/2', '1/4', '10', '-4', '440', '1/16', '3'])
        return ['Q', v] if '/' in v else [rng.choice('KF'), int(v)]

    def value(name):
        r = rng.random()
        if r < 0.5:
            return one(name)
        if r < 0.9:
            return ['L', [one(name) for _ in range(rng.choice([1, 2, 2, 3, 4]))]]
        return ['L', [one(name), ['L', [one(name) for _ in range(rng.choice([1, 2]))]]]]
    return {'kind': 'clmeth', 'pre': pre, 'meth': meth, 'self': recv, 'args': [value(nm) for nm in names[:ngiven]]}


def out_fixed(case):
    return [case[key] for key in ('bus', 'xfade') if case.get(key) is not None]


def out_rate(case):
    if case['kind'] == 'out_ar':
        return 'audio'
    # LocalOut.kr passes 'audio' to _multi_new in sc3 (sclang: 'control'); the property text does not
    # fix the rate of an output unit, so the rate the tree under test gives a mono LocalOut.kr is
    # taken as given (META) and every unit of an expanded call must have that same rate
    return META['localout_kr_rate'] if case['cls'] == 'LocalOut' else 'control'


# ---------------------------------------------------------------------------
# model call for a case

BASES = None


def bases():
    return '(mkBases %s %s %s %s %s)' % (base('BinaryOpUGen/+'), base('BinaryOpUGen/-'), base('BinaryOpUGen/*'),
                                         base('UnaryOpUGen/neg'), base('MulAdd'))


BOP = {'+': 'OAdd', '-': 'OSub', '*': 'OMul'}


def model_call(case):
    m = model_call1(case)
    if case.get('twice'):
        return 'bind (%s) (fun _ => %s)' % (m, m)
    return m


def model_call1(case):
    k = case['kind']
    T = ctree
    BB = bases()
    if k == 'ctor':
        spec = CTORS[case['cls']]
        args = list(case['args'])
        for j in range(len(args), len(spec['defaults'])):
            nm = PARAMS[case['cls']][j]
            args.append(case['kwargs'][nm] if nm in case['kwargs'] else ['K', spec['defaults'][j]])
        ai = spec.get('audio_in')
        if ai is not None and case['rate'] == 'ar':
            return 'audio_in_ctor %s %s %s [%s] %s [%s]' % (cid('DC', 'audio'), cid('K2A', 'audio'), cid(case['cls'], 'audio'),
                                                           '; '.join(T(a) for a in args[:ai]), T(args[ai]), '; '.join(T(a) for a in args[ai + 1:]))
        return 'multi_new (new1_plain %s %d) [%s]' % (cid(case['cls'], RATE[case['rate']]), spec['nouts'], '; '.join(T(a) for a in args))
    if case.get('named'):
        nm = case['named']
        if k == 'clunop':
            return 'cl_unop_named %s %s' % (base('UnaryOpUGen/' + NAMED_UN[nm][0]), T(case['a']))
        bname = base('BinaryOpUGen/' + NAMED_BIN[nm][0])
        b = case['b'] if case.get('b') is not None else ['K', NAMED_DEFAULT[nm]]
        fn = {'clbinop': 'cl_binop_named', 'clrbinop': 'cl_rbinop_named', 'ugenbinop': 'ugen_binop_named', 'ugenrbinop': 'ugen_rbinop_named'}[k]
        return '%s %s %s %s' % (fn, bname, T(case['a']), T(b))
    if k in ('clbinop', 'clrbinop'):
        fn = 'cl_binop' if k == 'clbinop' else 'cl_rbinop'
        return '%s %s %s %s %s' % (fn, BB, BOP[case['op']], T(case['a']), T(case['b']))
    if k == 'clunop':
        return 'cl_unop %s %s' % (BB, T(case['a']))
    if k == 'ugenbinop':
        return 'ugen_binop %s %s %s %s' % (BB, BOP[case['op']], T(case['a']), T(case['b']))
    if k == 'ugenrbinop':
        return 'ugen_rbinop %s %s %s %s' % (BB, BOP[case['op']], T(case['a']), T(case['b']))
    if k == 'method':
        cls, _, ctor = METHODS[case['meth']]
        m = '(MRange %s)' % BB if ctor == 'MRange' else '(%s %s)' % (ctor, base(cls))
        return 'mc_perform %s [%s] [%s]' % (m, '; '.join(T(x) for x in case['self'][1]), '; '.join(T(a) for a in case['args']))
    if k == 'narop':
        return 'list_narop narop_fn %s [%s] KList' % (T(case['a']), '; '.join(T(a) for a in case['args']))
    if k == 'dup':
        return 'cl_dup [%s] %d' % ('; '.join(T(x) for x in case['self'][1]), case['n'])
    if k == 'sum':
        return 'cl_sum %s [%s]' % (BB, '; '.join(T(x) for x in case['self'][1]))
    if k in ('poll', 'dpoll'):
        items = '; '.join(T(x) for x in case['self'][1])
        defl = '; '.join(T(['S', 'ChannelList UGen [%d]' % i]) for i in range(len(case['self'][1])))
        if k == 'poll':
            return 'cl_poll %s %s [%s] %s %s %s [%s]' % (base('Poll'), base('Impulse'), items, T(case['trig']),
                                                         T(case['label']), T(case['tid']), defl)
        return 'cl_dpoll %s [%s] %s %s %s [%s]' % (cid('Dpoll', 'demand'), items, T(case['label']), T(case['run']), T(case['tid']), defl)
    if k == 'madd':
        mul = case['mul'] if case.get('mul') is not None else ['K', 1]      # madd(mul=1.0, add=0.0)
        add = case['add'] if case.get('add') is not None else ['K', 0]
        return 'cl_madd %s [%s] %s %s' % (BB, '; '.join(T(x) for x in case['self'][1]), T(mul), T(add))
    if k == 'muladd_new':
        return 'muladd_new %s %s %s %s' % (BB, T(case['self']), T(case['mul']), T(case['add']))
    if k == 'out_ar':
        return 'out_ar_gen %s %s [%s] %s' % (cid('DC', 'audio'), cid(case['cls'], 'audio'), '; '.join(T(x) for x in out_fixed(case)), T(case['output']))
    if k == 'out_kr':
        return 'out_kr_gen %s [%s] %s' % (cid(case['cls'], out_rate(case)), '; '.join(T(x) for x in out_fixed(case)), T(case['output']))
    raise ValueError(k)


_SHOW_PRE = []


def show(t):
    k = t[0]
    if k == 'K':
        return str(t[1])
    if k == 'F':
        return '%s.0' % t[1]
    if k == 'Q':
        return repr(float(__import__('fractions').Fraction(t[1])))
    if k == 'B':
        return str(bool(t[1]))
    if k == 'Z':
        return '-0.0'
    if k == 'M':
        return 'MyList([' + ', '.join(show(x) for x in t[1]) + '])'
    if k == 'U':
        pan = t[1] < len(_SHOW_PRE) and _SHOW_PRE[t[1]] in ('pan', 'pank')
        return 'u%d' % t[1] + ('[%d]' % t[2] if pan else '')
    if k == 'S':
        return repr(t[1])
    if k == 'N':
        return 'None'
    if k == 'T':
        return '(' + ', '.join(show(x) for x in t[1]) + (',)' if len(t[1]) == 1 else ')')
    if k == 'L':
        return '[' + ', '.join(show(x) for x in t[1]) + ']'
    if k == 'C':
        return 'ChannelList([' + ', '.join(show(x) for x in t[1]) + '])'
    return '?'


def show_call(case):
    k = case['kind']
    _SHOW_PRE[:] = case['pre']
    fmt = {'sin': 'SinOsc.ar(%d, 0)', 'sink': 'SinOsc.kr(%d, 0)', 'ir': 'Clip.ir(%d, 0, 1)', 'pan': 'Pan2.ar(%d, 0, 1)', 'pank': 'Pan2.kr(%d, 0, 1)'}
    pre = '; '.join('u%d = %s' % (j, fmt[p] % (100 + j)) for j, p in enumerate(case['pre']))
    if k == 'ctor':
        a = [show(x) for x in case['args']] + ['%s=%s' % (n, show(v)) for n, v in case.get('kwargs', {}).items()]
        c = '%s.%s(%s)' % (case['cls'], case['rate'], ', '.join(a))
    elif k in ('clbinop', 'clrbinop', 'ugenbinop', 'ugenrbinop') and case.get('named'):
        bb = [show(case['b'])] if case.get('b') is not None else []
        form = case.get('form')
        if form == 'builtin':
            c = 'round(%s)' % ', '.join([show(case['a'])] + bb)
        elif form == 'method' and case['a'][0] in ('C', 'U'):
            c = '%s.%s(%s)' % (show(case['a']), case['named'], ', '.join(bb))
        else:
            c = 'builtins.%s(%s)' % (case['named'], ', '.join([show(case['a'])] + bb))
    elif k == 'clunop' and case.get('named'):
        form = case.get('form')
        c = ('abs(%s)' if form == 'builtin' else '%%s.%s()' % case['named'] if form == 'method' else 'builtins.%s(%%s)' % case['named']) % show(case['a'])
    elif k in ('clbinop', 'clrbinop', 'ugenbinop', 'ugenrbinop'):
        c = '%s %s %s' % (show(case['a']), case['op'], show(case['b']))
    elif k == 'clunop':
        c = '-%s' % show(case['a'])
    elif k in ('method', 'clmeth'):
        c = '%s.%s(%s)' % (show(case['self']), case['meth'], ', '.join(show(a) for a in case['args']))
    elif k == 'dup':
        c = '%s.dup(%d)' % (show(case['self']), case['n'])
    elif k == 'sum':
        c = '%s.sum()' % show(case['self'])
    elif k == 'poll':
        c = '%s.poll(%s, %s, %s)' % (show(case['self']), show(case['trig']), show(case['label']), show(case['tid']))
    elif k == 'dpoll':
        c = '%s.dpoll(%s, %s, %s)' % (show(case['self']), show(case['label']), show(case['run']), show(case['tid']))
    elif k == 'narop':
        c = 'utils.list_narop(lambda x, p, q: 100*x + 10*p + q, %s, %s)' % (show(case['a']), ', '.join(show(a) for a in case['args']))
    elif k == 'madd':
        c = '%s.madd(%s)' % (show(case['self']), ', '.join(show(case[q]) for q in ('mul', 'add') if case.get(q) is not None))
    elif k == 'muladd_new':
        c = 'MulAdd.new(%s, %s, %s)' % (show(case['self']), show(case['mul']), show(case['add']))
    else:
        c = '%s.%s(%s)' % (case.get('cls', 'Out'), k[-2:], ', '.join(show(x) for x in out_fixed(case) + [case['output']]))
    c += '   [same object for equal lists]' if case.get('share') else ''
    c += '   [called twice with the same argument objects]' if case.get('twice') else ''
    return (pre + '; ' if pre else '') + c


HEADER = '''From Coq Require Import ZArith List Bool. Import ListNotations.
Require Import SC3.lib.PyNum SC3.model.Mce.
Open Scope Z_scope.
Definition obs_units_eqb (a b : obs) : bool :=
  match a, b with
  | ORes _ u, ORes _ u' => list_eqb unit_eqb u u'
  | OErr c, OErr d => Z.eqb c d
  | _, _ => false
  end.
Definition narop_fn (x : arg) (extra : list arg) : M arg :=
  match x, extra with
  | Scalar (K v), [Scalar (K p); Scalar (K q)] => ret (Scalar (K (100 * v + 10 * p + q)))
  | _, _ => raise TypeError
  end.
Definition agree (c : obs * obs * bool) : bool :=
  let '(o, e, units_only) := c in if units_only then obs_units_eqb o e else obs_eqb o e.
'''
BODY = 'Eval vm_compute in bad_idx agree cases.'

FIXED = [
    # the worked examples of notes/C03.md, always run first
    {'kind': 'ctor', 'pre': [], 'cls': 'SinOsc', 'rate': 'ar', 'args': [['L', [['L', [['K', 1], ['K', 2]]], ['K', 3]]], ['L', [['K', 4], ['K', 5], ['K', 6]]]], 'kwargs': {}},
    {'kind': 'ctor', 'pre': [], 'cls': 'SinOsc', 'rate': 'ar', 'args': [['T', [['K', 1], ['K', 2]]]], 'kwargs': {}},
    {'kind': 'ctor', 'pre': [], 'cls': 'SinOsc', 'rate': 'ar', 'args': [['L', []]], 'kwargs': {}},
    {'kind': 'ctor', 'pre': [], 'cls': 'SinOsc', 'rate': 'ar', 'args': [['L', []], ['L', [['K', 1], ['K', 2]]]], 'kwargs': {}},
    {'kind': 'ctor', 'pre': ['sin', 'sin'], 'cls': 'Pan2', 'rate': 'ar', 'args': [['L', [['U', 0, 0], ['U', 1, 0]]], ['L', [['K', 3], ['K', 4], ['K', 5]]]], 'kwargs': {}},
    {'kind': 'madd', 'pre': ['sin', 'sin'], 'self': ['C', [['U', 0, 0], ['U', 1, 0]]], 'mul': ['L', [['K', 2], ['K', 3]]], 'add': ['K', 5]},
    {'kind': 'muladd_new', 'pre': ['sin', 'sin'], 'self': ['C', [['U', 0, 0], ['U', 1, 0]]], 'mul': ['L', [['K', 2], ['K', 3]]], 'add': ['K', 5]},
    {'kind': 'clbinop', 'pre': ['sin', 'sin'], 'op': '+', 'a': ['C', [['U', 0, 0], ['U', 1, 0]]], 'b': ['L', [['K', 5], ['K', 6], ['K', 7]]]},
    {'kind': 'clbinop', 'pre': ['sin', 'sin'], 'op': '*', 'a': ['C', [['U', 0, 0], ['U', 1, 0]]], 'b': ['T', [['K', 2], ['K', 3]]]},
    {'kind': 'method', 'pre': ['sin', 'sin'], 'meth': 'lag', 'self': ['C', [['U', 0, 0], ['U', 1, 0]]], 'args': [['L', [['K', 7], ['K', 8], ['K', 9]]]]},
    # mixed calculation rates inside one list argument: the rate is determined per channel
    {'kind': 'muladd_new', 'pre': ['sin', 'sink'], 'self': ['L', [['U', 0, 0], ['U', 1, 0]]], 'mul': ['K', 2], 'add': ['K', 5]},
    {'kind': 'madd', 'pre': ['sin', 'sink', 'ir'], 'self': ['C', [['U', 0, 0], ['U', 1, 0], ['U', 2, 0]]], 'mul': ['K', 2], 'add': ['K', 5]},
    {'kind': 'method', 'pre': ['sin', 'sink'], 'meth': 'range', 'self': ['C', [['U', 0, 0], ['U', 1, 0]]], 'args': [['K', 2], ['K', 8]]},
    {'kind': 'clbinop', 'pre': ['sin', 'sink', 'ir'], 'op': '*', 'a': ['C', [['U', 0, 0], ['U', 1, 0], ['U', 2, 0]]], 'b': ['K', 2]},
    {'kind': 'method', 'pre': ['sin', 'sink', 'ir'], 'meth': 'clip', 'self': ['C', [['U', 0, 0], ['U', 1, 0], ['U', 2, 0]]], 'args': [['K', 2], ['K', 8]]},
    {'kind': 'poll', 'pre': ['sin', 'sink'], 'self': ['C', [['U', 0, 0], ['U', 1, 0]]], 'trig': ['K', 10], 'label': ['N'], 'tid': ['K', -1]},
    {'kind': 'out_ar', 'pre': ['sin', 'sin'], 'cls': 'Out', 'bus': ['K', 0],
     'output': ['L', [['L', [['U', 0, 0], ['K', 0]]], ['L', [['F', 0], ['U', 1, 0], ['K', 7]]]]]},
]


def gen_cases(ctx):
    g = Gen(ctx.rng)
    n = ctx.n(90, 900)
    cases = list(FIXED)
    corpus = os.path.join(fw.VERIF, 'corpus', 'C03_mce.json')
    if os.path.exists(corpus):
        cases += json.load(open(corpus))
    A = g.alias
    for _ in range(n):
        cases.append(A(g.ctor()))
        cases.append(A(g.ctor()))
        cases.append(A(g.ctor()))
        cases.append(A(g.clbinop()))
        cases.append(A(g.clrbinop()))
        cases.append(A(g.method()))
        cases.append(A(g.out()))
    for _ in range(n // 2):
        cases.append(A(g.clunop()))
        cases.append(A(g.ugenbinop()))
        cases.append(A(g.ugenbinop(rev=True)))
        cases.append(A(g.madd()))
        cases.append(A(g.madd('muladd_new')))
        cases.append(A(g.dup()))
        cases.append(A(g.sum()))
        cases.append(A(g.poll()))
        cases.append(g.narop())
        cases.append(A(g.named_op()))
        cases.append(A(g.named_op()))
        cases.append(A(g.named_op()))
    cases.extend(clmeth_sweep())
    for _ in range(n * 2):
        cases.append(gen_clmeth(g))
    return cases


def size(t):
    return 1 + (sum(size(x) for x in t[1]) if t[0] in ('T', 'L', 'C') else 0)


def case_size(case):
    return len(json.dumps(case))


def leaf_tags(t, acc):
    """numeric leaves of a case tree -> {value: set of type tags}  (i int, f float, b bool, z -0.0)"""
    if t is None:
        return acc
    k = t[0]
    if k == 'K':
        acc.setdefault(int(t[1]), set()).add('i')
    elif k == 'F':
        acc.setdefault(int(t[1]), set()).add('f')
    elif k == 'B':
        acc.setdefault(int(t[1]), set()).add('b')
    elif k == 'Z':
        acc.setdefault(0, set()).add('z')
    elif k in ('T', 'L', 'C', 'M'):
        for x in t[1]:
            leaf_tags(x, acc)
    return acc


def impl_nums(t, out):
    if t[0] == 'K':
        out.append((t[1], t[2] if len(t) > 2 else '?'))
    elif t[0] in ('T', 'L'):
        for x in t[1]:
            impl_nums(x, out)
    return out


def tag_violation(case, o):
    """numbers are handed through unchanged: an int stays an int, 0.0 / -0.0 / False keep their type
    (the model compares numbers by value; this is the exact, type-tagged comparison)"""
    k = case['kind']
    if o['err'] is not None:
        return None
    npre = len(case['pre'])
    units = [u for u in o['units'][npre:] if u[0][0].split('/')[0] not in ('DC', 'Impulse', 'K2A')]
    if k == 'ctor':
        slots = list(case['args'])
        for j in range(len(slots), len(PARAMS[case['cls']])):
            slots.append(case.get('kwargs', {}).get(PARAMS[case['cls']][j]))
        for u in units:
            for j, x in enumerate(u[1]):
                if j < len(slots) and slots[j] is not None:
                    allowed = leaf_tags(slots[j], {})
                    for v, tg in impl_nums(x, []):
                        if tg not in allowed.get(v, ()):
                            return 'argument %d: the number %s arrived as type tag %r, given %s' % (j, v, tg, sorted(allowed.get(v, ())))
        return None
    if k in ('out_ar', 'out_kr', 'poll', 'dpoll', 'dup') or (k == 'method' and case['meth'] != 'range'):
        allowed = {}
        for key in ('self', 'bus', 'xfade', 'output', 'trig', 'tid', 'run'):
            if key in case:
                leaf_tags(case[key], allowed)
        for a in case.get('args', []) if k == 'method' else []:
            leaf_tags(a, allowed)
        nums = []
        for u in units:
            for x in u[1]:
                impl_nums(x, nums)
        if o['res'] is not None and k != 'out_ar' and k != 'out_kr':
            impl_nums(o['res'], nums)
        for v, tg in nums:
            if tg not in allowed.get(v, ()):
                return 'the number %s arrived as type tag %r, given %s' % (v, tg, sorted(allowed.get(v, ())))
    return None


def correspond(ctx):
    c = Corr()
    cases = gen_cases(ctx)
    impl_res = ctx.impl('c03_mce', {'cases': cases}, timeout=900)
    out = impl_res['out']
    META.update({k2: v for k2, v in impl_res.get('meta', {}).items() if k2 in META})
    c.notes.append('tree under test: LocalOut.kr creates a %s-rate unit' % META['localout_kr_rate'])
    items, direct_bad, clm_bad, item_idx = [], [], [], []
    for idx, (case, o) in enumerate(zip(cases, out)):
        k = case['kind']
        c.count('kind:' + k + (':' + case['cls'] if k in ('out_ar', 'out_kr') else ''))
        units_only = k in ('out_ar', 'out_kr')
        if k == 'clmeth':
            # model-free side of channel_list_methods_law: the whole call against the per-channel calls of
            # the theorem's right-hand side (leaf = the element's own method), result tree and ORDERED units
            if 'clmeth' not in o:
                direct_bad.append((idx, 'implementation runner: %s' % (o['err'],)))
                continue
            A, B = o['clmeth']['A'], o['clmeth']['B']
            c.count('clmeth:' + case['meth'])
            c.count('clmeth-result:' + (A['err'] or 'ok'))
            npre = len(case['pre'])
            if (A['res'], A['err'], A['units'][npre:]) != (B['res'], B['err'], B['units'][npre:]) or \
               (A['err'] is None and A['top'] != 'ChannelList'):
                clm_bad.append((idx, A, B))
            elif A['err'] is None and len(A['units']) - npre >= 1:
                c.nontriv(case)
            continue
        pre = cunits(prelude_units(case['pre']))
        if o['err'] is not None:
            code = o['err'][0]
            c.count('result:' + (o['err'][1].split(':')[0] if code != 7 else 'harness-error'))
            exp = '(OErr %s)' % cz(code)
            if code in (7, 8):
                direct_bad.append((idx, 'implementation raised %s' % o['err'][1]))
        else:
            res = ctree(o['res']) if not units_only else '(Lst [])'
            us = cunits(o['units'])
            if res is None or us is None:
                direct_bad.append((idx, 'implementation returned a value outside the model universe: %s / %s' % (o['res'], o['units'])))
                exp = '(OErr 99)'
            else:
                exp = '(ORes %s %s)' % (res, us)
            if not units_only and k != 'narop' and o['res'][0] == 'L' and o['top'] != 'ChannelList':
                direct_bad.append((idx, 'expanded result is a %s, not a ChannelList' % o['top']))
            created = len(o['units']) - len(case['pre'])
            c.count('result:ok')
            c.count('units_created:' + ('0' if created == 0 else '1' if created == 1 else '2-4' if created <= 4 else '5-16' if created <= 16 else '>16'))
            if (o['res'] and o['res'][0] == 'L') or created >= 2:
                c.nontriv(case)
        if o.get('mutated'):
            direct_bad.append((idx, "the call changed the caller's argument lists in place"))
            c.count('mutated-arguments')
        tv = tag_violation(case, o)
        if tv:
            direct_bad.append((idx, tv))
        for flag in ('share', 'twice'):
            if case.get(flag):
                c.count('aliasing:' + flag)
        items.append('(observe (%s) %s, %s, %s)' % (model_call(case), pre, exp, 'true' if units_only else 'false'))
        item_idx.append(idx)
    bad, errs = fw.check_shards(ctx, 'mce', HEADER, items, BODY, shard=120)
    c.evaluations = len(cases)
    c.rule = ('random argument shapes (scalars incl. strings/None, tuples, lists and ChannelLists of lengths 0-4, nesting depth <= 3, '
              'default-filled and keyword positions) given to 17 real UGen classes whose ar/kr/ir delegate to _multi_new directly '
              '(incl. the two-output Pan2) or after converting the signal input to audio rate (delay-line family), to + * - and unary minus on ChannelLists and on UGens (both operand orders), to the '
              'ChannelList methods lag lag2 lag3 lagud slew clip fold wrap moddif range madd dup sum poll dpoll, to MulAdd.new, and to EVERY output constructor (Out ReplaceOut OffsetOut XOut LocalOut, .ar and .kr) with nested channel '
              'arrays and literal zeros; compared: the result tree (units by creation index and output channel, constants by value) '
              'and the complete list of units created in the SynthDef in creation order with their input vectors, or the exception '
              'kind.  non-trivial = the call expanded (result is a channel list) or created at least two units')
    for e in errs:
        c.failures.append(Failure('correspondence', 'coq evaluation of the model failed: ' + e))
    bad = [item_idx[i] for i in bad]
    allbad = {i: 'model and implementation disagree' for i in bad}
    for i in bad:
        c.count('disagree:' + cases[i]['kind'])
    for i, why in direct_bad:
        allbad[i] = why
    ranked = sorted(allbad, key=lambda i: case_size(cases[i]))
    for i in ranked[:8]:
        c.failures.append(Failure('correspondence', '%s on  %s  : implementation result=%s units=%s err=%s' % (
            allbad[i], show_call(cases[i]), out[i]['res'], out[i]['units'][len(cases[i]['pre']):], out[i]['err']),
            replay={'call': show_call(cases[i]), 'case': cases[i], 'impl': out[i]}))
    for i, A, B in sorted(clm_bad, key=lambda t: case_size(cases[t[0]]))[:4]:
        npre = len(cases[i]['pre'])
        c.failures.append(Failure('search', 'ChannelList.%s does not follow the wrap-and-zip law: %s : the call gives %s / %d units %s, '
                                  'the per-channel calls give %s / %d units %s' % (
                                      cases[i]['meth'], show_call(cases[i]), A['err'] or json.dumps(A['res'])[:200], len(A['units']) - npre,
                                      json.dumps(A['units'][npre:])[:300], B['err'] or json.dumps(B['res'])[:200], len(B['units']) - npre,
                                      json.dumps(B['units'][npre:])[:300]),
                                  signature='C03:clmeth:' + cases[i]['meth'], found_input=True, theorem='channel_list_methods_law',
                                  replay={'call': show_call(cases[i]), 'case': cases[i], 'whole_call': A, 'per_channel_calls': B}))
    known = set(METH_SIG) | OTHER_METHODS
    newm = [m for m in impl_res.get('meta', {}).get('channel_list_methods', []) if m not in known]
    if newm:
        c.notes.append('ChannelList methods without a case kind: %s' % newm)
    c.samples = [{'call': show_call(k), 'impl_result': o['res'], 'impl_units_created': len(o['units']) - len(k['pre']), 'err': o['err']}
                 for k, o in list(zip(cases, out))[:8]]
    ctx.c03_cases = cases
    # the model-free law probe also runs on every check (smaller sample; full size in search)
    for f in law_probe(ctx, [], ctx.n(40, 400)):
        c.failures.append(f)
    return c


def search(ctx, failures):
    return law_probe(ctx, failures, ctx.n(150, 1500))


def law_probe(ctx, failures, n):
    """Probe the wrap-and-zip law directly on the implementation (no model involved):
    f(lists) must equal the channel list of f(element i of every list), with as many units."""
    g = Gen(ctx.rng)
    def probeable(k):
        # tuples are sequences for list_binop (docstring, pinned by tests/test_multichannel.py): outside the probe
        return not (k['kind'] in ('clbinop', 'clrbinop') and '"T"' in json.dumps(k))
    cases = [k for k in FIXED if probeable(k)]
    for f in failures:
        k = (f.replay or {}).get('case')
        if k and probeable(k):
            cases.append(k)
    for _ in range(n):
        cases.append(g.ctor(empty=0.0))
        cases.append(g.method())
        cases.append(g.madd())
        cases.append(g.madd('muladd_new'))
        cases.append(g.ugenbinop())
        k = g.clbinop()
        if probeable(k):
            cases.append(k)
        k = g.out()
        if probeable(k):
            cases.append(k)
        cases.append(g.sum())
        cases.append(g.poll())
    res = ctx.impl('c03_law', {'cases': cases}, timeout=900)
    found = []
    seen = set()
    for b in sorted(res['bad'], key=lambda b: (b['whole_units'] == b['parts_units'], b['case'] not in FIXED, case_size(b['case']))):
        k = b['case']
        key = k['kind'] + ':' + k.get('meth', k.get('cls', k.get('op', '')))
        if key in seen:
            continue
        seen.add(key)
        sig = 'C03:cl_madd_not_zipped' if k['kind'] == 'madd' else 'C03:law:' + key
        if k['kind'] in ('sum', 'poll'):
            found.append(Failure('search', 'ChannelList.%s: %s : %s' % (k['kind'], show_call(k), b['why']), signature=sig,
                                 replay={'call': show_call(k), 'case': k, 'observed': b['whole'], 'expected': b['parts']},
                                 found_input=True, theorem='channel_list_poll_law' if k['kind'] == 'poll' else None))
            continue
        if k['kind'] in ('out_ar', 'out_kr'):
            found.append(Failure('search', 'output units must receive the spliced channel array, zeros silenced: %s : %s' % (show_call(k), b['why']),
                                 signature=sig, replay={'call': show_call(k), 'case': k, 'units_created': b['whole']},
                                 found_input=True, theorem='out_splice_and_silence_all_classes'))
            continue
        found.append(Failure('search', 'wrap-and-zip law fails on the implementation: %s : %s (whole call: %d units, per-channel calls: %d units); '
                             'result %s, expected the channel list of %s' % (show_call(k), b['why'], b['whole_units'], b['parts_units'],
                                                                           json.dumps(b['whole'])[:400], json.dumps(b['parts'])[:400]),
                             signature=sig, replay={'call': show_call(k), 'case': k, 'observed': b['whole'], 'expected_channels': b['parts'],
                                                    'observed_units': b['whole_units'], 'expected_units': b['parts_units'],
                                                    'replay_cmd': 'PYTHONPATH=$SC3_REPO:/verif/harness /venv/bin/python harness/impl/c03_law.py <in.json> <out.json>'},
                             found_input=True, theorem='channel_list_methods_law' if k['kind'] in ('madd', 'method') else 'mce_law'))
        if len(found) >= 4:
            break
    return found
