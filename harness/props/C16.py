"""C16 -- bus, buffer and node-id allocation is safe and complete."""
import json, os
import fw
from fw import Corr, Failure, cz, cbool, clist, copt

TITLE = 'Bus, buffer and node-id allocation is safe and complete'
TRANSLATED = ['Gen_builtins']          # props/C16.v evaluates the regenerated py_wrap at the node-id wrap boundary (Example)
MODEL_TARGETS = ['model/Alloc.vo', 'model/NodeId.vo', 'model/AllocReserve.vo', 'model/ServerAlloc.vo']
ALLOWED_AXIOMS = []
TRUSTED = [
    'hand-written models coq/model/Alloc.v (ContiguousBlockAllocator) and coq/model/NodeId.v (NodeIDAllocator), tied to '
    'sc3/synth/_engine.py by differential histories with recorded tie-breaks (state compared after every operation)',
    'a ContiguousBlock object is modelled by its value; identity of the objects in _freed with those in _array is checked on the implementation at run time',
    'CPython dict insertion order, list indexing (negative indices), set membership by identity',
    'server.py partition arithmetic transcribed as Alloc.partition and compared with the allocators Server builds in NRT mode',
]
ASSUMES = ['alloc is called with n >= 0 (n < 0 is modelled and refuted: theorem alloc_negative_size_breaks_safety); free with any integer',
           'public reserve() is not called anywhere in sc3 and is not in the alphabet of the property (modelled in AllocReserve.v; '
           'theorem reserve_releases_live_predecessor shows it is unsafe)']

SIG_F1 = 'C16:find_next-absolute-index-vs-relative-size'
SIG_FOREIGN = 'C16:free-below-offset-negative-index'
SIG_D7 = 'C16:granted-client-id-refused-by-local-max-logins'


# ---------------------------------------------------------------------------
def gen_case(rng, malformed=False):
    size = rng.choice([1, 2, 3, 4, 5, 6, 7, 8, 10, 12, 16, 20, 32, 48, 64])
    pos = rng.choice([0, 0, 1, 2, 3])
    if pos >= size and not malformed:
        pos = 0
    client = rng.choice([0, 1, 2, 3])
    io = rng.choice([0, 0, 0, 2, 4, 7])
    off = client * size + io
    ops = []
    avail = size - pos
    sizes = [1, 1, 1, 2, 2, 3, 4, 5, max(1, avail // 2), max(1, avail // 3), avail, avail + 1]
    for _ in range(rng.randint(2, 40 if size > 8 else 24)):
        r = rng.random()
        if r < 0.50:
            ops.append(['a', rng.choice(sizes), rng.randrange(1000)])
        elif r < 0.88:
            ops.append(['fl', rng.randrange(1000)])
        elif r < 0.93:
            ops.append(['fd'])
        elif r < 0.965:
            ops.append(['f', off + rng.randrange(0, size)])        # inside the partition, mostly never allocated
        elif r < 0.99:                                             # outside the partition: ignored by free()
            ops.append(['f', rng.choice([off - 1, off + size, off - size, off - size - 1, off + 5 * size, -3, off - 2, off + size + 1])])
        else:
            ops.append(['a', 0, rng.randrange(1000)])              # alloc(0)
    if malformed:
        k = rng.randrange(len(ops) + 1)
        bad = rng.choice([['a', -1, 1], ['a', -2, 0], ['a', -size, 0]])
        ops = ops[:k] + [bad]          # outside the property's alphabet: compared informally, ends the history
        if rng.random() < 0.15:
            pos = size + rng.choice([0, 1])      # constructor fails
    return {'size': size, 'pos': pos, 'off': off, 'ops': ops}


def gen_fill_case(rng):
    """boundary-biased: fill the partition exactly, free first / last / neighbours (merge with previous, next, both), ask for everything"""
    size = rng.choice([1, 2, 3, 4, 5, 6, 8, 10, 12, 16, 24])
    pos = rng.choice([0, 0, 1, 2, 3])
    if pos >= size - 1:
        pos = 0
    off = rng.choice([0, 1, 2, 3]) * size + rng.choice([0, 0, 2, 4, 7])
    avail = size - pos
    ops, k = [], 0
    while k < avail:
        n = min(avail - k, rng.choice([1, 1, 1, 2, 2, 3]))
        ops.append(['a', n, rng.randrange(1000)])
        k += n
    ops.append(['a', 1, 0])
    nblocks = len(ops) - 1
    order = list(range(nblocks))
    rng.shuffle(order)
    if rng.random() < 0.5:                     # make sure first and last block are among the freed ones
        order = [0, nblocks - 1] + [j for j in order if j not in (0, nblocks - 1)]
    for j in order[:rng.randint(min(2, nblocks), nblocks)]:
        ops.append(['fi', j])
        if rng.random() < 0.3:
            ops.append(['a', rng.choice([1, 2, avail]), rng.randrange(1000)])
    ops += [['a', avail, 0], ['a', 1, 0]]
    return {'size': size, 'pos': pos, 'off': off, 'ops': ops}


def coq_ops(ops):
    return '(%s : list op)' % clist(['OAlloc %s %s' % (cz(o[1]), cz(o[2] if o[2] is not None else 0)) if o[0] == 'a' else 'OFree %s' % cz(o[1]) for o in ops])


def coq_entry(e):
    code = e[0]
    if code >= 2:
        return '(%s, 0%%Z, (0%%Z, [], []))' % cz(code)
    cells = clist(['(%s, (%s, %s, %s))' % (cz(c[0]), cz(c[1]), cz(c[2]), cbool(c[3])) for c in e[3]])
    freed = clist(['(%s, %s)' % (cz(k), clist([cz(x) for x in s])) for k, s in e[4]])
    return '(%s, %s, (%s, %s, %s))' % (cz(code), cz(e[1]), cz(e[2]), cells, freed)


def coq_entries(es):
    return '(%s : list entry)' % clist([coq_entry(e) for e in es])


def concrete(ops, entries):
    """ops with the recorded choice as oracle."""
    out = []
    for o, e in zip(ops, entries):
        if o[0] == 'a':
            out.append(['a', o[1], e[5]])
        else:
            out.append(['f', o[1]])
    return out


HEADER = ('From Coq Require Import ZArith List Bool. Import ListNotations.\n'
          'Require Import SC3.lib.PyNum SC3.model.Alloc SC3.model.NodeId SC3.model.ServerAlloc.\nOpen Scope Z_scope.\n')

OPT_FIELDS = ('audio_buses', 'control_buses', 'buffers', 'input_channels', 'output_channels', 'reserved_audio_buses',
              'reserved_control_buses', 'reserved_buffers', 'max_logins', 'initial_node_id')
KIND_NO = {'audio': 0, 'control': 1, 'buffer': 2}


def coq_opts(o):
    return '(mkO %s)' % ' '.join(cz(o[f]) for f in OPT_FIELDS)


def correspond(ctx):
    c = Corr()
    rng = ctx.rng
    cases = []
    corpus = os.path.join(fw.VERIF, 'corpus', 'C16_histories.json')
    if os.path.exists(corpus):
        cases += json.load(open(corpus))
    ncorpus = len(cases)
    cases += [gen_case(rng) for _ in range(ctx.n(380, 6000))]
    cases += [gen_fill_case(rng) for _ in range(ctx.n(150, 2500))]
    cases += [gen_case(rng, True) for _ in range(ctx.n(120, 1200))]
    # several allocators alive at once (the partitions of one index space), interleaved
    mcases = []
    for _ in range(ctx.n(30, 400)):
        logins = rng.choice([2, 3, 4])
        io = rng.choice([0, 0, 2, 4])
        per = rng.choice([4, 6, 8, 12])
        resv = rng.choice([0, 0, 1])
        total = io + logins * per + rng.randrange(logins)
        params = [[per, resv, per * k + io] for k in range(logins)]
        mops = []
        for _ in range(rng.randint(6, 50)):
            k = rng.randrange(logins)
            r = rng.random()
            if r < 0.5:
                mops.append(['a', k, rng.choice([1, 1, 2, 3, per - resv]), rng.randrange(1000)])
            elif r < 0.9:
                mops.append(['fl', k, rng.randrange(1000)])
            else:                                   # an address of ANOTHER client's partition (or of this one)
                mops.append(['f', k, io + rng.randrange(logins * per)])
        mcases.append({'total': total, 'io': io, 'logins': logins, 'reserved': resv, 'params': params, 'ops': mops})
    node_cases = []
    for u in [0, 1, 2, 5, 31]:
        for it in [1000, 0, 1, 2, 67108863, 67108862, 67108860]:
            node_cases.append({'user': u, 'init': it, 'start': None, 'count': rng.randint(1, 12)})
            node_cases.append({'user': u, 'init': it, 'start': 67108863 - rng.randint(0, 6), 'count': rng.randint(2, 14)})
    node_cases.append({'user': 32, 'init': 1000, 'start': None, 'count': 1})
    # public reserve(): not in the property's alphabet (no caller in sc3); compared with model/AllocReserve.v informally
    rcases = []
    for _ in range(ctx.n(80, 1500)):
        size = rng.choice([4, 6, 8, 12, 16])
        pos = rng.choice([0, 0, 1])
        off = rng.choice([0, 0, 0, size, 5])
        rops = []
        for _ in range(rng.randint(1, 8)):
            r = rng.random()
            if r < 0.4:
                rops.append(['a', rng.choice([1, 1, 2, 3, 4]), rng.randrange(1000)])
            elif r < 0.6:
                rops.append(['f', off + rng.randrange(size)])
            else:
                rops.append(['r', off + rng.randrange(size), rng.choice([1, 1, 2, 3])])
        rcases.append({'size': size, 'pos': pos, 'off': off, 'ops': rops})
    res = ctx.impl('c16_alloc', {'cases': cases, 'node': node_cases, 'probe_foreign': True,
                                 'reserve_cases': rcases, 'probe_reserve': True, 'multi_cases': mcases})
    items, conc, informal = [], [], []
    for k, (case, ops, entries) in enumerate(zip(cases, res['ops'], res['cases'])):
        cops_all = concrete(ops, entries)
        lo_, hi_ = case['off'], case['off'] + case['size']
        cut = len(cops_all)
        for j, o in enumerate(cops_all):
            if o[0] == 'a' and o[1] < 0:
                cut = j
                break
        init_failed = not (0 <= case['pos'] < case['size'])
        if cut < len(cops_all) or init_failed:
            c.count('outside-alphabet:' + ('constructor' if init_failed else 'alloc n<0'))
            informal.append('((%s, %s, %s), %s, %s)' % (cz(case['size']), cz(case['pos']), cz(case['off']), coq_ops(cops_all),
                                                      coq_entries(entries)))
        if init_failed:
            cut = 0
            entries = []
        cops, entries = cops_all[:cut], entries[:cut]
        conc.append({'size': case['size'], 'pos': case['pos'], 'off': case['off'], 'ops': cops})
        items.append('((%s, %s, %s), %s, %s)' % (cz(case['size']), cz(case['pos']), cz(case['off']), coq_ops(cops),
                                                coq_entries(entries)) if not init_failed else
                     '((4%Z, 0%Z, 0%Z), ([] : list op), ([] : list entry))')
        # distribution / non-triviality
        c.count('offset:' + ('zero' if case['off'] == 0 else 'nonzero'))
        c.count('reserved:%d' % min(case['pos'], 4))
        merged = chose = False
        alias_reported = False
        prev_cells = 1
        for o, e in zip(cops, entries):
            c.count('op:' + (('alloc' if o[1] >= 1 else 'alloc(0)') if o[0] == 'a' else 'free' if lo_ <= o[1] < hi_ else 'free outside partition'))
            c.count('result:' + {0: 'none' if o[0] == 'a' else 'free-returned', 1: 'address', 2: 'IndexError', 3: 'AttributeError'}.get(e[0], 'other-exception'))
            if e[0] < 2:
                if o[0] == 'f' and len(e[3]) < prev_cells:
                    merged = True
                    c.count('free:merged')
                if o[0] == 'a' and e[5] is not None:
                    chose = True
                    c.count('alloc:from-freed')
                prev_cells = len(e[3])
                if not e[6] and not alias_reported:
                    alias_reported = True
                    c.failures.append(Failure('correspondence', 'objects in _freed are not the objects of _array (identity model broken) in %s' % conc[-1], replay={'case': conc[-1]}))
            else:
                c.failures.append(Failure('correspondence', 'exception %s inside the property alphabet in %s' % (e[-1], conc[-1]), replay={'case': conc[-1]}))
        if merged and chose:
            c.nontriv(json.dumps(conc[-1]))
    body = 'Eval vm_compute in bad_idx (check_case true) cases.'
    bad, errs = fw.check_shards(ctx, 'hist', HEADER, items, body, shard=60)
    c.evaluations = sum(len(x) for x in res['cases'])
    if informal:
        ibad, ierrs = fw.check_shards(ctx, 'hist_informal', HEADER, informal, body, shard=60)
        c.notes.append('operations outside the verified alphabet (alloc n<0, constructor with pos>=size): '
                       '%d histories, implementation differs from the line-by-line model in %d (informational, not a failure)' % (len(informal), len(ibad) + len(ierrs)))
    for e in errs:
        c.failures.append(Failure('correspondence', 'coq evaluation of history cases failed: ' + e))
    # classify disagreements: does the implementation behave like the unrepaired _find_next ?
    sig_of = {}
    if bad:
        sub = [items[i] for i in bad]
        bad2, errs2 = fw.check_shards(ctx, 'hist_abs', HEADER, sub, 'Eval vm_compute in bad_idx (check_case false) cases.', shard=60)
        still = set(bad[j] for j in bad2)
        for i in bad:
            sig_of[i] = None if (i in still or errs2) else SIG_F1
    bad_sorted = sorted(bad, key=lambda i: len(conc[i]['ops']))
    for i in bad_sorted[:6]:
        c.failures.append(Failure(
            'correspondence',
            'model (Alloc.v, repaired _find_next) and implementation disagree on history %s; implementation trace tail %s%s' % (
                conc[i], res['cases'][i][-1][:5],
                '; the implementation agrees with the model variant rel=false (absolute index compared with relative size)' if sig_of.get(i) else ''),
            replay={'case': conc[i], 'impl_trace': res['cases'][i], 'corpus_case': i < ncorpus}, signature=None))
    c.notes.append('history cases: %d (corpus %d), disagreements: %d, of which explained by the rel=false variant: %d' % (
        len(cases), ncorpus, len(bad), sum(1 for v in sig_of.values() if v)))

    # frees of addresses that are not the allocator's (hardware buses, other clients): must not free a live block
    for b in res.get('foreign', [])[:1]:
        b['user_level'] = ("default Server (audio allocator size 1020, addr_offset 4): b1 = AudioBus(1016); b2 = AudioBus(4)  # 1020..1023; "
                           "AudioBus(2, s, index=0).free()  # hardware bus object; AudioBus(4).index == 1020 while b2 is live")
        c.failures.append(Failure('search', 'ContiguousBlockAllocator(size=%d, pos=%d, addr_offset=%d), history %s: %s' % (
            b['size'], b['pos'], b['off'], b['ops'], b['why']), signature=SIG_FOREIGN, replay=b, found_input=True,
            theorem='alloc_disjoint_from_live (its hypothesis "free only inside the partition" is not enforced by free())'))
    c.count('probe:foreign-free', 1)

    # interleaved allocators: every client's history against the model, constructor arguments against Alloc.partition
    mitems, minfo = [], []
    for mc, logs in zip(mcases, res.get('multi', [])):
        for k, (ops_k, ents_k) in enumerate(logs):
            cops_k = concrete(ops_k, ents_k)
            if any(e[0] >= 2 or not e[6] for e in ents_k):
                c.failures.append(Failure('correspondence', 'interleaved allocators: exception or shared state between allocator instances, client %d of %s' % (k, mc),
                                          replay={'multi_case': mc}))
            sz, p_, off_ = mc['params'][k]
            mitems.append('((%s, %s, %s, %s, %s), (%s, %s, %s), %s, %s)' % (
                cz(mc['total']), cz(mc['io']), cz(mc['logins']), cz(mc['reserved']), cz(k), cz(sz), cz(p_), cz(off_),
                coq_ops(cops_k), coq_entries(ents_k)))
            minfo.append((mc, k, cops_k))
            c.evaluations += len(cops_k)
            c.count('interleaved:ops', len(cops_k))
            if any(o[0] == 'f' for o in cops_k) and k > 0:
                c.nontriv(json.dumps([mc['params'], k, cops_k]))
    if mitems:
        mbad, merrs = fw.check_shards(ctx, 'multi', HEADER, mitems, 'Eval vm_compute in bad_idx (check_part true) cases.', shard=60)
        for e in merrs:
            c.failures.append(Failure('correspondence', 'coq evaluation of interleaved cases failed: ' + e))
        for i in mbad[:3]:
            mc, k, cops_k = minfo[i]
            c.failures.append(Failure('correspondence', 'interleaved allocators: client %d of %s disagrees with the model on %s' % (k, mc['params'], cops_k),
                                      replay={'multi_case': mc, 'client': k, 'case': {'size': mc['params'][k][0], 'pos': mc['params'][k][1], 'off': mc['params'][k][2], 'ops': cops_k}}))

    # reserve(): informational
    ritems = []
    for case, ops, entries in zip(rcases, res.get('reserve_ops', []), res.get('reserve_cases', [])):
        cops = clist(['RA %s %s' % (cz(o[1]), cz(e[5] if e[5] is not None else 0)) if o[0] == 'a' else
                      'RF %s' % cz(o[1]) if o[0] == 'f' else 'RR %s %s' % (cz(o[1]), cz(o[2])) for o, e in zip(ops, entries)])
        ents = []
        for e in entries:
            cells = clist(['(%s, (%s, %s, %s))' % (cz(x[0]), cz(x[1]), cz(x[2]), cbool(x[3])) for x in e[3]])
            freed = clist(['(%s, %s)' % (cz(k), clist([cz(x) for x in s])) for k, s in e[4]])
            ents.append('(%s, %s, (%s, %s, %s))' % (cz(e[0]), cz(e[1]), cz(e[2]), cells, freed))
            c.count('reserve:' + {0: 'none', 1: 'block', 2: 'IndexError', 3: 'AttributeError'}.get(e[0], 'other'))
        ritems.append('((%s, %s, %s), (%s : list opr), (%s : list entry))' % (cz(case['size']), cz(case['pos']), cz(case['off']), cops, clist(ents)))
    if ritems:
        rbad, rerrs = fw.check_shards(ctx, 'reserve', HEADER + 'Require Import SC3.model.AllocReserve.\n', ritems,
                                      'Eval vm_compute in bad_idx (check_case_r true) cases.', shard=60)
        c.notes.append('public reserve() (no caller in sc3, outside the property): %d histories with reserve ops, implementation differs from '
                       'model/AllocReserve.v (reserve as in the snapshot) in %d, coq errors %d (informational)' % (len(ritems), len(rbad), len(rerrs)))
    rp = res.get('reserve_probe')
    if rp:
        c.notes.append('reserve(2,1) after alloc(2), alloc(2): %s' % rp)
        if rp.get('corrupts'):
            c.known_demonstrated.append(('C16:reserve-releases-live-predecessor',
                                         'reserve() on a live block start raises and releases the live predecessor (theorem reserve_releases_live_predecessor)'))

    # node ids
    nitems, nidx = [], []
    for k, (nc, nr) in enumerate(zip(node_cases, res['node'])):
        c.evaluations += 1
        if nc['user'] > 31:
            if nr.get('err') != 'Exception':
                c.failures.append(Failure('correspondence', 'NodeIDAllocator(user=%d) did not raise' % nc['user'], replay={'node': nc}))
            c.count('node:user>31')
            continue
        if 'err' in nr:
            c.failures.append(Failure('correspondence', 'NodeIDAllocator raised %s on %s' % (nr['err'], nc), replay={'node': nc}))
            continue
        c.count('node:wrap' if nc['start'] is not None else 'node:plain')
        if nc['start'] is not None:
            c.nontriv(json.dumps(nc))
        nitems.append('((%s, %s, %s, %d%%nat), (%s, %s, %s, %s))' % (
            cz(nc['user']), cz(nc['init']), copt(nc['start'], cz), nc['count'],
            clist([cz(x) for x in nr['ids']]), cz(nr['temp']), cz(nr['mask']), cz(nr['id_offset'])))
        nidx.append(k)
    nbad, nerrs = fw.check_shards(ctx, 'node', HEADER, nitems, 'Eval vm_compute in bad_idx check_node cases.', shard=100)
    for e in nerrs:
        c.failures.append(Failure('correspondence', 'coq evaluation of node-id cases failed: ' + e))
    for i in nbad[:4]:
        c.failures.append(Failure('correspondence', 'NodeId model and implementation disagree on %s: impl %s' % (node_cases[nidx[i]], res['node'][nidx[i]]),
                                  replay={'node': node_cases[nidx[i]], 'impl': res['node'][nidx[i]]}))

    # through Server options / Bus / Buffer / Node (NRT, no server process); object-level expectations are checked by the driver
    def rand_opts():
        logins = rng.choice([1, 2, 3, 4, 8])
        io_in, io_out = rng.choice([(2, 2), (0, 2), (8, 8), (1, 0), (0, 0)])
        return {'max_logins': logins, 'input_channels': io_in, 'output_channels': io_out,
                'audio_buses': io_in + io_out + logins * rng.choice([6, 9, 16, 31]) + rng.choice([0, 1, 3]),
                'control_buses': logins * rng.choice([5, 8, 20]) + rng.choice([0, 2]),
                'buffers': logins * rng.choice([4, 8, 13]) + rng.choice([0, 1]),
                'reserved_audio_buses': rng.choice([0, 0, 1, 2]), 'reserved_control_buses': rng.choice([0, 1, 3]),
                'reserved_buffers': rng.choice([0, 0, 2]),
                'initial_node_id': rng.choice([1000, 1000, 0, 1, 67108863, 67108861, 67108858])}

    def shares(o, m):
        io = o['input_channels'] + o['output_channels']
        return {'A': (o['audio_buses'] - io) // m - o['reserved_audio_buses'], 'C': o['control_buses'] // m - o['reserved_control_buses'],
                'B': o['buffers'] // m - o['reserved_buffers']}

    def login_for(o, cur_m=None):
        # a reply "client id of m" under which the constructors do not raise (every kind keeps a non-empty share)
        for _ in range(10):
            m = rng.choice([None, 1, 2, 3, 4, 6, 8, 16, o['max_logins']])
            n = m or cur_m or o['max_logins']
            if n <= 32 and all(v >= 1 for v in shares(o, n).values()):
                return ['L', rng.randrange(n), m]
        return None

    def as_message(lg):
        # the same login as the OSC reply ['/done', '/notify', id, count] (or without count) reaching the 'done' responder
        if lg is None or rng.random() < 0.35:
            return lg
        reply = [lg[1]] + ([lg[2]] if lg[2] is not None else []) + ([7] if lg[2] is not None and rng.random() < 0.2 else [])
        return ['M', rng.choice(['booting', 'registering']), 'done', reply]

    def noise_message():
        # replies that are NOT a login: wrong state, no id, failure
        return rng.choice([['M', 'none', 'done', [rng.randrange(4), rng.choice([2, 4, 8])]], ['M', 'unregistering', 'done', []],
                           ['M', 'registering', 'done', []], ['M', 'registering', 'fail', ['too many users']],
                           ['M', 'booting', 'fail', ['whatever', 3]], ['M', 'unregistering', 'done', [1, 2]]])

    def per_client(o):
        io = o['input_channels'] + o['output_channels']
        return {'A': (o['audio_buses'] - io) // o['max_logins'] - o['reserved_audio_buses'],
                'C': o['control_buses'] // o['max_logins'] - o['reserved_control_buses'],
                'B': o['buffers'] // o['max_logins'] - o['reserved_buffers']}

    scases = []
    # (a) deterministic boundary / falsy-zero scenarios: every client id of a server, explicit 0 ids, whole partition, last index
    zero = {'max_logins': 1, 'input_channels': 0, 'output_channels': 0, 'audio_buses': 6, 'control_buses': 5, 'buffers': 4,
            'reserved_audio_buses': 0, 'reserved_control_buses': 0, 'reserved_buffers': 0, 'initial_node_id': 0}
    scases.append({'opts': zero, 'client': 0, 'ops': [
        ['A', 1, 0], ['C', 1, 0], ['B', 1, 0], ['F', 0], ['F', 1], ['F', 2], ['F', 0], ['A', 6, 0], ['C', 5, 0], ['B', 4, 0],
        ['F', 3], ['F', 4], ['F', 5], ['A', 0, 0], ['C', 0, 0], ['Ai', 2, 0], ['Ci', 1, 0], ['Bi', 1, 0], ['Bi', 3, 0], ['A', 2, 0],
        ['F', 8], ['F', 9], ['F', 10], ['F', 11], ['N', 3], ['Bx'], ['B', 2, 0], ['FA'], ['D', 1, 0], ['B', 4, 0], ['F', 17]]})
    for o in (rand_opts(), rand_opts()) if ctx.quick else [rand_opts() for _ in range(8)]:
        pc = per_client(o)
        for k in range(o['max_logins']):
            ops = []
            for kind in 'ACB':
                n = pc[kind]
                if n < 1:
                    continue
                base = len([x for x in ops if x[0] in 'ACB'])
                ops += [[kind, n, 0], ['F', base], [kind, n + 1, 0]] + [[kind, 1, 0] for _ in range(n + 1)]
                ops += [['F', base + 2 + n], ['F', base + 3], ['F', base + 4], [kind, 2, 0], [kind, 1, 1], [kind, 1, 0]]
            ops += [['N', 7]]
            scases.append({'opts': o, 'client': k, 'ops': ops})
    # (a') options changed while the server lives: nothing is rebuilt until _set_client_id, which then uses the CURRENT options
    for _ in range(ctx.n(3, 20)):
        o1, o2, o3 = rand_opts(), rand_opts(), rand_opts()
        ops = [['A', 2, 0], ['C', 1, 0], ['B', 1, 0], ['O', dict(o2)], ['A', 1, 0], ['R', o2['max_logins']], ['R', -1],
               ['R', rng.randrange(o2['max_logins'])]]
        pc = per_client(o2)
        ops += [['A', pc['A'], 0], ['C', pc['C'], 0], ['B', pc['B'], 0], ['A', 1, 0], ['F', 5], ['F', 0], ['N', 3], ['O', dict(o3)],
                ['C', 1, 0], ['R', o3['max_logins'] - 1], ['A', 1, 0], ['C', 1, 0], ['B', 1, 0], ['R', o3['max_logins'] + 1], ['A', 2, 1]]
        scases.append({'opts': o1, 'client': rng.randrange(o1['max_logins']), 'ops': ops})
    # (a'') login replies: the server grants "client id of m" with m different from options.max_logins
    for _ in range(ctx.n(4, 24)):
        o1 = rand_opts()
        ops = [['A', 1, 0], ['C', 2, 0]]
        cm = None
        for _ in range(3):
            lg = login_for(o1, cm)
            if lg:
                cm = lg[2] if lg[2] is not None else cm
                pc = shares(o1, cm or o1['max_logins'])
                ops += [as_message(lg), noise_message(), ['A', pc['A'], 0], ['C', 1, 0], ['C', pc['C'], 0], ['B', 1, 0], ['N', 2], ['F', 2], ['A', 1, 0]]
        scases.append({'opts': o1, 'client': rng.randrange(o1['max_logins']), 'ops': ops})
    # (b) random object-level histories
    for _ in range(ctx.n(14, 80)):
        opts = rand_opts()
        cur = opts
        cur_m = None
        ops = []
        for _ in range(rng.randint(5, 45)):
            r = rng.random()
            if r < 0.45:
                ops.append([rng.choice('AACCB'), rng.choice([1, 1, 2, 2, 3, 4, 6, 0]), rng.randrange(1000)])
            elif r < 0.55:
                kind = rng.choice(['Ai', 'Ci', 'Bi'])
                ops.append([kind, rng.choice([1, 2, 3]), rng.choice([0, 0, 1, 2, 5, 9, 17, 40])])
            elif r < 0.90:
                ops.append(['F', rng.randrange(1000)])
            elif r < 0.92:
                ops.append(['FA'])
            elif r < 0.94:
                ops.append(['Bx'])
            elif r < 0.96:
                eff = cur_m or cur['max_logins']
                ops.append(['R', rng.choice([rng.randrange(eff), rng.randrange(eff), rng.randrange(eff), -1, eff, cur['max_logins']])])
            elif r < 0.97:
                for _ in range(10):          # new options under which the constructors (with the count in force) do not raise
                    cand = rand_opts()
                    if all(v >= 1 for v in shares(cand, cur_m or cand['max_logins']).values()) and (cur_m or cand['max_logins']) <= 32:
                        cur = cand
                        ops.append(['O', dict(cur)])
                        eff = cur_m or cur['max_logins']
                        ops.append(['R', rng.choice([rng.randrange(eff), eff])])
                        break
            elif r < 0.978:
                lg = login_for(cur, cur_m)
                if lg:
                    ops.append(as_message(lg))
                    cur_m = lg[2] if lg[2] is not None else cur_m
                if rng.random() < 0.5:
                    ops.append(noise_message())
            elif r < 0.985:
                ops.append(['D', rng.choice([1, 2]), rng.randrange(1000)])
            else:
                ops.append(['N', rng.randint(1, 6)])
        scases.append({'opts': opts, 'client': rng.randrange(opts['max_logins']), 'ops': ops})
    sres = ctx.impl('c16_server', {'cases': scases})['cases']
    sitems, sinfo, snode, scitems, scinfo = [], [], [], [], []
    leak_seen = False
    for sc, sr in zip(scases, sres):
        if 'fatal' in sr or sr.get('errors'):
            c.failures.append(Failure('correspondence', 'driving Bus/Buffer/Node through Server failed: %s' % (sr.get('fatal') or sr['errors']), replay={'server_case': sc}))
            if 'fatal' in sr:
                continue
        o = sc['opts']
        io = o['input_channels'] + o['output_channels']
        for msg in sr.get('ledger', [])[:3]:
            c.failures.append(Failure('search', 'Server options %s, client %d, object-level history %s -- %s' % (o, sc['client'], sc['ops'], msg),
                                      signature='C16:object-vs-allocator', replay={'server_case': sc, 'why': msg,
                                      'replay_cmd': 'harness/impl/c16_server.py with this case (see its docstring for the op codes)'},
                                      found_input=True, theorem='AInv_reachable (used blocks = allocations handed out and not freed) / server_live_ranges_disjoint'))
        for ob in sr.get('observations', []):
            if not leak_seen:
                c.notes.append('observation: ' + ob)
                leak_seen = True
            c.known_demonstrated.append(('C16:buffer-number-leak-on-constructor-error', ob))
        for nd in sr.get('node', []):
            snode.append('((%s, %s, (Some %s), %d%%nat), (%s, %s, %s, %s))' % (cz(nd['user']), cz(nd['init']), cz(nd['temp0']), len(nd['ids']),
                         clist([cz(x) for x in nd['ids']]), cz(nd['temp']), cz(nd['mask']), cz(nd['id_offset'])))
            c.count('server:node-ids', len(nd['ids']))
            if nd['user'] != nd['client'] or nd['init'] != nd['built_init']:
                c.failures.append(Failure('correspondence', 'server node allocator not built from client id / initial_node_id: %s' % nd, replay={'server_case': sc}))
        totals = {'audio': (o['audio_buses'], io, o['reserved_audio_buses']), 'control': (o['control_buses'], 0, o['reserved_control_buses']),
                  'buffer': (o['buffers'], 0, o['reserved_buffers'])}
        for seg in sr.get('segments', []):
            which = seg['which']
            total, ioff, resv = totals[which]
            cops = [x[0] for x in seg['log']]
            ents = [x[1] for x in seg['log']]
            if any(not e[6] for e in ents):
                c.failures.append(Failure('correspondence', 'identity model broken (server %s allocator)' % which, replay={'server_case': sc}))
            sz, p, off = seg['params']
            sitems.append('((%s, %s, %s), %s, %s)' % (cz(sz), cz(p), cz(off), coq_ops(cops), coq_entries(ents)))
            sinfo.append((sc, which, {'size': sz, 'pos': p, 'off': off, 'ops': cops}))
            c.evaluations += len(cops)
            c.count('server:%s-ops' % which, len(cops))
            if cops:
                c.count('server:client>0' if seg['client'] else 'server:client=0')
            if any(x[0] == 'f' for x in cops) and seg['client'] > 0:
                c.nontriv(json.dumps([sc['opts'], seg['client'], which, cops]))
        for op in sc['ops']:
            c.count('server-op:' + op[0])
        ctrl = sr.get('ctrl', [])
        if ctrl:
            def sop(op):
                if op[0] == 'R':
                    return 'SSetClient %s' % cz(op[1])
                if op[0] == 'O':
                    return 'SSetOpts %s' % coq_opts(op[1])
                if op[0] == 'M':
                    if op[2] == 'fail':
                        return 'SNotifyFail'
                    return 'SNotifyDone %s %s' % (cbool(op[1] in ('booting', 'registering')), clist([cz(x) for x in op[3]]))
                return 'SLogin %s %s' % (cz(op[1]), '(Some %s)' % cz(op[2]) if op[2] is not None else 'None')
            def sob(e):
                pr = e['params']
                return '(%s, %s, ((%s), (%s), (%s)))' % (cz(e['client']), '(Some %s)' % cz(e['sw']) if e['sw'] is not None else 'None',
                                                       *[', '.join(cz(x) for x in pr[w]) for w in ('audio', 'control', 'buffer')])
            scitems.append('(%s, %s, (%s : list sop), (%s : list sobservation))' % (
                coq_opts(sc['opts']), cz(sc['client']), clist([sop(e['op']) for e in ctrl[1:]]), clist([sob(e) for e in ctrl])))
            scinfo.append((sc, ctrl))
            for e in ctrl[1:]:
                c.count('ctrl:%s:%s' % (e['op'][0], 'rebuilt' if e['rebuilt'] else 'unchanged'))
    sbad, serrs = fw.check_shards(ctx, 'srv', HEADER, sitems, 'Eval vm_compute in bad_idx (check_case true) cases.', shard=40)
    for e in serrs:
        c.failures.append(Failure('correspondence', 'coq evaluation of server cases failed: ' + e))
    for i in sbad[:3]:
        sc, which, case = sinfo[i]
        c.failures.append(Failure('correspondence', 'model and implementation disagree on the %s allocator built by Server for client %d (options %s): allocator-level history %s' % (
            which, sc['client'], sc['opts'], case), replay={'server_case': sc, 'allocator': which, 'case': case}))
    if scitems:
        cb, ce = fw.check_shards(ctx, 'ctrl', HEADER, scitems, 'Eval vm_compute in bad_idx (check_ctrl false) cases.', shard=60)
        for e in ce:
            c.failures.append(Failure('correspondence', 'coq evaluation of server control traces failed: ' + e))
        local = set()
        if cb:          # does the implementation behave like the guard on options.max_logins (D7)?
            cb2, ce2 = fw.check_shards(ctx, 'ctrl_gl', HEADER, [scitems[i] for i in cb], 'Eval vm_compute in bad_idx (check_ctrl true) cases.', shard=60)
            if not ce2:
                local = set(cb) - set(cb[j] for j in cb2)
        for i in cb[:3]:
            sc, ctrl = scinfo[i]
            hist = [e['op'] if e['op'][0] != 'O' else ['O', '...options...'] for e in ctrl[1:]]   # M = OSC reply to /notify delivered to the responder
            last = ctrl[-1]
            c.failures.append(Failure(
                'search', 'Server options %s, first client id %d, control operations %s (R = _set_client_id, O = options assigned, L = login reply (id, max logins)): '
                'client id / _max_logins / allocator constructor arguments after each are %s; the model (ids refused iff outside 0..N-1 with N = the login count the '
                'shares are computed with; a login reply stores the reported count BEFORE the allocators are rebuilt; shares per kind from its own options) differs%s' % (
                    sc['opts'], sc['client'], hist, [(e['client'], e['sw'], e['params']) for e in ctrl],
                    ' -- the implementation agrees with the guard on options.max_logins (granted ids >= the local option are refused)' if i in local else ''),
                signature=SIG_D7 if i in local else 'C16:server-control',
                replay={'server_case': sc, 'control_trace': ctrl}, found_input=True,
                theorem='login_reply_installs_granted_share / set_client_id_refuses_foreign_ids / server_allocators_from_options'))
    if snode:
        nb, ne = fw.check_shards(ctx, 'srvnode', HEADER, snode, 'Eval vm_compute in bad_idx check_node cases.', shard=100)
        for e in ne:
            c.failures.append(Failure('correspondence', 'coq evaluation of server node-id cases failed: ' + e))
        for i in nb[:3]:
            c.failures.append(Failure('correspondence', 'node ids handed out by Server._next_node_id / basic_new differ from the NodeId model: %s' % snode[i], replay={'node_item': snode[i]}))
    c.rule = ('histories of alloc(n>=0)/free(addr)/double free/free of never-allocated and out-of-partition addresses on the real '
              'ContiguousBlockAllocator (sizes 4..64, reserved 0..3, client offsets 0..3*size plus an io offset 0..7; bi.choice replaced by a '
              'recorded deterministic choice fed to the model as its oracle); after EVERY operation the return value, top, every non-None '
              'cell of _array (index, start, size, used) and _freed in dict order are compared with Alloc.trace by vm_compute; the same through '
              'Server options -> AudioBus/ControlBus/Buffer in NRT for several client ids (constructor arguments compared with Alloc.partition); '
              'NodeIDAllocator ids/temp/mask/id_offset incl. forced wrap-around.  non-trivial = a history in which some free() merged blocks and '
              'some alloc() took a block from _freed (or, for node ids, crossed the wrap; for server cases, frees with client id > 0)')
    c.samples = [{'case': conc[i], 'impl_last': res['cases'][i][-1][:5]} for i in range(min(4, len(conc)))]
    ctx._c16_bad_cases = [conc[i] for i in bad_sorted[:20]] + [sinfo[i][2] for i in sbad[:5]]
    ctx._c16_explained_by_abs = bool(bad) and all(sig_of.get(i) for i in bad)
    return c


def classify(why, off, explained_by_abs=False):
    if 'no space although' in why:
        return SIG_F1 if (off != 0 and explained_by_abs) else 'C16:alloc-none-despite-free-run'
    if 'overlapping' in why:
        return 'C16:alloc-overlaps-live-range'
    if 'outside the partition' in why:
        return 'C16:alloc-outside-partition'
    return 'C16:allocator-raises'


THEOREM_OF = {'no space': 'alloc_none_only_if_no_free_run', 'overlapping': 'alloc_disjoint_from_live',
              'outside': 'alloc_inside_partition', 'node': 'nodeid_window_distinct'}


def search(ctx, failures):
    """Interval-set reference + overlap monitor on the implementation (harness/oracles/c16_intervals.py)."""
    corpus = list(getattr(ctx, '_c16_bad_cases', []))
    for f in failures:
        case = (f.replay or {}).get('case')
        if case and case not in corpus:
            corpus.append(case)
    res = ctx.impl('c16_search', {'seed': ctx.seed, 'count': ctx.n(4000, 40000), 'corpus': corpus})
    found = []
    seen = set()
    # option-dependent construction: draining every allocator of every client with single indices must yield EXACTLY the client's
    # share of the right index space after the right reserved count (reference computed here from the options, no model involved)
    try:
        rng = ctx.rng
        optsets = []
        for f in failures:
            sc = (f.replay or {}).get('server_case')
            if sc and sc.get('opts') not in optsets:
                optsets.append(sc['opts'])
        for _ in range(4):
            logins = rng.choice([2, 3, 4])
            optsets.append({'max_logins': logins, 'input_channels': rng.choice([0, 1, 2]), 'output_channels': rng.choice([1, 2]),
                            'audio_buses': 3 + logins * rng.choice([12, 14]) + rng.choice([0, 1]), 'control_buses': logins * rng.choice([10, 12]) + 1,
                            'buffers': logins * rng.choice([8, 10]), 'reserved_audio_buses': rng.choice([0, 1, 2]),
                            'reserved_control_buses': rng.choice([3, 4]), 'reserved_buffers': rng.choice([0, 1, 3]), 'initial_node_id': 1000})
        dcases, dmeta = [], []
        for o in optsets[:8]:
            io = o['input_channels'] + o['output_channels']
            shares = {'audio': ((o['audio_buses'] - io) // o['max_logins'], io, o['reserved_audio_buses']),
                      'control': (o['control_buses'] // o['max_logins'], 0, o['reserved_control_buses']),
                      'buffer': (o['buffers'] // o['max_logins'], 0, o['reserved_buffers'])}
            if any(per <= resv for per, _, resv in shares.values()):
                continue
            for k in range(o['max_logins']):
                ops = []
                for kind, which in (('A', 'audio'), ('C', 'control'), ('B', 'buffer')):
                    ops += [[kind, 1, 0]] * (shares[which][0] + 1)
                dcases.append({'opts': o, 'client': k, 'ops': ops})
                dmeta.append((shares, k, None))
            # the same after a login reply "client id of m" with m different from options.max_logins (ids below and above the local option)
            for m in (2 * o['max_logins'], max(1, o['max_logins'] - 1)):
                sh_m = {'audio': ((o['audio_buses'] - io) // m, io, o['reserved_audio_buses']),
                        'control': (o['control_buses'] // m, 0, o['reserved_control_buses']),
                        'buffer': (o['buffers'] // m, 0, o['reserved_buffers'])}
                if m > 32 or any(per <= resv for per, _, resv in sh_m.values()):
                    continue
                for gid in sorted(set([0, m - 1, min(m - 1, o['max_logins'])])):
                    ops = [['M', 'registering', 'done', [gid, m]]]
                    for kind, which in (('A', 'audio'), ('C', 'control'), ('B', 'buffer')):
                        ops += [[kind, 1, 0]] * (sh_m[which][0] + 1)
                    dcases.append({'opts': o, 'client': 0, 'ops': ops})
                    dmeta.append((sh_m, gid, m))
        dres = ctx.impl('c16_server', {'cases': dcases})['cases'] if dcases else []
        for dc, (shares, gid, gm), dr in zip(dcases, dmeta, dres):
            if 'segments' not in dr:
                continue
            for which in ('audio', 'control', 'buffer'):
                segs = [sg for sg in dr['segments'] if sg['server'] == 0 and sg['which'] == which]
                per, base, resv = shares[which]
                want = list(range(base + per * gid + resv, base + per * (gid + 1)))
                # all indices the client got after the last (re)construction request
                got = [x[1][1] for sg in (segs if gm is not None else segs[-1:]) for x in sg['log'] if x[0][0] == 'a' and x[1][0] == 1]
                if gm is not None:
                    dc = dict(dc, login_reply={'granted_id': gid, 'max_logins': gm})
                if got != want and 'C16:option-construction' not in seen:
                    seen.add('C16:option-construction')
                    ctor = {'AudioBus': 'audio', 'ControlBus': 'control', 'Buffer': 'buffer'}
                    name = [n for n, w in ctor.items() if w == which][0]
                    found.append(Failure('search', 'Server options %s, %s: %d successive %s(1) objects got the indices %s, but the client\'s share of the '
                                         '%s index space after its reserved indices is %s' % (dc['opts'], ('after the reply [/done, /notify, %d, %d] to the registration request' % (gid, gm)) if gm is not None else 'client id %d' % gid, per + 1, name, got, which, want),
                                         signature='C16:option-construction',
                                         replay={'options': dc['opts'], 'client': gid, 'login_reply': dc.get('login_reply'), 'allocator': which, 'got': got, 'expected': want,
                                                 'replay_cmd': "sc3.init('nrt'); s = Server.default; set s.options fields; s._set_client_id(%d); [%s(1, s).%s for _ in range(%d)]" % (
                                                     dc['client'], name, 'bufnum' if which == 'buffer' else 'index', per + 1)},
                                         found_input=True, theorem='server_live_range_in_own_share'))
    except fw.ImplError as e:
        fw.log('option-construction search failed: %s' % e)
    # partitions the Server builds for the client ids of one server must be pairwise disjoint and inside the index space
    try:
        optsets = [{'max_logins': 4, 'input_channels': 2, 'output_channels': 2, 'audio_buses': 68, 'control_buses': 40, 'buffers': 32,
                    'reserved_audio_buses': 1, 'reserved_control_buses': 0, 'reserved_buffers': 2},
                   {'max_logins': 3, 'input_channels': 0, 'output_channels': 2, 'audio_buses': 50, 'control_buses': 31, 'buffers': 10,
                    'reserved_audio_buses': 0, 'reserved_control_buses': 1, 'reserved_buffers': 0}]
        scases = [{'opts': o, 'client': k, 'ops': []} for o in optsets for k in range(o['max_logins'])]
        sres = ctx.impl('c16_server', {'cases': scases})['cases']
        for o in optsets:
            rows = [(sc['client'], sr['params']) for sc, sr in zip(scases, sres) if sc['opts'] is o and 'params' in sr]
            tot = {'audio': (o['input_channels'] + o['output_channels'], o['audio_buses']), 'control': (0, o['control_buses']), 'buffer': (0, o['buffers'])}
            for which in ('audio', 'control', 'buffer'):
                rng = sorted((p[which][2], p[which][2] + p[which][0], k) for k, p in rows)
                why = None
                for (a0, a1, k0), (b0, b1, k1) in zip(rng, rng[1:]):
                    if b0 < a1:
                        why = '%s partitions of clients %d and %d overlap: [%d,%d) and [%d,%d)' % (which, k0, k1, a0, a1, b0, b1)
                if rng and (rng[0][0] < tot[which][0] or rng[-1][1] > tot[which][1]):
                    why = '%s partitions %s leave the index space [%d,%d)' % (which, [(a, b) for a, b, _ in rng], tot[which][0], tot[which][1])
                if why and 'C16:partitions' not in seen:
                    seen.add('C16:partitions')
                    found.append(Failure('search', 'Server options %s: %s' % (o, why), signature='C16:partitions-overlap',
                                         replay={'options': o, 'allocator': which, 'why': why,
                                                 'replay_cmd': "sc3.init('nrt'); s.options.<fields> = ...; s._set_client_id(k); compare s._%s allocator .addr_offset/.size for all k" % which},
                                         found_input=True, theorem='partitions_disjoint'))
    except fw.ImplError as e:
        fw.log('partition search failed: %s' % e)
    for b in res['found']:
        if 'node' in b:
            found.append(Failure('search', 'node ids on the implementation: ' + b['why'], signature='C16:nodeid', replay=b,
                                 found_input=True, theorem='nodeid_window_distinct,nodeid_in_client_range'))
            continue
        sig = classify(b['why'], b['off'], getattr(ctx, '_c16_explained_by_abs', False))
        if sig in seen:
            continue
        seen.add(sig)
        th = next((v for k, v in THEOREM_OF.items() if k in b['why']), 'AInv_reachable')
        b['replay_cmd'] = ("PYTHONPATH=$SC3_REPO /venv/bin/python -c \"from sc3.synth._engine import ContiguousBlockAllocator as A; "
                           "a=A(%d,%d,%d); print([a.alloc(o[1]) if o[0]=='a' else a.free(o[1]) for o in %s])\"" % (b['size'], b['pos'], b['off'], b['ops']))
        found.append(Failure('search', 'ContiguousBlockAllocator(size=%d, pos=%d, addr_offset=%d), history %s: %s' % (
            b['size'], b['pos'], b['off'], b['ops'], b['why']), signature=sig, replay=b, found_input=True, theorem=th))
    return found
