"""C15 -- operators lift uniformly; numeric kernels obey range and inverse laws."""
import json, os
from fractions import Fraction
import fw
from fw import Corr, Failure, cz, cq
from props import C15_lift

TITLE = 'Operators lift uniformly; numeric kernels obey range and inverse laws'
TRANSLATED = ['Gen_builtins', 'Gen_builtinsR'] + C15_lift.TRANSLATED
MODEL_TARGETS = ['gen/Gen_builtins.vo'] + C15_lift.MODEL_TARGETS
ALLOWED_AXIOMS = ['sig_forall_dec', 'sig_not_dec', 'functional_extensionality_dep', 'classic']
TRUSTED = [
    'translator harness/translator (py2coq.py, targets.py): sc3/base/builtins.py -> gen/Gen_builtins.v, gen/Gen_builtinsR.v',
    'floats modelled as rationals (exact on the dyadic grid the correspondence uses); binary64 rounding off the grid not verified',
    'libm (log2, log10, pow) trusted to approximate the real functions; R theorems use the standard library real-number axioms',
    'lifting half: model/Lift.v and model/ListAlg.v are hand-written (dispatch of scbuiltin and the dunder methods, _compose_* of Function/Stream/Pattern/sequence/Operand); tie = operand-tree correspondence only',
]
ASSUMES = ['Python float arithmetic on dyadic rationals of small magnitude is exact',
           'decimal literals in transcendental kernels denote the decimal number written']


def num_term(a):
    return '(I %s)' % cz(a[1]) if a[0] == 'I' else '(F %s)' % cq(Fraction(a[1]))


# degree-3 polynomials: with 16-bit integer parts and 10 fractional bits the exact result needs more than 53 bits,
# so binary64 rounds and the ideal-float model (exact rationals) legitimately differs; keep |x| <= 64 for these
DEGREE3 = {'cubed', 'ring3', 'ring4'}


def gen_args(rng, n, name):
    def one():
        k = rng.random()
        if k < 0.3:
            return ['I', str(rng.randint(-9, 9))]
        j = rng.choice([0, 1, 2, 3, 4, 10])
        v = Fraction(rng.randint(-(1 << (6 + j)), 1 << (6 + j)), 1 << j)
        if rng.random() < 0.15 and name not in DEGREE3:
            v = Fraction(rng.randint(-(1 << 16), 1 << 16), 1 << rng.randint(0, 10))
        return ['F', str(v)]
    args = [one() for _ in range(n)]
    # bias towards boundary situations: equal arguments, zero, swapped bounds
    r = rng.random()
    if r < 0.08 and n >= 2:
        args[1] = list(args[0])
    elif r < 0.14 and n >= 2:
        args[1] = [args[1][0], '0']
    elif r < 0.2 and n >= 3:
        args[2] = list(args[1])
    if n == 3 and name in ('wrap', 'fold', 'clip') and rng.random() < 0.7:
        lo, hi = sorted([Fraction(args[1][1]), Fraction(args[2][1])])
        args[1][1], args[2][1] = str(lo) if args[1][0] == 'F' else str(int(lo)), str(hi) if args[2][0] == 'F' else str(int(hi))
    return args


def correspond(ctx):
    c = Corr()
    arities = json.load(open(os.path.join(fw.COQ, 'gen', 'Gen_builtins.json')))
    per = ctx.n(60, 1500)
    cases = []
    for name in sorted(arities):
        for _ in range(per):
            cases.append({'f': name, 'args': gen_args(ctx.rng, arities[name], name)})
    # corpus first
    corpus = os.path.join(fw.VERIF, 'corpus', 'C15_kernels.json')
    if os.path.exists(corpus):
        cases = [k for k in json.load(open(corpus)) if k['f'] in arities] + cases
    out = ctx.impl('c15_kernels', {'cases': cases})['out']
    items = []
    for k, o in zip(cases, out):
        tag = o[0]
        if tag in (0, 1, 2):
            exp = '(%d, %s, %s)%%Z' % (tag, o[1] if int(o[1]) >= 0 else '(%s)' % o[1], o[2])
        else:
            exp = '(9, 0, 0)%Z'   # something the model never returns: reported as a mismatch
        items.append('(%s, py_%s %s, %s)' % ('true' if k['f'] in INEXACT else 'false', k['f'],
                                              ' '.join(num_term(a) for a in k['args']), exp))
        c.count('fn:' + k['f'])
        c.count('result:' + {0: 'int', 1: 'float', 2: 'ZeroDivisionError'}.get(tag, 'other:%s' % o[1]))
        if tag in (0, 1) and Fraction(int(o[1]), int(o[2])) != Fraction(k['args'][0][1]):
            c.nontriv((k['f'], k['args']))
    header = ('From Coq Require Import ZArith QArith Qabs List. Import ListNotations.\n'
              'Require Import SC3.lib.PyNum SC3.gen.Gen_builtins.\n'
              '(* kernels with one true division: the float result is the correctly rounded quotient,\n'
              '   |impl - exact| * 2^53 <= |exact| *)\n'
              'Definition close (m : num) (e : Z * Z * Z) : bool :=\n'
              '  match m, e with\n'
              '  | F r, (1, n, d)%Z => Qle_bool (Qabs (Qmake n (Z.to_pos d) - r) * (9007199254740992 # 1)) (Qabs r)\n'
              '  | _, _ => canon_eqb (canon m) e end.\n'
              'Definition okc (c : bool * num * (Z * Z * Z)) : bool :=\n'
              '  let (p, e) := c in let (inexact, m) := p in if inexact then close m e else canon_eqb (canon m) e.\n')
    body = 'Eval vm_compute in bad_idx okc cases.'
    bad, errs = fw.check_shards(ctx, 'kern', header, items, body, shard=400)
    c.evaluations = len(cases)
    c.rule = ('every translated kernel of sc3.base.builtins on generated int / dyadic-float arguments (all type mixes, '
              'boundary-biased); model = regenerated Gallina definition evaluated by vm_compute, implementation = the real '
              'function; exact comparison of type and value. non-trivial = result is a number different from the first argument')
    c.samples = [{'call': '%s(%s)' % (k['f'], ', '.join(a[1] for a in k['args'])), 'impl': o} for k, o in list(zip(cases, out))[:6]]
    for e in errs:
        c.failures.append(Failure('correspondence', 'coq evaluation of kernel cases failed: ' + e))
    for i in bad[:10]:
        k = cases[i]
        c.failures.append(Failure('correspondence',
                                  'regenerated model and implementation disagree on %s%s: impl=%s' % (k['f'], k['args'], out[i]),
                                  replay={'case': k, 'impl': out[i]}, signature=None))
    # second half of the property: operator lifting (hand-written model, operand-tree correspondence)
    l = C15_lift.correspond_lift(ctx)
    c.evaluations += l.evaluations
    c.nontrivial |= l.nontrivial
    c.rule += ' || LIFTING: ' + l.rule
    c.samples += l.samples[:4]
    for k2, v2 in l.distribution.items():
        c.distribution['lift:' + k2] = v2
    c.failures += l.failures
    c.notes += l.notes
    return c


LAW_OF_THEOREM = {}
INEXACT = {'distort', 'softclip'}   # one true division: compared up to correct rounding


def search(ctx, failures):
    """Probe the laws directly on the implementation."""
    res = ctx.impl('c15_laws', {'laws': []})
    found = []
    for b in res['bad']:
        found.append(Failure('search', 'law %s fails on the implementation: %s%s -> %s (%s)' % (
            b['law'], b['law'].split('_')[0], tuple(b['args']), b['got'], b['why']),
            signature='C15:%s' % b['law'], replay=b, found_input=True, theorem=b['law']))
    found += C15_lift.search_lift(ctx, failures)
    return found
