"""C09 -- time-ordered collections (sc3.base._taskq.TaskQueue) are stable priority queues."""
import json, os
from fractions import Fraction
import fw
from fw import Corr, Failure, cz, cq, cbool, clist
from oracles import sorted_queue as oracle
from oracles import c09_users_ref as users

TITLE = 'Time-ordered collections are stable priority queues under any history'
TRANSLATED = []
MODEL_TARGETS = ['model/TaskQ.vo', 'model/ClockSched.vo', 'model/Shutdown.vo']
ALLOWED_AXIOMS = []
TRUSTED = [
    'CPython heapq (heappush/heappop/nsmallest/nlargest), itertools.count and dict modelled by their specification '
    '(coq/model/TaskQ.v: heap as a bag, heappop = extract a minimum, count = fresh increasing naturals)',
    'harness generators and canonicalisation of histories/outputs (harness/props/C09.py, harness/impl/c09_taskq.py); '
    'harness/oracles/sorted_queue.py is used only to look for failing inputs',
]
ASSUMES = ['priorities are Python ints, bools, Fractions or finite floats (no NaN, no infinities), mutually comparable',
           'tasks are hashable; two tasks are the same item iff they are equal (dict key semantics)',
           'single-threaded use of one queue',
           '__iter__ is consumed immediately (no mutation while iterating)']

P6 = [['I', '0'], ['F', '0'], ['I', '1'], ['F', '1'], ['F', '1/2'], ['I', '2']]
PWIDE = P6 + [['I', '-1'], ['F', '-1/2'], ['F', '3/4'], ['F', '5/2'], ['I', '7']]
# zero / sign / type mixes: 0, 0.0, -0.0, False, True, Fraction; ties across int, float, bool, Fraction; negatives
PZERO = [['I', '0'], ['F', '0'], ['Z', '0'], ['B', '0'], ['Q', '0'], ['B', '1'], ['I', '1'], ['F', '1'], ['Q', '1'],
         ['Q', '1/2'], ['F', '1/2'], ['I', '-1'], ['F', '-1'], ['Q', '-1/2'], ['F', '-1/2']]
THEOREM_OF = {'prio-identity': 'tq_refines_spec', 'bookkeeping': 'tq_inv_reachable', 'error-path': 'tq_inv_reachable',
              'order': 'pop_nondecreasing', 'fifo-on-ties': 'pop_fifo_on_ties', 'at-most-once': 'item_at_most_once',
              're-add': 'readd_moves_to_new_time_as_latest', 'remove-frame': 'remove_frames_others',
              'empty': 'empty_iff_no_live', 'peek-small': 'peek_small_is_next_pop',
              'peek-large': 'peek_large_is_max_live', 'iter': 'iter_is_sorted_contents', 'other': 'tq_refines_spec'}
HOW = 'PYTHONPATH=$SC3_REPO /venv/bin/python harness/impl/c09_taskq.py <in> <out>'
HEADER = 'From Coq Require Import ZArith QArith List. Import ListNotations.\nRequire Import SC3.lib.PyNum SC3.model.TaskQ.\n'
BODY = 'Eval vm_compute in bad_idx (fun c => case_ok c && spec_case_ok c) cases.'


# ---- generators (ctx.rng only) --------------------------------------------------------
def gen_random(rng, n, prios, nt, inner=False, q=None):
    """Weighted random history; the reference queue only steers the choice of task ids."""
    q, ops = q or oracle.SortedListQueue(), []
    for _ in range(n):
        r, live = rng.random(), [x[2] for x in q.items]
        if r < 0.43:
            t = rng.choice(live) if live and rng.random() < 0.45 else rng.randrange(nt)
            op = ['add', rng.choice(prios), t]
        elif r < 0.55:
            op = ['remove', rng.choice(live) if live and rng.random() < 0.7 else rng.randrange(nt)]
        elif r < 0.70: op = ['pop']
        elif r < 0.78: op = ['peek', True]
        elif r < 0.86: op = ['peek', False]
        elif r < 0.92: op = ['empty']
        elif r < 0.95: op = ['iter']
        elif r < 0.96 and not inner: op = rng.choice([['addbad', rng.choice(prios)], ['removebad']])   # unhashable task
        elif r < 0.96: op = ['iter']
        elif r < 0.98 and not inner:                                                     # modify while iterating
            op = ['iterk', rng.choice([0, 1, 1, 2, 3]), gen_random(rng, rng.randint(1, 4), prios, nt, inner=True, q=q)]
        elif r < 0.98: op = ['empty']
        else: op = ['clear']
        if op[0] not in oracle.PYONLY:
            oracle.ref_step(q, op)
        ops.append(op)
    return ops


def probes(rng, k):
    return [rng.choice([['peek', True], ['peek', False], ['empty'], ['iter'], ['pop']]) for _ in range(k)]


def gen_family(rng, fam, prios):
    nt = rng.randint(1, 8)
    add = lambda t, p=None: ['add', p or rng.choice(prios), t]
    if fam == 'drain':
        k = rng.randint(0, 12)
        return [add(rng.randrange(nt)) for _ in range(k)] + [['pop']] * (min(k, nt) + 2)
    if fam == 'tombstones':
        ops = [add(t) for t in rng.sample(range(8), nt)] + [add(rng.randrange(8)) for _ in range(rng.randint(0, 4))]
        live = sorted({o[2] for o in ops})
        keep = rng.sample(live, min(len(live), rng.choice([0, 0, 1, 1, 2])))
        ops += [['remove', t] for t in rng.sample(live, len(live)) if t not in keep]
        return ops + [['peek', True], ['peek', False], ['empty']] + probes(rng, rng.randint(2, 10))
    if fam == 'fifo':
        p = rng.choice(prios)
        same = [q for q in PWIDE if Fraction(q[1]) == Fraction(p[1])]
        ops = [add(rng.randrange(nt), rng.choice(same)) for _ in range(rng.randint(2, 14))]
        return ops + [['peek', True], ['peek', False], ['iter']] + [['pop']] * (nt + 1)
    if fam == 'readd':
        t, u = rng.sample(range(8), 2)
        ops = [add(u)] if rng.random() < 0.6 else []
        for _ in range(rng.randint(2, 12)):
            ops.append(add(t))
            if rng.random() < 0.4: ops += probes(rng, 1)
        return ops + [['iter'], ['pop'], ['pop'], ['pop']]
    # malformed: everything on an empty queue, absent ids, clear first
    ops = [['clear']] if rng.random() < 0.5 else []
    for _ in range(rng.randint(1, 10)):
        ops.append(rng.choice([['pop'], ['peek', True], ['peek', False], ['remove', rng.randrange(8)], ['empty'],
                               ['iter'], ['clear']]))
    if rng.random() < 0.5:
        ops += [add(rng.randrange(8)), ['remove', rng.randrange(8)], ['pop'], ['pop']]
    return ops


FAMILIES = ['drain', 'tombstones', 'fifo', 'readd', 'malformed']


def gen_case(rng, longmax):
    r = rng.random()
    prios = P6 if r < 0.5 else PWIDE if r < 0.7 else PZERO
    r = rng.random()
    if r < 0.30:
        ops = gen_family(rng, rng.choice(FAMILIES), prios)
    else:
        nt = rng.choice([2, 2, 3, 3, 4, 4, 6, 8])
        n = rng.randint(1, 12) if r < 0.70 else rng.randint(13, longmax)
        ops = gen_random(rng, n, prios, nt)
    kind = rng.choice(['obj', 'obj', 'lib', 'lib', 'odd', 'odd', 'eq'])    # look-alikes / library objects / falsy values / fresh equal tuples
    return {'ops': ([['tasks', kind]] if kind != 'obj' else []) + ops + [['iter'], ['empty']]}


def load_corpus():
    p = os.path.join(fw.VERIF, 'corpus', 'C09_histories.json')
    return [{'ops': k['ops']} for k in json.load(open(p))] if os.path.exists(p) else []


# ---- Gallina printers ------------------------------------------------------------------
def op_term(op):
    k = op[0]
    if k == 'add': return 'OAdd %s %s' % (cq(Fraction(op[1][1])), cz(op[2]))
    if k == 'remove': return 'ORemove %s' % cz(op[1])
    if k == 'peek': return 'OPeek %s' % cbool(op[1])
    return {'pop': 'OPop', 'empty': 'OEmpty', 'clear': 'OClear', 'iter': 'OIter'}[k]


def out_term(o):
    try:
        if o[0] == 'N': return 'RNone'
        if o[0] == 'K': return 'RKeyError'
        if o[0] == 'B': return 'RBool %s' % cbool(o[1])
        if o[0] == 'T': return 'RItem %s %s' % (cq(Fraction(o[1])), cz(o[2]))
        if o[0] == 'L': return 'RList [%s]' % '; '.join('(%s, %s)' % (cq(Fraction(x[0])), cz(x[1])) for x in o[1])
    except (ValueError, TypeError, ZeroDivisionError):
        pass
    return 'ROutOfFuel'          # never produced by the model: reported as a mismatch


def case_term(ops, res):
    st = res['state'] if res['state'] is not None else [-1]
    ops, outs, _, _ = oracle.flatten(ops, res['outs'])          # the model alphabet only
    return '(%s, %s, %s)' % (clist(ops, op_term) if ops else '(@nil op)',
                             clist(outs, out_term) if outs else '(@nil out)', clist(st, cz))


# ---- shrinking ---------------------------------------------------------------------------
def shrink(ops, fails_batch, rounds=16, max_cands=160):
    """Batched delta debugging.  fails_batch(list of histories) -> list of truthy/falsy;
    each round costs one batch (plus one for combining independent deletions)."""
    flat = [o for o in ops if o[0] == 'tasks'] + oracle.flatten(ops, [])[0]      # first try without python-only ops
    if flat != ops and flat and fails_batch([flat])[0]:
        ops = flat
    size = max(1, len(ops) // 2)
    for _ in range(rounds):
        dels, s = [], size
        while len(dels) < max_cands:
            dels += [(i, i + s) for i in range(0, len(ops), s)]
            if s == 1: break
            s //= 2
        dels = [d for d in dels if d[1] - d[0] < len(ops)][:max_cands]
        cut = lambda ds: [o for i, o in enumerate(ops) if not any(a <= i < b for a, b in ds)]
        good = [d for d, r in zip(dels, fails_batch([cut([d]) for d in dels])) if r]
        if not good:
            if size == 1: break
            size = max(1, size // 4)
            continue
        good.sort(key=lambda d: d[0] - d[1])
        combos = [good[:k] for k in sorted({len(good), (len(good) + 1) // 2, 2}, reverse=True) if 2 <= k <= len(good)]
        combos = [k for k in combos if len(cut(k)) > 0]
        best = [good[0]]
        for k, r in zip(combos, fails_batch([cut(k) for k in combos]) if combos else []):
            if r:
                best = k
                break
        ops = cut(best)
        size = max(1, min(size, len(ops) // 2))
    return ops


def run_impl(ctx, histories):
    return ctx.impl('c09_taskq', {'cases': [{'ops': h} for h in histories]})['out']


def coq_disagrees(ctx, histories, results, name='shrink'):
    items = [case_term(h, r) for h, r in zip(histories, results)]
    bad, errs = fw.check_shards(ctx, name, HEADER, items, BODY, shard=max(1, -(-len(items) // fw.NPROC)))
    return set(bad), errs


# ---- bookkeeping for the distribution -------------------------------------------------------
def annotate(c, ops, outs):
    """Count op kinds using the reference queue and a tombstone ledger kept here."""
    for op in ops:
        if op[0] in oracle.PYONLY:
            c.count('op:' + op[0] + (':' + op[1] if op[0] == 'tasks' else ''))
        if op[0] == 'add' and op[1][0] not in 'IF':
            c.count('prio:' + {'B': 'bool', 'Q': 'Fraction', 'Z': 'minus-zero'}[op[1][0]])
    ops, outs, _, _ = oracle.flatten(ops, outs)
    q, tombs = oracle.SortedListQueue(), []
    for op, o in zip(ops, outs):
        k = op[0]
        if k == 'add':
            old = [x for x in q.items if x[2] == op[2]]
            c.count('op:readd' if old else 'op:add')
            tombs += [(x[0], x[1]) for x in old]
        elif k == 'remove':
            old = [x for x in q.items if x[2] == op[1]]
            c.count('op:remove-present' if old else 'op:remove-absent')
            tombs += [(x[0], x[1]) for x in old]
        elif k == 'pop':
            c.count('op:pop-ok' if o[0] == 'T' else 'op:pop-KeyError' if o[0] == 'K' else 'op:pop-other')
            tombs = [t for t in tombs if q.items and t > (q.items[0][0], q.items[0][1])]
        elif k == 'peek':
            c.count('op:peek-ok' if o[0] == 'T' else 'op:peek-KeyError' if o[0] == 'K' else 'op:peek-other')
            if tombs:
                c.count('op:peek-with-tombstones' if q.items else 'op:peek-only-tombstones')
        elif k == 'empty':
            c.count('op:empty-only-tombstones' if tombs and not q.items else 'op:empty')
        elif k == 'clear':
            c.count('op:clear'); tombs = []
        else:
            c.count('op:iter')
        oracle.ref_step(q, op)
    n = len(ops)
    c.count('len:' + ('1-4' if n <= 4 else '5-14' if n <= 14 else '15-62' if n <= 62 else '63+'))


# ---- indirect users (Python oracle only) ---------------------------------------------------
def indirect(ctx, c):
    rng, names = ctx.rng, ['CUSTOM', 'SERVERS', 'PLATFORM', 'CLOCKS', 'NETWORKING', 'MIDI']
    ax, sx = [], []
    for _ in range(ctx.n(20, 100)):
        steps = []
        for _ in range(rng.randint(4, 16)):
            if steps and rng.random() < 0.2: steps.append(['remove', rng.randrange(8)])
            else: steps.append(['add', rng.choice(names), rng.choice([0, 0, 0, 1, 2]), rng.randrange(8)])
        ax.append(steps)
        times = [str(Fraction(rng.randint(0, 8), 4)) for _ in range(rng.randint(1, 12))]
        sx.append({'adds': [[t, i] for i, t in enumerate(times)], 'tail': str(Fraction(rng.randint(0, 10), 4))})
    try:
        res = ctx.impl('c09_taskq', {'mode': 'indirect', 'atexit': ax, 'score': sx})
    except fw.ImplError as e:
        c.notes.append('indirect users not checked (runner failed): %s' % str(e)[-300:])
        return
    nfail = {}
    def report(kind, text, replay):              # at most two reports per indirect user
        nfail[kind] = nfail.get(kind, 0) + 1
        if nfail[kind] <= 2:
            c.failures.append(Failure('search', text, signature='C09:user-' + kind, replay=dict(replay, indirect=kind),
                                      found_input=True, theorem='tq_refines_spec'))
    for steps, r in sorted(zip(ax, res['atexit']), key=lambda x: len(x[0])):
        c.count('indirect:atexit')
        if 'error' not in r:
            pr = iter(r['prios'])
            ops = [['add', ['I', str(next(pr))], s[3]] if s[0] == 'add' else ['remove', s[1]] for s in steps]
            exp = [o[2] for o in oracle.run_reference(ops + [['pop']] * 9) if o[0] == 'T']
        if 'error' in r or exp != r['order']:
            report('atexit', 'exit actions (a queue used like Process._atexitq / _shutdown) ran in order %s, expected %s '
                   'for registrations %s' % (r.get('order', r), None if 'error' in r else exp, steps),
                   {'steps': steps, 'observed': r})
    for spec, r in sorted(zip(sx, res['score']), key=lambda x: len(x[0]['adds'])):
        c.count('indirect:oscscore')
        if 'error' not in r:
            ops = [['add', ['F', '0'], '/g_new']] + [['add', ['F', t], i] for t, i in spec['adds']]
            # the closing marker goes at now + tailtime but never before the latest bundle
            # (sc3 fix 'the score's tail marker never precedes the last bundle', property C07)
            latest = max([Fraction(0)] + [Fraction(t) for t, _ in spec['adds']])
            tail = str(max(Fraction(spec['tail']) + Fraction(r['now']), latest))
            ref = oracle.run_reference(ops + [['peek', False], ['add', ['F', tail], '/c_set'], ['iter']])
            exp = {'latest': ref[-3][1:3], 'list': [x[:2] for x in ref[-1][1]]}
        if 'error' in r or exp != {'latest': r['latest'], 'list': r['list']}:
            report('oscscore', 'OscScore entries came out as %s, expected %s for %s' % (
                r, None if 'error' in r else exp, spec), {'spec': spec, 'observed': r})
    c.notes.append('indirect users: %d exit-action queues driven like Process._shutdown and %d OscScore objects '
                   '(add from outside routines, peek(False), finish) compared with the Python reference only'
                   % (len(ax), len(sx)))


# ---- indirect users II: clock tasks, score from inside routines, Ppar (oracle = reference queue) ----
TEMPI = ['1', '2', '1/2', '4', '1']
DELTAS = ['0', 'i:0', 'z:0', '1/2', '1', 'i:1', '1', '2', 'i:2', '3/2']


def gen_clock(rng, abort=False):
    ncl = rng.choice([1, 1, 2])
    clocks = [rng.choice(TEMPI) for _ in range(ncl)]
    nt = rng.randint(2, 6)
    home = rng.choice([-1] + list(range(ncl)) * 2)           # most tasks share one clock: ties
    tasks = []

    def acts(k):
        out = []
        for _ in range(k):
            r = rng.random()
            if r < 0.45: out.append(['sched', rng.randrange(nt), rng.choice(DELTAS + ['inf'])])
            elif r < 0.70: out.append(['abs', rng.randrange(nt), str(rng.randint(1, 3))])
            elif r < 0.93: out.append(['tempo', rng.randrange(ncl), rng.choice(TEMPI)])
            else: out.append(['beats', rng.randrange(ncl), rng.choice(['0', '1/2', '1'])])
        return out
    for j in range(nt):
        steps = [{'acts': acts(rng.choice([0, 0, 0, 1, 1, 2])), 'ret': rng.choice([None, None, 'raise', 'raiseB', 'inf', 'nan', 'nan'] + DELTAS)}
                 for _ in range(rng.randint(1, 3))]
        tasks.append({'clock': home if rng.random() < 0.75 else rng.choice([-1] + list(range(ncl))),
                      'type': rng.choice('RRF'), 'steps': steps})
    init = []
    for j in rng.sample(range(nt), nt):                      # everybody due at few distinct beats
        init.append([rng.choice(['sched', 'abs']), j, str(rng.choice([1, 1, 2, 2, 3]))])
    for _ in range(rng.randint(0, nt)):                      # re-schedule some while pending
        init.append([rng.choice(['sched', 'abs']), rng.randrange(nt), str(rng.choice([1, 2, 2, 3]))])
    if rng.random() < 0.6:                                   # tempo / beats change while pending
        init.append(['tempo', rng.randrange(ncl), rng.choice(TEMPI)] if rng.random() < 0.8
                    else ['beats', rng.randrange(ncl), rng.choice(['1/2', '1'])])
    return {'kind': 'clock', 'clocks': clocks, 'tasks': tasks, 'init': init, 'abort': abort}


LATS = [None, '-1/2', '-1', 'i:-1', '0', 'i:0', 'z:0', '1/4', '1/2', '1/2', '1', 'i:1', '3/2']


def gen_score(rng):
    nt = rng.randint(1, 4)
    fresh, used = iter(range(1, 1000)), []

    def ident():                     # the same message (same list object) may be sent again, also at the same time
        if used and rng.random() < 0.3:
            return rng.choice(used)
        used.append(next(fresh))
        return used[-1]
    tasks = []
    for _ in range(nt):
        tasks.append({'steps': [{'acts': [['bundle', rng.choice(LATS), ident()] for _ in range(rng.randint(0, 3))],
                                 'ret': rng.choice([None, '1/2', '1/2', '1', '1', '3/2'])}
                                for _ in range(rng.randint(1, 4))]})
    init = []
    for j in rng.sample(range(nt), nt):
        init.append(['play', j, rng.choice(['0', '1/2', '1', '1', '2'])])
    for _ in range(rng.randint(0, 2)):
        init.insert(rng.randint(0, len(init)), ['bundle', rng.choice([None, '-1/2', '0', 'i:0', 'z:0', '1/2', '1', '2']), ident()])
    return {'kind': 'score', 'tasks': tasks, 'init': init, 'tail': rng.choice(['0', 'i:0', '1/2', '2'])}


def gen_ppar(rng):
    """several live streams of ONE pattern object: interleaved reads, the same object nested twice"""
    DUR = ['1/2', '1/2', '1', 'i:1', '3/2', '1/4', '0', 'i:0']
    sid = iter(range(100))
    bind = lambda: ['bind', next(sid), [rng.choice(DUR) for _ in range(rng.randint(1, 4))]]
    shared = []
    for _ in range(rng.choice([0, 1, 1, 2])):
        shared.append(bind() if rng.random() < 0.4 else ['par', [bind() for _ in range(rng.randint(1, 3))]])

    def child():
        r = rng.random()
        if shared and r < 0.45: return ['ref', rng.randrange(len(shared))]
        if r < 0.6: return ['par', [bind() if not shared or rng.random() < 0.6 else ['ref', rng.randrange(len(shared))]
                                    for _ in range(rng.randint(1, 3))]]
        return bind()
    tree = ['par', [child() for _ in range(rng.randint(1, 4))]]
    n = rng.choice([1, 2, 2, 3])
    return {'kind': 'ppar', 'tree': tree, 'shared': shared, 'nstreams': n,
            'order': [rng.randrange(n) for _ in range(rng.randint(0, 12))]}


def fixed_user_scenarios():
    """Hand-written scenarios (minimal histories that killed mutants in a scratch tree)."""
    F = lambda c: {'clock': c, 'type': 'F', 'steps': [{'acts': [], 'ret': None}]}
    return [
        # a first (far), b, a again (moves behind b), c; tempo change while pending: b a c
        {'kind': 'clock', 'clocks': ['1'], 'tasks': [F(0), F(0), F(0)], 'abort': False,
         'init': [['abs', 0, '7'], ['abs', 1, '4'], ['abs', 0, '4'], ['abs', 2, '4'], ['tempo', 0, '2']]},
        # the same with a beats change
        {'kind': 'clock', 'clocks': ['2'], 'tasks': [F(0), F(0), F(0)], 'abort': False,
         'init': [['abs', 0, '7'], ['abs', 1, '4'], ['abs', 0, '4'], ['abs', 2, '4'], ['beats', 0, '1']]},
        # dirty scheduler (re-added and replaced entries), reset, then three tasks must all wake
        {'kind': 'clock', 'clocks': ['1'], 'tasks': [F(0), F(0), F(-1)], 'abort': True,
         'init': [['sched', 0, '1'], ['sched', 1, '1'], ['sched', 0, '2'], ['sched', 1, '2'], ['sched', 2, '1'], ['sched', 2, '1']]},
        {'kind': 'clock', 'clocks': ['1'], 'tasks': [F(0), F(-1), F(0)], 'abort': False,
         'init': [['sched', 0, '1'], ['sched', 1, '1'], ['sched', 2, '1']]},
        # score: 1 (1.7->1.75) | 2 (sent at 1 for 2), then 3, 4 (negative latency = now), 5 (None) sent at 2
        {'kind': 'score', 'tail': '0', 'init': [['play', 0, '0'], ['play', 1, '0']],
         'tasks': [{'steps': [{'acts': [], 'ret': '1'}, {'acts': [['bundle', '3/4', 1], ['bundle', '1', 2]], 'ret': None}]},
                   {'steps': [{'acts': [], 'ret': '2'},
                              {'acts': [['bundle', '0', 3], ['bundle', '-1/2', 4], ['bundle', None, 5]], 'ret': None}]}]},
        {'kind': 'ppar', 'streams': [['1', '1/2', '1/2'], ['1/2', '3/2'], ['1/2', '1/2', '1/2', '1/2']]},
        # two streams of ONE Ppar object read alternately; the same Ppar object twice inside another Ppar
        {'kind': 'ppar', 'tree': ['par', [['bind', 0, ['1', '1']], ['bind', 1, ['1/2', '1/2', '1']]]], 'shared': [],
         'nstreams': 2, 'order': [0, 1, 0, 1, 1, 0]},
        {'kind': 'ppar', 'tree': ['par', [['ref', 0], ['ref', 0]]], 'shared': [['par', [['bind', 0, ['1', '1/2']], ['bind', 1, ['1/2']]]]],
         'nstreams': 1, 'order': []},
    ]


def shrink_scenario(sc, fails):
    """Greedy structural shrinking of a scenario; fails(list of scenarios) -> list of bool."""
    import copy

    def candidates(s):
        out = []
        if s['kind'] == 'ppar' and 'tree' in s:
            if s['nstreams'] > 1:
                c = copy.deepcopy(s); c['nstreams'] -= 1; c['order'] = [i for i in c['order'] if i < c['nstreams']]; out.append(c)
            if s['order']:
                c = copy.deepcopy(s); c['order'].pop(); out.append(c)
                c = copy.deepcopy(s); c['order'].pop(0); out.append(c)
            kids = s['tree'][1]
            for i in range(len(kids)):
                if len(kids) > 1:
                    c = copy.deepcopy(s); del c['tree'][1][i]; out.append(c)
                if kids[i][0] == 'par' and len(kids[i][1]) > 1:
                    for m in range(len(kids[i][1])):
                        c = copy.deepcopy(s); del c['tree'][1][i][1][m]; out.append(c)
            for b in [k for k in kids if k[0] == 'bind'] + [d for d in s['shared'] if d[0] == 'bind'] + \
                     [k for d in s['shared'] + kids if d[0] == 'par' for k in d[1] if k[0] == 'bind']:
                if len(b[2]) > 1:
                    c = copy.deepcopy(s)
                    for x in [k for k in c['tree'][1]] + c['shared'] + [k for d in c['shared'] + c['tree'][1] if d[0] == 'par' for k in d[1]]:
                        if x[0] == 'bind' and x[1] == b[1]:
                            x[2].pop()
                    out.append(c)
            return out
        if s['kind'] == 'ppar':
            for i in range(len(s['streams'])):
                if len(s['streams']) > 1:
                    c = copy.deepcopy(s); del c['streams'][i]; out.append(c)
                if len(s['streams'][i]) > 1:
                    c = copy.deepcopy(s); c['streams'][i].pop(); out.append(c)
            return out
        for i in range(len(s['init'])):
            c = copy.deepcopy(s); del c['init'][i]; out.append(c)
        for j, t in enumerate(s['tasks']):
            if len(t['steps']) > 1:
                c = copy.deepcopy(s); c['tasks'][j]['steps'].pop(); out.append(c)
            for k, st in enumerate(t['steps']):
                for m in range(len(st['acts'])):
                    c = copy.deepcopy(s); del c['tasks'][j]['steps'][k]['acts'][m]; out.append(c)
                if st['ret'] is not None:
                    c = copy.deepcopy(s); c['tasks'][j]['steps'][k]['ret'] = None; out.append(c)
        return out
    for _ in range(40):
        cands = candidates(sc)
        if not cands:
            break
        ok = [c for c, r in zip(cands, fails(cands)) if r]
        if not ok:
            break
        sc = ok[0]
    return sc


def user_scenarios(ctx, n):
    rng = ctx.rng
    scs = fixed_user_scenarios()
    p = os.path.join(fw.VERIF, 'corpus', 'C09_users.json')
    if os.path.exists(p):
        scs += [{k: v for k, v in x.items() if k != 'why'} for x in json.load(open(p))]
    for _ in range(n):
        r = rng.random()
        if r < 0.55:
            if rng.random() < 0.2:
                scs.append(gen_clock(rng, abort=True))          # dirty state, then reset by the next one
            scs.append(gen_clock(rng))
        elif r < 0.78: scs.append(gen_score(rng))
        else: scs.append(gen_ppar(rng))
    return scs


USER_THEOREM = {'order': 'pop_nondecreasing', 'fifo-on-ties': 'pop_fifo_on_ties', 'at-most-once': 'item_at_most_once',
                're-add': 'readd_moves_to_new_time_as_latest', 'empty': 'empty_iff_no_live',
                'iter': 'iter_is_sorted_contents', 'other': 'tq_refines_spec'}
USERS_HOW = 'PYTHONPATH=$SC3_REPO:/verif/harness /venv/bin/python harness/impl/c09_users.py <in: {"scenarios": [..]}> <out>'


def run_users(ctx, scs):
    return ctx.impl('c09_users', {'scenarios': scs}, timeout=900)['out']


def check_users(ctx, c, n, kind='correspondence'):
    """Run scenarios on the real library, judge with the reference queue; return Failures (concrete inputs)."""
    scs = user_scenarios(ctx, n)
    try:
        res = run_users(ctx, scs)
    except fw.ImplError as e:
        return [Failure('correspondence', 'indirect-user runner failed: %s' % str(e)[-600:], replay={'error': str(e)[-600:]})]
    if c is not None:
        c.evaluations += len(scs)
    bad = {}
    for i, (sc, r) in enumerate(zip(scs, res)):
        if c is not None:
            c.count('user:' + sc['kind'] + ('-aborted' if sc.get('abort') else ''))
            if sc['kind'] == 'clock':
                ac = [a for t in sc['tasks'] for st in t['steps'] for a in st['acts']] + sc['init']
                if any(a[0] in ('tempo', 'beats') for a in ac): c.count('user:clock-with-retime')
                if any(st['ret'] in ('inf', 'nan') for t in sc['tasks'] for st in t['steps']): c.count('user:clock-answers-inf-or-nan')
                ts = [t for _, t in (r.get('log') or [])]
                if len(set(ts)) < len(ts): c.count('user:clock-with-tied-wakeups')
            if sc['kind'] == 'ppar':
                if sc.get('nstreams', 1) > 1: c.count('user:ppar-several-live-streams')
                if 'ref' in json.dumps(sc.get('tree', '')): c.count('user:ppar-same-object-nested')
            if sc['kind'] == 'score':
                ts = [t for t, _ in (r.get('list') or [])]
                if len(set(ts)) < len(ts): c.count('user:score-with-tied-bundles')
            if r.get('log') or r.get('list') or r.get('events'):
                c.nontriv(('user', json.dumps(sc, sort_keys=True)))
        v = users.JUDGES[sc['kind']](sc, r)
        if v:
            key = (sc['kind'], v[0])
            # an aborted predecessor is part of the input (stale state)
            pre = [scs[i - 1]] if i > 0 and scs[i - 1].get('abort') else []
            if key not in bad or len(json.dumps(pre + [sc])) < len(json.dumps(bad[key][0])):
                bad[key] = (pre + [sc], v)
    out = []
    for (knd, clause), (seq, v) in sorted(bad.items(), key=lambda kv: len(json.dumps(kv[1][0])))[:3]:
        pre, sc = seq[:-1], seq[-1]

        def fails(cands, pre=pre, clause=clause):
            rs = run_users(ctx, [x for cnd in cands for x in pre + [cnd]])
            rs = rs[len(pre)::len(pre) + 1]
            vs = [users.JUDGES[cnd['kind']](cnd, r) for cnd, r in zip(cands, rs)]
            return [bool(x) and x[0] == clause for x in vs]
        try:
            sc = shrink_scenario(sc, fails)
            if pre and fails([sc], pre=[])[0]:
                pre = []                                          # the stale state was not needed
            r = run_users(ctx, pre + [sc])[-1]
            v = users.JUDGES[sc['kind']](sc, r) or v
        except fw.ImplError:
            r = {}
        expected = {'clock': users.ref_clock, 'score': users.ref_score, 'ppar': users.ref_ppar}[sc['kind']](sc)
        out.append(Failure('search', 'indirect user %s of TaskQueue departs from a stable priority queue (clause %s): %s; scenario %s'
                           % (knd, v[0], v[1], json.dumps(pre + [sc])),
                           signature='C09:user-%s:%s' % (knd, v[0]),
                           replay={'scenarios': pre + [sc], 'observed': r, 'expected': expected, 'how': USERS_HOW},
                           found_input=True, theorem=USER_THEOREM.get(v[0], 'tq_refines_spec')))
    return out



# ---- the ClockScheduler model (coq/model/ClockSched.v) against the real class -------------------------
SHEADER = ('From Coq Require Import ZArith QArith List. Import ListNotations.\n'
           'Require Import SC3.lib.PyNum SC3.model.TaskQ SC3.model.ClockSched.\n')
SBODY = 'Eval vm_compute in bad_idx scase_ok cases.'


def gen_sched(rng):
    ncl, ntk = rng.choice([1, 2, 2]), rng.randint(1, 3)
    nct = rng.randint(2, 7)
    cts = [[10 + rng.randrange(ncl), 100 + rng.randrange(ntk)] for _ in range(nct)]     # several ClockTasks per key
    times = ['0', '1', '1', '2', '2', '3', '1/2']

    def some(k):
        out = []
        for _ in range(k):
            r = rng.random()
            if r < 0.6: out.append(['add', rng.choice(times), rng.randint(1, nct)])
            elif r < 0.85: out.append(['retime', 10 + rng.randrange(ncl), rng.choice(['1', '1/2', '2', '0', '-1']), rng.choice(['0', '1', '2'])])
            elif r < 0.95: out.append(['iter'])
            else: out.append(['reset'])
        return out
    return {'kind': 'sched', 'cts': cts, 'init': some(rng.randint(2, 8)) + [['iter']],
            'chunks': [some(rng.choice([0, 0, 1, 2, 3])) for _ in range(rng.randint(0, 6))]}


def sop_term(o):
    if o[0] == 'add': return 'SAdd %s %s' % (cq(Fraction(o[1])), cz(o[2]))
    if o[0] == 'retime': return 'SRetime %s [%s]' % (cz(o[1]), '; '.join('(%s, %s)' % (cz(i), cq(Fraction(v))) for i, v in o[2]))
    return {'step': 'SStep', 'reset': 'SReset', 'iter': 'SIter'}[o[0]]


def check_sched(ctx, c, n):
    """flat histories recorded from the real ClockScheduler, replayed by the Coq model (outputs and final state)"""
    scs = [gen_sched(ctx.rng) for _ in range(n)]
    res = run_users(ctx, scs)
    items, idx = [], []
    fails = []
    for i, (sc, r) in enumerate(zip(scs, res)):
        c.count('user:sched')
        if 'error' in r:
            fails.append(Failure('correspondence', 'ClockScheduler scenario raised %s: %s' % (r['error'], json.dumps(sc)),
                                 replay={'scenarios': [sc], 'observed': r}))
            continue
        pairs = lambda col: '[%s]' % '; '.join('(%s, %s)' % (cz(k + 1), cz(ct[col])) for k, ct in enumerate(sc['cts']))
        st = r['state'] if r['state'] is not None else [-1]
        items.append('(%s, %s, %s, %s, %s)' % (pairs(0), pairs(1), clist(r['ops'], sop_term), clist(r['outs'], out_term), clist(st, cz)))
        idx.append(i)
        c.count('sched:wakeups', sum(1 for o in r['outs'] if o[0] == 'T'))
        c.count('sched:retimes', sum(1 for o in r['ops'] if o[0] == 'retime'))
        if any(o[0] == 'T' for o in r['outs']):
            c.nontriv(('sched', json.dumps(sc, sort_keys=True)))
    c.evaluations += len(scs)
    bad, errs = fw.check_shards(ctx, 'sched', SHEADER, items, SBODY, shard=ctx.n(40, 100))
    for e in errs:
        fails.append(Failure('correspondence', 'coq evaluation of ClockScheduler cases failed: ' + e))
    for b in sorted(bad, key=lambda b: len(json.dumps(scs[idx[b]])))[:2]:
        sc, r = scs[idx[b]], res[idx[b]]
        fails.append(Failure('correspondence', 'ClockScheduler model (coq/model/ClockSched.v) and implementation disagree on %s: '
                             'flat history %s outputs %s state %s' % (json.dumps(sc), r['ops'], r['outs'], r['state']),
                             replay={'scenarios': [sc], 'observed': r}))
    return fails


# ---- the real-time clocks as users: library-defined item identity (Function wrappers, Routines) ---------------
def gen_rt_batch(rng, clock, past=False, inside=False):
    """a batch for a real-time clock: ties, the same function / object scheduled again, tasks that schedule further
    tasks while they wake (before, with and after entries already due); 'past' = everything due in ONE wake cycle"""
    items, slot = [], {}
    uid = iter(range(1000))

    def nested(depth):
        return [['n%d' % next(uid), rng.choice([0, 0, 1, 1, 2, 3]), nested(depth - 1) if depth and rng.random() < 0.3 else [],
                 rng.choice([None, None, None, 'nan', 'inf'])] for _ in range(rng.choice([0, 0, 1, 1, 2]))]
    for i in range(rng.randint(3, 8)):
        kind = rng.choice(['plain', 'plain', 'plain', 'wrap'] + ([] if clock == 'app' else ['rout']))
        obj = rng.randrange(2)
        if kind == 'plain':                      # the same python function again: later slot, a NEW queue item
            k = slot.get(obj, 0) + rng.randint(0 if obj not in slot else 1, 2)
            slot[obj] = k
        else:
            k = rng.randint(0, 6)
        items.append(['%s%d.%d' % (kind[0], obj, i), kind, obj, k, nested(1) if kind == 'plain' else [],
                      rng.choice([None, None, 'nan', 'nan', 'inf']) if kind == 'plain' else None])
    return {'clock': clock, 'tempo': rng.choice(['1', '2']), 'past': past, 'inside': inside, 'items': items, 'expect': 0}


def rt_labels(b):
    """labels that must wake: one per queue item (the same object again = one item), plus everything scheduled on the way"""
    last = {}
    for n, it in enumerate(b['items']):
        lab, kind, obj, k, nested = it[:5]
        last[('p', n) if kind == 'plain' else (kind, obj)] = (lab, nested)
    out = []

    def walk(nested):
        for sp in nested:
            out.append(sp[0]); walk(sp[2])
    for lab, nested in last.values():
        out.append(lab); walk(nested)
    return out


def rt_expected(b, r):
    """reference queue fed with the additions in the order they happened (due times read back from the clock's queue)"""
    added = r.get('added') or []
    if any(t is None for _, t, _ in added):
        return None
    top = [a for a in added if a[2] is None]
    kids = {}
    for lab, t, parent in added:
        if parent is not None:
            kids.setdefault(parent, []).append((lab, Fraction(float(t))))
    if len(top) != len(b['items']):
        return None
    q, label = oracle.SortedListQueue(), {}
    for n, (it, (_, t, _)) in enumerate(zip(b['items'], top)):
        lab, kind, obj, k = it[:4]
        key = ('p', n) if kind == 'plain' else (kind, obj)
        label[key] = lab
        q.add(Fraction(float(t)), key)                       # the same object again = re-add
    exp = []
    while not q.empty() and len(exp) < 500:
        _, key = q.pop()
        lab = label[key]
        exp.append(lab)
        for n, (kl, kt) in enumerate(kids.get(lab, [])):     # what the task scheduled while it woke, in that order
            label[('k', kl)] = kl
            q.add(kt, ('k', kl))
    return exp


def check_rt(ctx, c, n):
    rng = ctx.rng
    fixed = [[['tick1', 'plain', 0, 1, []], ['other', 'plain', 1, 2, []], ['tick2', 'plain', 0, 3, []]],
             # A due first schedules C before B, D with B and E after B, all while B is already due
             [['A', 'plain', 0, 1, [['C', 1, []], ['D', 2, []], ['E', 3, []]]], ['B', 'plain', 1, 3, []]],
             [['a', 'plain', 0, 0, []], ['b', 'plain', 1, 0, []], ['c', 'plain', 2, 0, []]],
             # tasks answering nan / inf (never rescheduled) among others that are pending
             [['t%d' % i, 'plain', i, k, [], ('nan' if i in (1, 4) else 'inf' if i == 2 else None)] for i, k in enumerate([5, 1, 4, 2, 0, 6, 3])]]
    bs = []
    for clock in ('system', 'tempo', 'app'):
        for it in fixed:
            bs.append({'clock': clock, 'tempo': '2', 'past': True, 'inside': False, 'items': it})
    bs.append({'clock': 'app', 'past': False, 'inside': True, 'items': fixed[2]})
    for clock in ('system', 'tempo'):
        bs.append({'clock': clock, 'tempo': '1', 'past': False, 'inside': False, 'items': fixed[3]})
    for i in range(n):
        for clock in ('system', 'tempo', 'app'):
            bs.append(gen_rt_batch(rng, clock, past=rng.random() < 0.7, inside=(clock == 'app' and rng.random() < 0.4)))
    for b in bs:
        b['expect'] = len(rt_labels(b))
    try:
        res = ctx.impl('c09_rt', {'batches': bs}, mode='rt', timeout=900)['out']
    except fw.ImplError as e:
        c.notes.append('real-time clock batches not run (runner failed): %s' % str(e)[-300:])
        return []
    out = []
    for b, r in zip(bs, res):
        c.count('user:rt-' + b['clock'] + ('-inside' if b.get('inside') else '') + ('-one-cycle' if b.get('past') else ''))
        c.evaluations += 1
        if any(it[4] for it in b['items']): c.count('user:rt-schedules-while-waking')
        if 'nan' in json.dumps(b['items']) or 'inf' in json.dumps(b['items']): c.count('user:rt-answers-inf-or-nan')
        exp = rt_expected(b, r) if 'error' not in r else None
        log = r.get('log')
        if exp is not None and log == exp and sorted(exp) == sorted(rt_labels(b)):
            c.nontriv(('rt', json.dumps(b, sort_keys=True)))
            continue
        if exp is not None and log is not None and not r.get('complete', True) and exp[:len(log)] == log:
            c.notes.append('real-time batch not judged: only %d of %d wake-ups within 12 s (machine load)' % (len(log), len(exp)))
            continue
        if len(out) < 3:
            out.append(Failure('search', 'real-time %s clock: wake-ups %s, expected %s (reference queue fed with the additions in the order '
                               'they happened: %s; each sched of a plain function is a new item, the same Function / Routine object again '
                               'replaces its pending wake-up, a task may schedule others while it wakes) for batch %s%s'
                               % (b['clock'], log if log is not None else r, exp, r.get('added'), json.dumps(b),
                                  '' if r.get('complete', True) else ' -- wake-ups are MISSING after 12 s'),
                               signature='C09:user-rt:' + b['clock'], replay={'rt_batches': [b], 'observed': r, 'expected': exp},
                               found_input=True, theorem='pop_nondecreasing'))
    return out


# ---- Process._shutdown draining the exit-action queue (coq/model/Shutdown.v + reference) -----------------------
DHEADER = ('From Coq Require Import ZArith QArith List. Import ListNotations.\n'
           'Require Import SC3.lib.PyNum SC3.model.TaskQ SC3.model.Shutdown.\n')
DBODY = 'Eval vm_compute in bad_idx shutdown_case_ok cases.'
EXITPRIOS = [0, 0, 1, 700, 700, 800, 900, 901, -1]


def gen_shutdown(rng):
    n = rng.randint(1, 6)

    def some(k, inner):
        out = []
        for _ in range(k):
            r = rng.random()
            if r < 0.6: out.append(['add', rng.choice(EXITPRIOS), rng.randrange(n + 2)])     # new, or move = re-add
            elif r < 0.8: out.append(['remove', rng.randrange(n + 2)])
            elif inner: out.append(rng.choice([['peek', True], ['peek', False], ['empty'], ['iter']]))
        return out
    return {'kind': 'shutdown', 'init': some(rng.randint(1, 7), False),
            'chunks': [some(rng.choice([0, 0, 1, 2, 3]), True) for _ in range(rng.randint(0, 6))]}


def ref_shutdown(sc):
    q, order, chunks = oracle.SortedListQueue(), [], [list(c) for c in sc['chunks']]

    def do(o):
        if o[0] == 'add': q.add(Fraction(o[1]), o[2])
        elif o[0] == 'remove': q.remove(o[1])
    for o in sc['init']:
        do(o)
    while not q.empty() and len(order) < 1000:
        order.append(q.pop()[1])
        for o in (chunks.pop(0) if chunks else []):
            do(o)
    return order


def check_shutdown(ctx, c, n):
    fixed = {'kind': 'shutdown', 'init': [['add', 900, 1], ['add', 800, 2], ['add', 0, 3]], 'chunks': [[['add', 1, 1], ['add', 700, 4]]]}
    scs = [fixed] + [gen_shutdown(ctx.rng) for _ in range(n)]
    res = run_users(ctx, scs)
    fails, items = [], []
    qop = lambda o: ('OAdd %s %s' % (cq(Fraction(o[1])), cz(o[2])) if o[0] == 'add' else 'ORemove %s' % cz(o[1]) if o[0] == 'remove'
                     else 'OPeek %s' % cbool(o[1]) if o[0] == 'peek' else {'empty': 'OEmpty', 'iter': 'OIter'}[o[0]])
    ops = lambda l: clist(l, qop) if l else '(@nil op)'
    for sc, r in zip(scs, res):
        c.count('user:shutdown'); c.evaluations += 1
        if any(o[0] == 'add' for ch in sc['chunks'] for o in ch): c.count('user:shutdown-adds-while-draining')
        exp = ref_shutdown(sc)
        if r.get('order'):
            c.nontriv(('shutdown', json.dumps(sc, sort_keys=True)))
        if r.get('order') != exp or not r.get('empty', False):
            if len(fails) < 2:
                fails.append(Failure('search', 'Process._shutdown ran the exit actions %s and left %s in the queue; expected %s and an empty queue '
                                     '(actions registered, moved or unregistered by a running action count) for %s'
                                     % (r.get('order', r), r.get('left'), exp, json.dumps(sc)),
                                     signature='C09:user-shutdown', replay={'scenarios': [sc], 'observed': r, 'expected': exp, 'how': USERS_HOW},
                                     found_input=True, theorem='shutdown_runs_actions_added_while_draining'))
            continue
        items.append('(%s, %s, %s, %s)' % (ops(sc['init']), '[%s]' % '; '.join(ops(ch) for ch in sc['chunks']) if sc['chunks'] else '(@nil (list op))',
                                       clist(r['order'], cz) if r['order'] else '(@nil Z)', cbool(r['empty'])))
    bad, errs = fw.check_shards(ctx, 'shutdown', DHEADER, items, DBODY, shard=ctx.n(60, 150))
    for e in errs:
        fails.append(Failure('correspondence', 'coq evaluation of shutdown cases failed: ' + e))
    for b in bad[:2]:
        fails.append(Failure('correspondence', 'Shutdown model (coq/model/Shutdown.v) and Process._shutdown disagree on case %s' % items[b],
                             replay={'case': items[b]}))
    return fails


# ---- correspondence --------------------------------------------------------------------------
def correspond(ctx):
    c = Corr()
    longmax = ctx.n(60, 400)
    cases = load_corpus()
    ncorpus = len(cases)
    cases += [gen_case(ctx.rng, longmax) for _ in range(ctx.n(400, 6000))]
    hist = [k['ops'] for k in cases]
    out = run_impl(ctx, hist)
    mon = {}
    for ops, r in zip(hist, out):
        annotate(c, ops, r['outs'])
        if any(o[0] == 'T' for o in r['outs']) and any(op[0] == 'add' for op in ops):
            c.nontriv(ops)
        v = oracle.monitor(ops, r)                 # tags, bookkeeping after every op, error paths, interleaved iteration
        if v and (v[1] not in mon or len(ops) < len(mon[v[1]])):
            mon[v[1]] = ops
    c.failures.extend(report_monitor(ctx, mon))
    items = [case_term(h, r) for h, r in zip(hist, out)]
    bad, errs = fw.check_shards(ctx, 'hist', HEADER, items, BODY, shard=ctx.n(40, 100))
    c.evaluations = len(cases)
    c.rule = ('histories of add / re-add / remove / pop / peek(True|False) / empty / clear / iter on one real TaskQueue '
              '(%d corpus + generated: random weighted, drain, tombstone-heavy, equal-priority FIFO, re-add chains, malformed; '
              'int and float priorities with many ties, <= 8 tasks); model = coq/model/TaskQ.v executable model (run) AND the '
              'abstract sorted-list spec (spec_run) evaluated by vm_compute; compared: every output exactly (exact rationals) and '
              'the final internal state (len(_queue), _removed_counter, next count, tombstones, _entry_finder, live entries). '
              'non-trivial = at least one add and at least one successful pop/peek' % ncorpus)
    small = [i for i in range(len(hist)) if 4 <= len(hist[i]) <= 9 and any(o[0] == 'T' for o in out[i]['outs'])]
    c.samples = [{'ops': hist[i], 'impl': out[i]['outs'], 'state': out[i]['state']} for i in small[:4]]
    for e in errs:
        c.failures.append(Failure('correspondence', 'coq evaluation of history cases failed: ' + e))

    def fails(cands):
        rs = run_impl(ctx, cands)
        b, er = coq_disagrees(ctx, cands, rs)
        return [(i in b) for i in range(len(cands))] if not er else [False] * len(cands)

    bad.sort(key=lambda i: len(hist[i]))
    seen = []
    for n, i in enumerate(bad[:5]):
        ops = shrink(hist[i], fails) if n < 3 else hist[i]
        if ops in seen:
            continue
        seen.append(ops)
        r = run_impl(ctx, [ops])[0]
        c.failures.append(Failure(
            'correspondence',
            'model (coq/model/TaskQ.v run + spec_run) and implementation disagree on history %s: impl outs=%s state=%s; '
            'reference queue says: %s' % (ops, r['outs'], r['state'], oracle.check_property(ops, r['outs']) or
                                         'outputs agree with the reference (internal state differs from the model)'),
            replay={'ops': ops, 'impl': r['outs'], 'state': r['state'], 'how': HOW}))
    if len(bad) > 5:
        c.notes.append('%d disagreeing histories in total, the 5 shortest reported (3 of them shrunk)' % len(bad))
    indirect(ctx, c)
    c.failures.extend(check_users(ctx, c, ctx.n(150, 1500)))
    c.failures.extend(check_sched(ctx, c, ctx.n(120, 1500)))
    c.failures.extend(check_rt(ctx, c, ctx.n(2, 8)))
    c.failures.extend(check_shutdown(ctx, c, ctx.n(100, 1200)))
    c.notes.append('indirect users II: clock tasks in an NRT process (SystemClock / TempoClocks, re-scheduling while pending, tempo and '
                   'beats changes -> ClockScheduler.retime, main.reset() after aborted histories, empty()-driven run loop), OscScore '
                   'filled from inside routines (latencies None / negative / 0 / positive; list view against raw timetags) and Ppar '
                   'merges, all judged by the sorted-list reference queue (harness/oracles/c09_users_ref.py)')
    return c


# ---- monitor failures -> concrete inputs -------------------------------------------------------
def report_monitor(ctx, viol):
    found = []
    for clause, ops in sorted(viol.items(), key=lambda kv: len(kv[1]))[:3]:
        def fails(cands, clause=clause):
            vs = [oracle.monitor(h, r) for h, r in zip(cands, run_impl(ctx, cands))]
            return [bool(v) and v[1] == clause for v in vs]
        ops = shrink(ops, fails)
        res = run_impl(ctx, [ops])[0]
        v = oracle.monitor(ops, res)
        found.append(Failure('search', 'TaskQueue departs from a stable priority queue (clause %s): history %s; %s'
                             % (clause, ops, v[2] if v else ''), signature='C09:' + clause,
                             replay={'ops': ops, 'observed': res['outs'], 'probes': res.get('probes'),
                                     'expected': oracle.run_reference(ops), 'how': HOW},
                             found_input=True, theorem=THEOREM_OF.get(clause, 'tq_refines_spec')))
    return found


# ---- search (implementation against the independent reference) --------------------------------
def boundary_histories():
    A = lambda p, t: ['add', p, t]
    I0, F0, I1, F1, H = P6[0], P6[1], P6[2], P6[3], P6[4]
    tail = [['peek', True], ['peek', False], ['empty'], ['iter'], ['pop'], ['pop'], ['pop'], ['empty']]
    hs = [
        [A(I1, 0), A(I1, 1), ['remove', 0]] + tail,                 # tombstone below a live tie
        [A(I1, 0), A(F1, 1), A(H, 2), ['remove', 2]] + tail,         # smallest is a tombstone
        [A(I1, 0), A(P6[5], 1), ['remove', 1]] + tail,  # largest is a tombstone
        [A(I1, 0), ['remove', 0]] + tail,                           # only tombstones
        [A(I1, 0), A(I1, 1), A(I1, 0)] + tail,                      # re-add at the same time goes last
        [A(I1, 0), A(F1, 1), A(H, 0)] + tail, [A(H, 0), A(F1, 1), A(P6[5], 0)] + tail,
        [A(I0, 0), A(F0, 1), A(I0, 2), A(F0, 3)] + tail,            # int/float ties are FIFO
        [A(I1, 0), ['remove', 0], A(I1, 0), ['remove', 0], ['empty'], ['pop'], ['empty']] + tail,
        [['pop'], ['peek', True], ['peek', False], ['remove', 3], ['clear']] + tail,
        [A(I1, 0), A(I1, 1), ['clear'], A(I1, 1), A(I1, 0)] + tail,
        [A(I1, 0), A(I1, 1), ['pop'], A(I1, 0), A(I0, 2), ['remove', 2]] + tail,
    ]
    Z, B0, B1, Q1, Qh = ['Z', '0'], ['B', '0'], ['B', '1'], ['Q', '1'], ['Q', '1/2']
    for kind in ('odd', 'eq', 'obj', 'lib'):
        T = [['tasks', kind]]
        hs += [
            T + [A(I0, 0), A(F0, 1), A(Z, 2), A(B0, 3), A(I0, 0)] + tail + tail,      # all zeros tie; task id 0 re-added
            T + [A(B1, 0), A(Q1, 1), A(F1, 2), A(I1, 3), ['remove', 0], A(Qh, 0)] + tail + tail,
            T + [A(['I', '-1'], 0), A(Z, 0), A(['F', '-1'], 1), ['remove', 0], ['removebad'], ['addbad', I1]] + tail,
            T + [A(I1, 0), A(I1, 1), A(I1, 2), ['iterk', 1, [['remove', 1], A(I0, 3), ['pop']]]] + tail,
            T + [A(I1, 0), A(I1, 1), ['iterk', 0, [A(I1, 0), ['pop']]], ['clear'], A(I0, 0), A(I0, 0), ['pop']] + tail,
        ]
    return hs


def search(ctx, failures):
    rng = ctx.rng
    hist = [k['ops'] for k in load_corpus()]
    hist += [f.replay['ops'] for f in failures if isinstance(f.replay, dict) and f.replay.get('ops')]
    hist += boundary_histories()
    hist += [gen_case(rng, 40)['ops'] for _ in range(ctx.n(2000, 20000))]
    out = run_impl(ctx, hist)
    viol = {}
    for ops, r in zip(hist, out):
        v = oracle.monitor(ops, r)
        if v and (v[1] not in viol or len(ops) < len(viol[v[1]])):
            viol[v[1]] = ops
    found = report_monitor(ctx, viol)
    if not any((f.signature or '').startswith('C09:user-') for f in failures):
        found += check_users(ctx, None, ctx.n(300, 3000))
    return found


def replay(ctx, rp):
    scs = rp.get('replay', rp).get('scenarios')
    if scs:
        res = run_users(ctx, scs)
        rc = 0
        for sc, r in zip(scs, res):
            v = users.JUDGES[sc['kind']](sc, r)
            print(json.dumps(sc)); print('  observed:', r); print('  verdict :', v or 'agrees with the reference queue')
            rc = rc or (1 if v else 0)
        return rc
    ops = rp.get('replay', rp).get('ops')
    if not ops:
        print(json.dumps(rp, indent=1)); return 0
    r = run_impl(ctx, [ops])[0]
    exp = oracle.run_reference(ops)
    fo, fr, fp, _ = oracle.flatten(ops, r['outs'], r.get('probes'))
    for i, (op, a, b, pr) in enumerate(zip(fo, fr, exp, fp)):
        print('%3d %-28s impl=%-44s reference=%s probe=%s%s' % (i, op, a, b, pr, '' if a == b else '   <-- differs'))
    print('final state:', r['state'])
    v = oracle.monitor(ops, r)
    print(v[2] if v else 'implementation agrees with the reference')
    return 1 if v else 0
