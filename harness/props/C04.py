"""C04 -- function parameters become correctly laid-out, correctly wired controls."""
import json, os, sys
from fractions import Fraction
import fw
from fw import Corr, Failure, cq, cnat, cbool, clist, copt, cstr

sys.path.insert(0, os.path.join(fw.VERIF, 'harness'))
from oracles import c04_layout as oracle

TITLE = 'Function parameters become correctly laid-out, correctly wired controls'
TRANSLATED = []
MODEL_TARGETS = ['model/Controls.vo']
ALLOWED_AXIOMS = []
TRUSTED = [
    'hand-written model coq/model/Controls.v of synthdef.py (_args_to_controls, _build_controls, variants part of '
    '_write_def, __call__) and inout.py (ControlName, Control/TrigControl/AudioControl/LagControl), tied by exact '
    'differential correspondence on generated signatures',
    'harness/impl/c04_build.py: builds real functions with the generated signatures (exec), records inside the body '
    'which control outputs each parameter was bound to, decodes the variants section of the bytes with its own SCgf walker',
    'the bodies of graph functions are abstracted to "creates other units and calls SynthDef.wrap": only the order of wrap calls matters',
]
ASSUMES = ['defaults, lags, variant values and call arguments are numbers (int/float); values are only copied, never computed with',
           'tuple defaults are non-empty, lag lists are Python lists of numbers, rates is a list',
           'f32 rounding of control values by struct is trusted (cases use f32-representable dyadics)']

RATES = ['ir', 'tr', 'ar', 'kr']
THEOREM_OF = {'C04:prepend-values': 'prepend_skips', 'C04:default-type-changed': 'ctl_defaults_in_array', 'C04:negative-zero': 'bytes_carry_layout',
              'C04:call-positional-prepend': 'call_maps_args', 'C04:call-positional-wrap': 'call_maps_args',
              'C04:call-positional-other': 'call_maps_args', 'C04:variants-invalid-truncated': 'variants_layout',
              'C04:variants-layout': 'variants_layout', 'C04:lag-list-on-one-slot-control': 'ctl_layout',
              'C04:layout': 'ctl_layout', 'C04:lags': 'ctl_lags', 'C04:name-table': 'ctl_layout'}
SIGS = {1: 'C04:call-positional-names', 2: 'C04:variants-invalid-truncated', 4: 'C04:lag-list-on-one-slot-control'}


# ------------------------------------------------------------------ generator
def gnum(rng, lag=False):
    """[fraction-string, kind]: f32-representable dyadic; kind True = int, False = float,
    'b' = bool, 'nz' = float -0.0.  Explicit falsy zeros of every type are over-represented."""
    r = rng.random()
    if lag:
        if r < 0.25:
            return ['0', rng.choice([True, False, 'nz'])]
        if r < 0.5:
            return [str(rng.randint(1, 4)), rng.random() < 0.5]
        return [str(Fraction(rng.randint(1, 64), 1 << rng.randint(1, 6))), False]
    if r < 0.14:
        return ['0', rng.choice([True, False, 'b', 'nz'])]
    if r < 0.17:
        return ['1', 'b']
    if r < 0.45:
        return [str(rng.randint(-64, 64)), True]
    if r < 0.52:
        return [str(rng.choice([1, 440, -1])), rng.random() < 0.5]
    return [str(Fraction(rng.randint(-4096, 4096), 1 << rng.randint(0, 6))), False]


def kindtag(x):
    """expected type tag (as harness/impl/c04_build.py:tag reports it) of a generated number"""
    fr_, kind = Fraction(x[0]), x[1]
    if kind == 'b':
        return 'b'
    if kind == 'nz':
        return 'f-'
    if kind is True and fr_.denominator == 1:
        return 'i'
    return 'f'


PRE_POOL = [['n', '0', True], ['n', '0', False], ['n', '0', 'b'], ['n', '0', 'nz'], ['none'], ['str'], ['tuple'], ['list'],
            ['n', '5', True], ['n', '1/2', False], ['str1'], ['tuple2']]
PRE_SCALAR_POOL = [['n', '0', True], ['n', '0', False], ['n', '0', 'b'], ['str'], ['tuple'], ['n', '5', True], ['str1'], ['tuple2']]


def gen_prepend_vals(rng, count):
    """explicit prepend argument: None = the default stand-in floats; a list of `count` arbitrary
    (also falsy) objects; for count 1 also a bare non-list object (utils.as_list wraps it)"""
    r = rng.random()
    if r < 0.4:
        return None
    if count == 1 and r < 0.6:
        return ['scalar', rng.choice(PRE_SCALAR_POOL)]
    return ['list', [rng.choice(PRE_POOL) for _ in range(count)]]


class Namer:
    def __init__(self):
        self.k = 0
        self.used = []

    def new(self, rng, dup_ok):
        if dup_ok and self.used and rng.random() < 0.04:
            return rng.choice(self.used)
        n = rng.choice(['p', 'freq', 'amp', 'q', 'gate', 'x']) + str(self.k)
        self.k += 1
        self.used.append(n)
        return n


def gen_sig(rng, namer, nmax, depth, malformed):
    n = rng.choice([0, 1, 2, 3]) if rng.random() < 0.25 else rng.randint(1, nmax)
    params = []
    local = set()
    for i in range(n):
        name = namer.new(rng, depth > 0)
        while name in local:
            name = namer.new(rng, False)
        local.add(name)
        annot = rng.choice(RATES) if rng.random() < 0.5 else None
        r = rng.random()
        if r < 0.15:
            d = ['none']
        elif r < 0.2:
            d = ['None']
        elif r < 0.23:
            d = ['str']
        elif r < 0.65:
            d = ['s'] + gnum(rng)
        else:
            ln = rng.choice([1, 1, 2, 2, 3, 4, 5]) if rng.random() < 0.93 else rng.choice([15, 16, 17, 20, 33])
            d = ['t', [gnum(rng) for _ in range(ln)]]
        params.append({'name': name, 'kind': 'pok', 'annot': annot, 'default': d})
    # a parameter without default cannot follow one with a default in Python source
    seen = False
    for p in params:
        if p['default'][0] != 'none':
            seen = True
        elif seen:
            p['default'] = ['None']
    prepend = 0
    if n and rng.random() < 0.3:
        prepend = rng.randint(1, min(n, 3))
    rates = None
    if rng.random() < 0.7:
        m = rng.randint(0, n - prepend + 1)
        if rng.random() < 0.5:
            m = max(0, n - prepend)
        rates = []
        for i in range(m):
            r = rng.random()
            if r < 0.3:
                rates.append(None)
            elif r < 0.55:
                rates.append(rng.choice(RATES))
            elif r < 0.82:
                rates.append(['lag'] + gnum(rng, lag=True))
            else:
                ln = rng.randint(1, 4)
                if prepend + i < n and params[prepend + i]['default'][0] == 't' and rng.random() < 0.5:
                    ln = max(1, len(params[prepend + i]['default'][1]) + rng.choice([-1, 0, 1]))
                rates.append(['lags', [gnum(rng, lag=True) for _ in range(ln)]])
    if malformed and n:
        k = rng.random()
        i = rng.randrange(n)
        if k < 0.2:
            params[i]['annot'] = rng.choice(['bad_float', 'bad_num', 'bad_str'])
        elif k < 0.4:
            params[i]['default'] = ['nested', rng.randrange(3)]
            for p in params[i + 1:]:
                if p['default'][0] == 'none':
                    p['default'] = ['None']
        elif k < 0.55:
            for p in params[i:]:
                p['kind'] = 'kwonly'
        elif k < 0.65:
            params[-1]['kind'] = 'varargs'
            params[-1]['default'] = ['none']
            params[-1]['annot'] = None
        elif k < 0.75:
            params[-1]['kind'] = 'varkw'
            params[-1]['default'] = ['none']
            params[-1]['annot'] = None
        elif k < 0.86:
            prepend = n + 1
        else:
            # empty tuple default: a zero-width control; a rate group made only of them raises
            params[i]['default'] = ['t', []]
            for p in params[i + 1:]:
                if p['default'][0] == 'none':
                    p['default'] = ['None']      # Python: no parameter without default after one with a default
            if rng.random() < 0.5:
                for p in params:
                    if p['default'][0] != 't':
                        p['annot'] = rng.choice(['ir', 'tr', 'ar'])
    wraps = []
    if depth < 2 and rng.random() < (0.35 if depth == 0 else 0.25):
        for _ in range(rng.randint(1, 2)):
            r = rng.random()
            if r < 0.12:
                # a wrapped function whose signature is refused; the body catches the error and goes on
                w = gen_sig(rng, namer, max(1, nmax // 2), 2, False)
                w['wraps'] = []
                if not w['params']:
                    w['params'] = [{'name': namer.new(rng, False), 'kind': 'pok', 'annot': None, 'default': ['None']}]
                w['prepend'], w['prepend_vals'] = 0, None
                k = rng.randrange(3)
                if k == 0:
                    w['params'][-1]['annot'] = rng.choice(['bad_float', 'bad_num', 'bad_str'])
                elif k == 1:
                    w['params'][-1]['default'] = ['nested', rng.randrange(3)]
                else:
                    w['params'][-1]['kind'] = 'kwonly'
                w['fail'] = 'caught_sig'
            elif r < 0.2:
                # a wrapped function whose body raises after its controls were built; caught by the caller
                w = gen_sig(rng, namer, max(1, nmax // 2), depth + 1, False)
                w['fail'] = 'caught_body'
            else:
                w = gen_sig(rng, namer, max(1, nmax // 2), depth + 1, malformed and rng.random() < 0.3)
            wraps.append(w)
    pv = gen_prepend_vals(rng, prepend) if 0 < prepend <= n else (['list', []] if prepend == 0 and rng.random() < 0.1 else None)
    return {'params': params, 'rates': rates, 'prepend': prepend, 'prepend_vals': pv, 'wraps': wraps}


def model_tree(t):
    """the tree the model is given: wraps refused at the signature (and caught) leave nothing behind"""
    return {'params': t['params'], 'rates': t['rates'], 'prepend': t['prepend'], 'prepend_vals': t.get('prepend_vals'),
            'wraps': [model_tree(w) for w in t['wraps'] if w.get('fail') != 'caught_sig']}


def model_case(case):
    m = dict(case)
    m['tree'] = model_tree(case['tree'])
    return m


def nodes(t):
    yield t
    for w in t['wraps']:
        yield from nodes(w)


def uncaught_nodes(t):
    """functions whose exceptions nobody catches (not inside a wrap that the caller guards)"""
    yield t
    for w in t['wraps']:
        if not w.get('fail'):
            yield from uncaught_nodes(w)


def raises_uncaught(case):
    for t in nodes(case['tree']):
        if t.get('raise_body'):
            return t['raise_body']
    return None


WARPS = ['lin', 'exp', 'sin', 'cos', 'amp', 'db', ['2', True], ['-7/2', False], ['1/2048', False]]


def gen_spec(rng):
    """[expected default, shape]: a ControlSpec of any legal shape as the source of a default --
    ordered, INVERTED (minval > maxval) and empty ranges, every warp, a step, the default inside the
    range, on either bound, outside it, or None (then the spec's default is its minval)"""
    lo, hi = gnum(rng), gnum(rng)
    r = rng.random()
    flo, fhi = Fraction(lo[0]), Fraction(hi[0])
    if r < 0.4 and flo < fhi or r >= 0.6 and flo > fhi:
        lo, hi = hi, lo                       # ~40 % inverted, ~60 % ordered
    elif 0.4 <= r < 0.47:
        hi = list(lo)
    flo, fhi = Fraction(lo[0]), Fraction(hi[0])
    k = rng.random()
    if k < 0.2:
        dflt = None
    elif k < 0.5:
        dflt = [str((flo + fhi) / 2 if rng.random() < 0.5 else flo + (fhi - flo) / 4), False]
    elif k < 0.6:
        dflt = list(lo)
    elif k < 0.7:
        dflt = list(hi)
    elif k < 0.8:
        dflt = [str(max(flo, fhi) + rng.randint(1, 9)), rng.random() < 0.5]
    else:
        dflt = gnum(rng)
    shape = {'minval': lo, 'maxval': hi, 'warp': rng.choice(WARPS), 'step': rng.choice([None, None, ['0', True], ['1/2', False]]),
             'default': dflt}
    return [list(dflt) if dflt is not None else list(lo), shape]


def control_params(tree):
    res = []
    for f in oracle.preorder(tree):
        res += f['params'][f['prepend']:]
    return res


def gen_case(rng, idx, nmax, malformed=False):
    namer = Namer()
    tree = gen_sig(rng, namer, nmax, 0, malformed)
    name = 'c04_%d' % idx
    cps = control_params(model_tree(tree))
    case = {'name': name, 'tree': tree, 'specs': None, 'variants': None, 'calls': []}
    if not malformed and rng.random() < 0.04:
        # the body of some function raises and nobody catches it: the build fails; what is left behind?
        rng.choice(list(uncaught_nodes(tree)))['raise_body'] = rng.choice(['exc', 'base'])
    if rng.random() < 0.1:
        case['empty_dicts'] = True
    # how the optional arguments reach SynthDef: by keyword (None given explicitly), positionally, or
    # omitted when None (the library's own default values are then used -- shared between builds?)
    case['arg_form'] = rng.choice(['keyword', 'positional', 'omit_none', 'omit_none'])
    if rng.random() < 0.35:
        specs = []
        for p in cps:
            if rng.random() < (0.7 if p['default'][0] in ('none', 'None', 'str') else 0.2):
                if p['name'] not in [s[0] for s in specs]:
                    specs.append([p['name']] + gen_spec(rng))
        if rng.random() < 0.3:
            specs.append(['unused'] + gen_spec(rng))
        case['specs'] = specs
    if cps and rng.random() < 0.4:
        vs = []
        for k in range(rng.randint(1, 3)):
            pairs = []
            names = []
            for _ in range(rng.randint(1, 3)):
                p = rng.choice(cps)
                if p['name'] in names:
                    continue
                names.append(p['name'])
                dl = len(p['default'][1]) if p['default'][0] == 't' else 1
                if dl == 1 and rng.random() < 0.6:
                    vals = ['s'] + gnum(rng)
                else:
                    vals = ['l', [gnum(rng) for _ in range(rng.randint(1, max(1, dl)))]]
                pairs.append([p['name'], vals])
            vn = 'v%d' % k
            r = rng.random()
            if r < 0.06:
                pairs.append(['nope', ['s'] + gnum(rng)])
            elif r < 0.12 and pairs:
                dl = len(pairs[0][1][1]) if pairs[0][1][0] == 'l' else 1
                p0 = [p for p in cps if p['name'] == pairs[0][0]][-1]
                dl = len(p0['default'][1]) if p0['default'][0] == 't' else 1
                pairs[0][1] = ['l', [gnum(rng) for _ in range(dl + 1)]]
            elif r < 0.18:
                vn = 'uvw'[k] * (33 - len(name) - 1 - rng.choice([0, 1, 2]))   # full name 31..33 chars, distinct per k
            vs.append([vn, pairs])
        case['variants'] = vs
    outer = tree['params'][tree['prepend']:]
    allnames = [p['name'] for p in tree['params']] + [p['name'] for p in cps]
    for ci in range(2):
        na = rng.randint(0, len(outer) + 1) if ci else rng.randint(1, max(1, len(outer)))
        kw = []
        for _ in range(rng.choice([0, 1, 2, 2, 4])):
            k = rng.choice(allnames) if allnames and rng.random() < 0.8 else rng.choice(['other', 'zz', 'aa'])
            if k not in [x[0] for x in kw]:
                kw.append([k, gnum(rng)])
        case['calls'].append({'args': [gnum(rng) for _ in range(na)], 'kwargs': kw})
    return case


# the minimal inputs of the candidate defects and some boundary situations (always run first)
def P(name, annot=None, default=None, kind='pok'):
    return {'name': name, 'kind': kind, 'annot': annot, 'default': default or ['none']}


def S(x, i=True):
    return ['s', str(x), i]


def T(*xs):
    return ['t', [[str(x), True] for x in xs]]


def battery():
    def case(name, tree, **kw):
        c = {'name': name, 'tree': tree, 'specs': None, 'variants': None, 'calls': [],
             'arg_form': ['omit_none', 'keyword', 'positional'][len(name) % 3]}
        c.update(kw)
        return c

    def sig(params, rates=None, prepend=0, wraps=None):
        return {'params': params, 'rates': rates, 'prepend': prepend, 'wraps': wraps or []}
    two = [{'args': [['330', True], ['1/2', False]], 'kwargs': []}]
    return [
        case('b_prepend', sig([P('a'), P('b'), P('freq', None, S(440)), P('amp', None, S('1/8', False))], prepend=2), calls=two),
        case('b_wrap', sig([P('freq', None, S(440)), P('amp', None, S('1/8', False))],
                           wraps=[sig([P('x', None, S(1)), P('y', None, S(2))])]), calls=two),
        case('b_variant_unknown', sig([P('a', None, S(1)), P('b', None, S(2))]), variants=[['v', [['nope', S(1)]]]]),
        case('b_variant_long', sig([P('a', None, S(1))]), variants=[['ok', [['a', S(3)]]], ['v' * 30, [['a', S(2)]]]]),
        case('b_variant_size', sig([P('a', None, T(1, 2))]), variants=[['v', [['a', ['l', [['1', True], ['2', True], ['3', True]]]]]]]),
        case('b_variant_ok', sig([P('a', 'ar', T(1, 2)), P('b', 'ir', S(5)), P('c', None, S(7))]),
             variants=[['one', [['a', S(9)]]], ['two', [['c', S(3)], ['a', ['l', [['4', True], ['6', True]]]]]]]),
        case('b_laglist_scalar', sig([P('a', None, S(1)), P('b', None, T(2, 3))], rates=[['lags', [['1/8', False], ['1/4', False]]], None])),
        case('b_laglist_1tuple', sig([P('a', None, T(1)), P('b', None, T(2, 3))], rates=[['lags', [['1/8', False], ['1/4', False]]]])),
        case('b_groups', sig([P('a', 'kr', S(1)), P('b', 'ar', T(2, 3)), P('c', 'tr', S(4)), P('d', 'ir', T(5, 6, 7)), P('e', None, S(8)),
                              P('f', 'ir', S(9)), P('g', 'tr', T(10, 11)), P('h', 'ar', S(12))], rates=[['lag', '1/2', False]])),
        case('b_override', sig([P('a', 'ir', S(1)), P('b', 'ar', S(2)), P('c', 'kr', S(3)), P('d', 'tr', S(4)), P('e', None, S(5))],
                               rates=['kr', 'ir', 'tr', 'ar', 'ir'])),
        case('b_clump', sig([P('a', None, T(*range(20))), P('b', None, S(5)), P('c', None, T(*range(15)))],
                            rates=[['lag', '1/8', False], None, ['lags', [['1/4', False], ['0', True]]]])),
        case('b_empty_alone', sig([P('a', None, ['t', []])])),
        case('b_empty_shared', sig([P('a', None, ['t', []]), P('b', None, T(2, 3))], rates=[['lag', '1/8', False], ['lag', '1/4', False]])),
        # falsy-zero defaults of every type, with a spec that must NOT replace them, and None defaults that it must
        case('b_falsy_specs', sig([P('a', None, ['s', '0', True]), P('b', None, ['s', '0', False]), P('c', None, ['s', '0', 'b']),
                                   P('d', None, ['s', '0', 'nz']), P('e', None, ['None']), P('f', None, ['None']),
                                   P('g', 'ir', ['t', [['0', True], ['0', 'nz'], ['0', 'b']]])],
                                  rates=[['lag', '0', True], ['lag', '0', False], 'kr', None, ['lags', [['0', True], ['0', False]]]]),
             specs=[[n, ['7', True]] for n in 'abcdg'] + [['e', ['0', True]]],
             variants=[['z', [['a', ['s', '0', False]], ['g', ['l', [['0', True], ['0', 'nz']]]]]], ['y', [['e', ['s', '0', 'nz']]]]],
             calls=[{'args': [['0', True], ['0', False], ['0', 'b']], 'kwargs': [['f', ['0', True]], ['zz', ['0', False]], ['a', ['0', 'nz']]]}]),
        case('b_spec_shapes', sig([P('inv'), P('invb'), P('none_inv'), P('out'), P('eq'), P('expw', 'ir'), P('dbw', 'ar'), P('curve', 'tr'),
                                   P('nospec'), P('has', None, S(3))]),
             specs=[['inv', ['1/4', False], {'minval': ['1', False], 'maxval': ['0', False], 'warp': 'lin', 'step': None, 'default': ['1/4', False]}],
                    ['invb', ['0', False], {'minval': ['1', False], 'maxval': ['0', False], 'warp': 'amp', 'step': ['1/2', False], 'default': ['0', False]}],
                    ['none_inv', ['8', True], {'minval': ['8', True], 'maxval': ['-8', True], 'warp': 'lin', 'step': None, 'default': None}],
                    ['out', ['99', True], {'minval': ['0', True], 'maxval': ['1', True], 'warp': 'cos', 'step': None, 'default': ['99', True]}],
                    ['eq', ['5', True], {'minval': ['5', True], 'maxval': ['5', True], 'warp': 'sin', 'step': None, 'default': None}],
                    ['expw', ['440', True], {'minval': ['20000', True], 'maxval': ['20', True], 'warp': 'exp', 'step': ['0', True], 'default': ['440', True]}],
                    ['dbw', ['-6', True], {'minval': ['0', True], 'maxval': ['-60', True], 'warp': 'db', 'step': None, 'default': ['-6', True]}],
                    ['curve', ['-1/2', False], {'minval': ['1', True], 'maxval': ['-1', True], 'warp': ['-7/2', False], 'step': None, 'default': ['-1/2', False]}],
                    ['has', ['7', True], {'minval': ['9', True], 'maxval': ['0', True], 'warp': 'lin', 'step': None, 'default': ['7', True]}]]),
        case('b_prepend_scalar0', sig([P('a'), P('freq', None, S(440))], prepend=1) | {'prepend_vals': ['scalar', ['n', '0', True]]},
             calls=[{'args': [['330', True]], 'kwargs': []}]),
        case('b_prepend_rates', sig([P('buf'), P('a', None, S(1)), P('b', 'tr', T(2, 3)), P('c', None, T(4, 5, 6)), P('d', None, S(7))],
                                    rates=['ar', None, ['lags', [['1/8', False], ['1/4', False]]], 'ir'], prepend=1),
             calls=[{'args': [['9', True], ['8', True]], 'kwargs': [['d', ['0', True]]]}]),
        case('b_prepend_falsy', sig([P('a'), P('b'), P('c'), P('freq', None, S(440))], prepend=3)
             | {'prepend_vals': ['list', [['n', '0', True], ['none'], ['list']]]}),
        case('b_prepend_emptylist', sig([P('freq', None, S(440))]) | {'prepend_vals': ['list', []]}, empty_dicts=True),
        # LagControl clumps at exactly 16 / 17 / 32 / 33 kr slots; arrays of 1, 2, 16, 17 in every rate group
        case('b_kr16', sig([P('a', None, T(*range(1, 16))), P('b', None, S(5))], rates=[['lag', '1/8', False]])),
        case('b_kr17', sig([P('a', None, T(*range(1, 17))), P('b', None, S(5))], rates=[None, ['lag', '1/8', False]])),
        case('b_kr33', sig([P('a', None, T(*range(16))), P('b', None, T(*range(17))), P('c', None, S(9))],
                           rates=[['lags', [['1/8', False], ['0', True], ['1/4', False]]], ['lag', '1/2', False]])),
        case('b_arrays_everywhere', sig([P('i1', 'ir', T(1)), P('k1', None, T(*range(17))), P('t1', 'tr', T(*range(16))), P('a1', 'ar', T(1, 2)),
                                         P('i2', 'ir', T(*range(17))), P('t2', 'tr', T(3)), P('a2', 'ar', T(*range(16))), P('k2', None, T(4, 5)),
                                         P('i3', 'ir', S(6)), P('t3', 'tr', S(7)), P('a3', 'ar', S(8)), P('k3', None, S(9))],
                                        rates=[None, ['lag', '1/8', False]]),
             variants=[['v', [['k2', ['l', [['0', True]]]], ['a2', ['l', [['1', True]] * 16]], ['i3', S(0)]]]]),
        case('b_45params', sig([P('p%d' % i, [None, 'ir', 'tr', 'ar', 'kr'][i % 5], T(i, i + 1) if i % 3 == 0 else S(i)) for i in range(45)],
                               rates=[None, 'ar', ['lag', '1/4', False]] * 15),
             calls=[{'args': [[str(i), True] for i in range(45)], 'kwargs': [['p44', ['0', True]], ['p0', ['1', True]]]}]),
        # variant names: the 32-character limit applies to 'defname.key' (31, 32 valid; 33 invalid)
        case('b_vname', sig([P('a', None, S(1))]),
             variants=[['k' * 23, [['a', S(2)]]], ['m' * 24, [['a', S(3)]]], ['n' * 25, [['a', S(4)]]], ['o', [['a', S(5)]]]]),
        # wrap nested two levels deep, a refused wrap and a raising wrap caught by the body, then another wrap
        case('b_wrap_deep', sig([P('freq', None, S(440)), P('amp', None, S('1/8', False))], wraps=[
            sig([P('x1', 'ar', T(1, 2))], wraps=[sig([P('y1', 'ir', S(3)), P('y2', None, S(4))], rates=[None, ['lag', '1/2', False]])]),
            sig([P('bad', 'bad_float', S(1))]) | {'fail': 'caught_sig'},
            sig([P('z1', 'tr', S(5))], wraps=[sig([P('w1', None, S(6))])]) | {'fail': 'caught_body'},
            sig([P('u1', None, T(7, 8))])]),
             calls=[{'args': [['330', True], ['1/2', False], ['9', True]], 'kwargs': [['u1', ['0', True]], ['y1', ['1', True]]]}],
             variants=[['v', [['w1', S(0)], ['u1', ['l', [['0', True], ['0', 'nz']]]]]]]),
        case('b_raise_exc', sig([P('a', None, S(1))], wraps=[sig([P('b', None, S(2))]) | {'raise_body': 'exc'}])),
        case('b_raise_base', sig([P('a', None, S(1))]) | {'raise_body': 'base'}),
        case('b_lagshort', sig([P('a', None, T(1, 2, 3)), P('b', None, T(4, 5))],
                               rates=[['lags', [['1/8', False], ['1/4', False]]], ['lags', [['1/2', False], ['3/4', False], ['1', True]]]])),
    ]


# ------------------------------------------------------------------ Coq rendering
def qn(x):
    return cq(Fraction(x[0] if isinstance(x, list) else x))


def c_dflt(d):
    k = d[0]
    if k in ('none', 'None'):
        return 'DNone'
    if k == 'str':
        return 'DInvalid'
    if k == 's':
        return '(DScalar %s)' % cq(Fraction(d[1]))
    if k == 't':
        return '(DTuple %s)' % clist(d[1], qn)
    if k == 'nested':
        return 'DNested'
    raise ValueError(k)


def c_rate(r):
    return 'R' + r


def c_param(p):
    a = p['annot']
    at = 'None' if a is None else ('(Some (ARate %s))' % c_rate(a) if a in RATES else '(Some ABad)')
    return '{| p_name := %s; p_pok := %s; p_annot := %s; p_default := %s |}' % (
        cstr(p['name']), cbool(p['kind'] == 'pok'), at, c_dflt(p['default']))


def c_rspec(r):
    if r is None:
        return 'RsNone'
    if isinstance(r, str):
        return '(RsRate %s)' % c_rate(r)
    if r[0] == 'lag':
        return '(RsLag %s)' % cq(Fraction(r[1]))
    return '(RsLags %s)' % clist(r[1], qn)


def c_tree(t):
    return '(FTree {| f_params := %s; f_rates := %s; f_prepend := %s |} %s)' % (
        clist(t['params'], c_param), clist(t['rates'] or [], c_rspec), cnat(t['prepend']), clist(t['wraps'], c_tree))


def c_lagv(l):
    return '(LNum %s)' % cq(Fraction(l[1])) if l[0] == 'n' else '(LList %s)' % clist(l[1], lambda x: cq(Fraction(x)))


UCLS = {'Control': 'UControl', 'TrigControl': 'UTrig', 'AudioControl': 'UAudio', 'LagControl': 'ULag'}
URATE = {'scalar': 'URscalar', 'control': 'URcontrol', 'audio': 'URaudio'}


def nat_or(x, big=4000):
    return cnat(x if 0 <= x < big else big)


def c_observed(o):
    if o['err'] != 0:
        return '{| o_err := %s; o_all := []; o_controls := []; o_units := []; o_recv := []; o_callable := [] |}' % cnat(min(o['err'], 99))
    bad = 0
    for g in o['all']:
        if g[2] not in RATES:
            bad = 96
    for u in o['units']:
        if u[0] not in UCLS or u[1] not in URATE or u[3] != len(u[4]):
            bad = 97
    if o.get('control_index') != len(o['controls']):
        bad = 95
    alls = clist(o['all'], lambda g: '{| cn_name := %s; cn_index := %s; cn_rate := %s; cn_default := %s; cn_scalar := %s; cn_lag := %s; cn_argnum := %s |}' % (
        cstr(g[0]), nat_or(g[1]), c_rate(g[2]) if g[2] in RATES else 'Rkr', clist(g[3], lambda x: cq(Fraction(x))), cbool(g[4]), c_lagv(g[5]), nat_or(g[6])))
    units = clist(o['units'], lambda u: '{| u_cls := %s; u_rate := %s; u_special := %s; u_values := %s; u_lags := %s |}' % (
        UCLS.get(u[0], 'UControl'), URATE.get(u[1], 'URscalar'), nat_or(u[2]), clist(u[4], lambda x: cq(Fraction(x))), clist(u[5], lambda x: cq(Fraction(x)))))
    recv = clist(o['recv'], lambda f: clist(f, lambda r: '{| r_name := %s; r_scalar := %s; r_chans := %s |}' % (
        cstr(r[0]), cbool(r[1]), clist(r[2], lambda p: '(%s, %s)' % (nat_or(p[0]), nat_or(p[1]))))))
    return '{| o_err := %s; o_all := %s; o_controls := %s; o_units := %s; o_recv := %s; o_callable := %s |}' % (
        cnat(bad), alls, clist(o['controls'], lambda x: cq(Fraction(x))), units, recv, clist(o['callable'], cstr))


def c_vals(v):
    return clist([v[1]], lambda x: cq(Fraction(x))) if v[0] == 's' else clist(v[1], qn)


def c_case(case, o):
    case = model_case(case)
    def c_spec(e):
        sh = e[2] if len(e) > 2 else {'minval': ['-1000000000', True], 'maxval': ['1000000000', True], 'default': e[1]}
        return '(%s, {| cs_min := %s; cs_max := %s; cs_default := %s |})' % (
            cstr(e[0]), qn(sh['minval']), qn(sh['maxval']), copt(sh['default'], qn))
    specs = '(specs_of %s)' % clist(case.get('specs') or [], c_spec)
    vs = clist(case.get('variants') or [], lambda v: '(%s, %s)' % (cstr(v[0]), clist(v[1], lambda p: '(%s, %s)' % (cstr(p[0]), c_vals(p[1])))))
    if o['err'] == 0:
        v = o['variants']
        ov = '{| v_count := %s; v_written := %s; v_raised := %s |}' % (
            nat_or(v['count']), clist(v['written'], lambda w: '(%s, %s)' % (cstr(w[0]), clist(w[1], lambda x: cq(Fraction(x))))), cbool(v['raised']))
        calls = []
        for c, sent in zip(case['calls'], o['calls']):
            if isinstance(sent, dict):
                sent = [['__raised__', '0']]
            calls.append('(%s, %s, %s)' % (clist(c['args'], qn), clist(c['kwargs'], lambda k: '(%s, %s)' % (cstr(k[0]), qn(k[1]))),
                                           clist(sent, lambda p: '(%s, %s)' % (cstr(p[0]), cq(Fraction(p[1]))))))
        calls = clist(calls)
    else:
        ov = '{| v_count := 0; v_written := []; v_raised := false |}'
        calls = '[]'
    return '((%s, %s, %s, %s, %s, %s, %s) : ccase)' % (c_tree(case['tree']), specs, c_observed(o), cstr(case['name']), vs, ov, calls)


HEADER = ('From Coq Require Import String List QArith Bool. Import ListNotations.\n'
          'Require Import SC3.lib.PyNum SC3.model.Controls.\nOpen Scope nat_scope.\n')


# ------------------------------------------------------------------ python-side: bytes vs definition
def bytes_agree(case, o):
    """the name table and control array SynthDesc reads back from the bytes = _all_control_names / _controls"""
    if o['err'] != 0 or o['variants'].get('raised'):
        return None
    v = o['variants']
    if v['table'] != [[g[0], g[1]] for g in o['all']] or v['controls'] != o['controls']:
        return 'SCgf name table / control array differ from _all_control_names / _controls'
    d = o.get('desc')
    if d is None or any(len(g[3]) == 0 for g in o['all']):
        return None     # zero-width controls share a slot with their neighbour: SynthDesc cannot name both
    names = [g[0] for g in o['all']]
    if 'error' in d:
        if len(set(names)) != len(names) and 'duplicated' in d['error']:
            return None
        if len(o['controls']) == 0:
            return None
        return 'SynthDesc could not read the bytes back: ' + d['error']
    if d['names'] != names:
        return 'SynthDesc control_names %s != %s' % (d['names'], names)
    rate_of = {'ir': 'scalar', 'tr': 'control', 'ar': 'audio', 'kr': 'control'}
    for g in o['all']:
        c = d['controls'][g[1]] if g[1] < len(d['controls']) else None
        if c is None or c[0] != g[0] or c[1] != g[1] or c[2] != rate_of[g[2]] or c[3] != g[3]:
            return 'SynthDesc control for %s is %s, definition has %s' % (g[0], c, g)
    return None


# ------------------------------------------------------------------ python-side monitors (bug classes 1, 2, 4)
def enc_expected(v):
    return ['n', '%d/%d' % (Fraction(v[1]).numerator, Fraction(v[1]).denominator), kindtag(v[1:])] if v[0] == 'n' else [v[0]]


def expected_pre(t):
    pv = t.get('prepend_vals')
    if pv is None:
        return [['n', '%d/1' % (1000 + i), 'f'] for i in range(t['prepend'])]
    vals = [pv[1]] if pv[0] == 'scalar' else pv[1]
    return [enc_expected(v) for v in vals]


def expected_caught(t, acc):
    for w in t['wraps']:
        if w.get('fail') == 'caught_sig':
            acc.append('ValueError')
        elif w.get('fail') == 'caught_body':
            expected_caught(w, acc)
            acc.append('C04Body')
        else:
            expected_caught(w, acc)
    return acc


def default_tags(case, p):
    d = p['default']
    if d[0] == 's':
        return [kindtag(d[1:])]
    if d[0] == 't':
        return [kindtag(x) for x in d[1]]
    for n, v in [(e[0], e[1]) for e in (case.get('specs') or [])]:
        if n == p['name']:
            return [kindtag(v)]
    return ['f']


def side_checks(case, o):
    """monitors that do not go through the Coq model: exact types of the values (falsy zeros), what the
    prepended parameters received, release of the build context on every exit path, arguments left alone"""
    bad = []
    rb = raises_uncaught(case)
    if 'ctx_clear' in o and not (o['ctx_clear'] and o['lock_free']):
        bad.append(('C04:build-context-leak', 'after %s: main._current_synthdef cleared=%s, build lock free=%s, a unit created afterwards outside any build is attached to the dead definition=%s' % (
            'the build raised %s' % o.get('errtext') if o['err'] else 'a successful build', o['ctx_clear'], o['lock_free'], o.get('stale_attach'))))
    if o.get('args_mutated'):
        bad.append(('C04:arguments-mutated', 'the rates/prepend/variants/metadata objects passed by the caller were modified: before %s after %s' % (o.get('before'), o.get('after'))))
    if rb:
        if o['err'] != (7 if rb == 'exc' else 8):
            bad.append(('C04:body-exception', 'an exception raised by the body (%s) did not propagate: %s %s' % (rb, o['err'], o.get('errtext'))))
        return bad
    if o['err'] != 0:
        return bad
    m = model_case(case)
    fs = list(oracle.preorder(m['tree']))
    pre = o.get('pre', [])
    if len(pre) == len(fs):
        for f, got in zip(fs, pre):
            if f['prepend'] <= len(f['params']) and got != expected_pre(f):
                bad.append(('C04:prepend-values', 'the prepended parameters received %s, prepend was %s' % (got, expected_pre(f))))
                break
    if o.get('caught') != expected_caught(case['tree'], []):
        bad.append(('C04:failed-wrap', 'wraps caught by the body: %s, expected %s' % (o.get('caught'), expected_caught(case['tree'], []))))
    cps = control_params(m['tree'])
    tags = o.get('controls_tags', [])
    negz = []
    if len(cps) == len(o['all']):
        for p, g in zip(cps, o['all']):
            want = default_tags(case, p)
            got = tags[g[1]:g[1] + len(g[3])]
            if len(want) == len(g[3]) and got != want:
                bad.append(('C04:default-type-changed', 'parameter %s: the control array holds values of types %s, the declared defaults have %s' % (g[0], got, want)))
                break
            negz += [g[1] + j for j, t in enumerate(want) if t == 'f-']
        v = o.get('variants') or {}
        if not bad and not v.get('raised') and 'controls_negzero' in v:
            if sorted(v['controls_negzero']) != sorted(set(negz)):
                bad.append(('C04:negative-zero', 'slots holding -0.0 in the bytes: %s, declared: %s' % (v['controls_negzero'], sorted(set(negz)))))
            byname = {g[0]: g for g in o['all']}
            for (vn, pairs), gotz in zip(case.get('variants') or [], v.get('written_negzero', [])):
                z = set(negz)
                known = all(cn in byname for cn, _ in pairs)
                for cn, vals in (pairs if known else []):
                    xs = [vals[1:]] if vals[0] == 's' else vals[1]
                    for j, x in enumerate(xs):
                        (z.add if kindtag(x) == 'f-' else z.discard)(byname[cn][1] + j)
                if known and sorted(z) != sorted(gotz):
                    bad.append(('C04:negative-zero', 'variant %s: slots holding -0.0 in the bytes %s, expected %s' % (vn, gotz, sorted(z))))
                    break
    return bad


# ------------------------------------------------------------------ stages
def make_cases(ctx):
    cases = list(battery())
    corpus = os.path.join(fw.VERIF, 'corpus', 'C04_cases.json')
    if os.path.exists(corpus):
        cases += json.load(open(corpus))
    nq, nt = (260, 3000)
    n = ctx.n(nq, nt)
    for i in range(n):
        big = (i % 10 == 0)
        nmax = ctx.n(10, 40) if big else ctx.n(6, 12)
        cases.append(gen_case(ctx.rng, i, nmax, malformed=(i % 6 == 5)))
    return cases


def correspond(ctx):
    c = Corr()
    cases = make_cases(ctx)
    out = ctx.impl('c04_build', {'cases': cases}, timeout=900)['out']
    ctx.c04 = (cases, out)
    idxmap = [i for i, k in enumerate(cases) if not raises_uncaught(k)]
    items_all = {i: c_case(cases[i], out[i]) for i in idxmap}
    items = [items_all[i] for i in idxmap]
    body = 'Eval vm_compute in bad_idx (check_case fixed) cases.'
    bad, errs = fw.check_shards(ctx, 'lay', HEADER, items, body, shard=ctx.n(40, 100))
    bad = [idxmap[i] for i in bad]
    c.evaluations = len(cases)
    for k, o in zip(cases, out):
        nctl = len(o.get('all', []))
        c.count('result:' + ('built' if o['err'] == 0 else 'error%d' % o['err']))
        c.count('params:%s' % ('0' if nctl == 0 else '1-5' if nctl <= 5 else '6-15' if nctl <= 15 else '16+'))
        if o['err'] == 0:
            c.count('slots:%s' % ('0-16' if len(o['controls']) <= 16 else '17-32' if len(o['controls']) <= 32 else '33+'))
            for u in o['units']:
                c.count('unit:' + u[0])
            if k['tree']['wraps']:
                c.count('with-wrap')
            if k['tree']['prepend']:
                c.count('with-prepend')
            if k.get('variants'):
                c.count('with-variants')
            if k.get('specs'):
                c.count('with-specs')
            if nctl >= 2 and len({g[2] for g in o['all']}) >= 2:
                c.nontriv(k)
    c.rule = ('generated signatures (annotations, rates entries, scalar/tuple/missing defaults, prepend, nested SynthDef.wrap, '
              'metadata specs, variants, positional+keyword calls; every 6th case malformed) built by the REAL SynthDef from a '
              'dynamically created function; name table, control array, control units, per-parameter received outputs, '
              '__call__ message and the variants section of the bytes compared exactly with build_def/variants_layout/call_map '
              'of the model. non-trivial = built, at least two controls in at least two rate groups')
    c.samples = [{'case': k['name'], 'all': o.get('all'), 'controls': o.get('controls')} for k, o in list(zip(cases, out))[:3]]
    for e in errs:
        c.failures.append(Failure('correspondence', 'coq evaluation of layout cases failed: ' + e))
    # python-side tie of the bytes to the definition
    badset = set(bad)
    side = {}
    for i, (k, o) in enumerate(zip(cases, out)):
        if o['err'] == 98:
            c.failures.append(Failure('correspondence', 'harness could not run case: ' + o.get('errtext', ''), replay={'case': k, 'impl': o}))
            continue
        msg = None if i in badset else bytes_agree(k, o)
        if msg:
            c.failures.append(Failure('correspondence', msg, replay={'case': k, 'impl': o}))
        if o['err'] == 0 and not o.get('units_kept', True):
            c.failures.append(Failure('correspondence', 'a control unit created during the build is missing from the final graph', replay={'case': k}))
        for sig, text in side_checks(k, o):
            size = (0 if k['name'].startswith('b_') else 1, len(json.dumps(k)))
            if sig not in side or size < side[sig][0]:
                side[sig] = (size, Failure('correspondence', 'property fails on the implementation for %s: %s' % (k['name'], text),
                                           signature=sig, replay={'case': k, 'impl': o, 'violation': text}, found_input=True,
                                           theorem=THEOREM_OF.get(sig)))
    c.failures.extend(f for _, f in side.values())
    for k in cases:
        for t in nodes(k['tree']):
            if t.get('fail'):
                c.count('wrap:' + t['fail'])
            if t.get('raise_body'):
                c.count('raise:' + t['raise_body'])
            if t.get('prepend_vals'):
                c.count('prepend:' + t['prepend_vals'][0])
    # attribute each disagreement to the snapshot defects that explain it
    if bad:
        sub = bad[:60]
        rc, txt = ctx.coq('attr', HEADER + 'Definition cases := [\n' + ';\n'.join(items_all[i] for i in sub) + '\n].\nEval vm_compute in map attribute cases.\n')
        codes = fw.parse_nat_list(txt) if rc == 0 else None
        if codes is None:
            codes = [8] * len(sub)
        by_sig = {}
        for i, code in zip(sub, codes):
            k, o = cases[i], out[i]
            ob = oracle.check(model_case(k), o)
            if any(t.get('prepend_vals') and t['prepend_vals'][0] == 'scalar' and t['prepend_vals'][1] in
                   (['n', '0', True], ['n', '0', False], ['n', '0', 'b'], ['str'], ['tuple']) for t in nodes(k['tree'])):
                ob = [('C04:prepend-falsy-object', text) for _, text in ob]
            if 0 < code < 8:
                what = 'implementation agrees with the snapshot model, not with the repaired one (model defects: %s)' % '+'.join(SIGS[b] for b in (1, 2, 4) if code & b)
            elif code == 0:
                what = 'inconsistent attribution'
            else:
                what = 'implementation agrees with neither the repaired nor the snapshot model'
            size = (0 if k['name'].startswith('b_') else 1, len(json.dumps(k)))
            if ob:
                for sig, text in ob:
                    f = Failure('correspondence', 'property fails on the implementation for %s: %s [%s]' % (k['name'], text, what),
                                signature=sig, replay={'case': k, 'impl': o, 'attribution': code, 'violation': text},
                                found_input=True, theorem=THEOREM_OF.get(sig))
                    if sig not in by_sig or size < by_sig[sig][0]:
                        by_sig[sig] = (size, f)
            else:
                f = Failure('correspondence', '%s; the independent oracle sees no property violation: case %s' % (what, k['name']),
                            replay={'case': k, 'impl': o, 'attribution': code})
                if None not in by_sig or size < by_sig[None][0]:
                    by_sig[None] = (size, f)
        c.failures.extend(f for _, f in by_sig.values())
        c.notes.append('disagreements: %d of %d cases' % (len(bad), len(cases)))
    return c


def search(ctx, failures):
    """independent oracle (harness/oracles/c04_layout.py, from the property text) over the battery,
    the disagreeing cases and a fresh stream of signatures: exhibit concrete failing inputs"""
    cases = list(battery())
    for f in failures:
        k = f.replay.get('case') if isinstance(f.replay, dict) else None
        if isinstance(k, dict) and 'tree' in k:
            cases.append(k)
    for i in range(ctx.n(150, 1500)):
        cases.append(gen_case(ctx.rng, 100000 + i, ctx.n(8, 30), malformed=(i % 7 == 6)))
    out = ctx.impl('c04_build', {'cases': cases}, timeout=900)['out']
    best = {}
    for i, (k, o) in enumerate(zip(cases, out)):
        if o['err'] == 98:
            continue
        for sig, text in ([] if raises_uncaught(k) else oracle.check(model_case(k), o)) + side_checks(k, o):
            size = (0 if k['name'].startswith('b_') else 1, len(json.dumps(k)))
            if sig not in best or size < best[sig][0]:
                best[sig] = (size, Failure('search', 'property fails on the implementation for %s: %s' % (k['name'], text),
                                           signature=sig, replay={'case': k, 'impl': o, 'violation': text}, found_input=True,
                                           theorem=THEOREM_OF.get(sig)))
    return [f for _, f in best.values()]


def replay(ctx, rp):
    k = rp['replay']['case']
    o = ctx.impl('c04_build', {'cases': [k]})['out'][0]
    v = ([] if raises_uncaught(k) else oracle.check(model_case(k), o)) + side_checks(k, o)
    print(json.dumps({'case': k['name'], 'impl': o, 'violations': v}, indent=1, default=str))
    return 1 if v else 0
